#!/usr/bin/env python3
"""Generate MANIFEST.json from the table below (keeps the file valid and consistent)."""
import json, os, sys
HERE = os.path.dirname(os.path.dirname(os.path.abspath(__file__)))
sys.path.insert(0, HERE)
from tools.manifest_table import CHECKS, NOT_APPLICABLE  # noqa

BASE = "cd /repo && /venv/bin/python -m pytest -ra -q -p no:cacheprovider --timeout=900 --continue-on-collection-errors"
m = {
    "version": 1,
    "setup_cmd": "python3-vt -c 'import ast, networkx, sympy, jsonschema' && python3-vt sa/check.py --help > /dev/null",
    "hooks": {"guard": "MYGRAD_VERIF", "enable": "none needed: every check reads /repo's source only and never imports or runs mygrad",
              "baseline_off_cmd": BASE, "source_commits": [], "add_only": True},
    "engines": [{"name": "sa", "path": "sa/", "serves_properties": [c["property_id"] for c in CHECKS],
                 "kind_free_text": "repo-specific static analyser: source normal form (equivalence transformations N1-N22) + recognition of benign drift, "
                                   "AST project model (name/MRO resolution), helper-inlining normal form, specialisable statement CFG with "
                                   "exceptional edges + dominators (networkx), ownership/alias and linearity abstract interpretation, sympy term "
                                   "normalisation, call-graph effect summaries, in-memory mutant self-test bank"}],
    "checks": [],
    "not_applicable": NOT_APPLICABLE,
    "notes": "All checks are static (python3-vt, stdlib ast + networkx + sympy); exit 0 pass / 1 VIOLATION / 2 ANALYSIS-ERROR. "
             "Known findings: known_findings.json. See DESIGN.md.",
}
for c in CHECKS:
    pid = c["property_id"]
    m["checks"].append({
        "property_id": pid,
        "quick_cmd": f"python3-vt sa/check.py {pid} --tier quick",
        "thorough_cmd": f"python3-vt sa/check.py {pid} --tier thorough",
        "evidence_file": f"evidence/{pid}.json",
        "replay_cmd_template": f"python3-vt sa/check.py {pid} --replay {{path}}",
        "engine": "sa",
        "technique": c["technique"],
        "level_claimed": {"category": "other", "design_ref": f"DESIGN.md §6 {pid}", "text": c["text"]},
        "level_note": c["note"],
    })
json.dump(m, open(os.path.join(HERE, "MANIFEST.json"), "w"), indent=1)
print("wrote MANIFEST.json with", len(m["checks"]), "checks,", len(NOT_APPLICABLE), "not applicable")
