#!/usr/bin/env python3
"""Re-run every seeded change's demonstration against /repo HEAD (after new fix: commits): the demo must exit 0 on the unchanged library
and non-zero with the change applied.  Works on throw-away copies of /repo/src (removed at once); 16 at a time.  Does not re-run the suite.
usage: revalidate_seeds.py [ids...]   -> seeded/REVALIDATION.md"""
import glob, json, os, shutil, subprocess, sys, tempfile
from concurrent.futures import ThreadPoolExecutor
HERE = os.path.dirname(os.path.dirname(os.path.abspath(__file__)))
HEAD = subprocess.run(["git", "-C", "/repo", "rev-parse", "--short", "HEAD"], capture_output=True, text=True).stdout.strip()

def one(d):
    sid = os.path.basename(d)
    tmp = tempfile.mkdtemp(prefix="rv_")
    try:
        shutil.copytree("/repo/src", os.path.join(tmp, "src"))
        env = dict(os.environ, PYTHONPATH=os.path.join(tmp, "src"), PYTHONDONTWRITEBYTECODE="1")
        demo = os.path.join(d, "demo.py")
        r0 = subprocess.run(["/venv/bin/python", demo], capture_output=True, text=True, env=env, cwd=tmp, timeout=900)
        subprocess.run(["git", "init", "-q", tmp], capture_output=True)
        a = subprocess.run(["git", "-C", tmp, "apply", "--whitespace=nowarn", os.path.join(d, "patch.diff")], capture_output=True, text=True)
        if a.returncode != 0:
            a = subprocess.run(["patch", "-p1", "-s", "-d", tmp, "-i", os.path.join(d, "patch.diff")], capture_output=True, text=True)
            if a.returncode != 0:
                return sid, r0.returncode, None, "patch does not apply"
        r1 = subprocess.run(["/venv/bin/python", demo], capture_output=True, text=True, env=env, cwd=tmp, timeout=900)
        return sid, r0.returncode, r1.returncode, (r1.stderr or r1.stdout).strip().splitlines()[-1][:160] if r1.returncode else ""
    except subprocess.TimeoutExpired:
        return sid, None, None, "timeout"
    finally:
        shutil.rmtree(tmp, ignore_errors=True)

dirs = sorted(glob.glob(os.path.join(HERE, "seeded", "*", "patch.diff")))
dirs = [os.path.dirname(p) for p in dirs if not sys.argv[1:] or os.path.basename(os.path.dirname(p)) in sys.argv[1:]]
with ThreadPoolExecutor(max_workers=12) as ex:
    res = list(ex.map(one, dirs))
bad = [r for r in res if not (r[1] == 0 and r[2] not in (0, None))]
for r in res:
    print(r[0], "clean", r[1], "mutated", r[2], r[3] if r in bad else "")
if not sys.argv[1:]:
    with open(os.path.join(HERE, "seeded", "REVALIDATION.md"), "w") as fh:
        fh.write(f"# Seeded changes re-validated against /repo HEAD {HEAD}\n\n`python3-vt tools/revalidate_seeds.py`: demo exits 0 on the unchanged library and non-zero with the change applied.\n\n")
        fh.write(f"{len(res) - len(bad)} of {len(res)} still demonstrate a violation.\n\n")
        for r in bad:
            fh.write(f"* {r[0]}: clean exit {r[1]}, mutated exit {r[2]} {r[3]}\n")
print(len(res) - len(bad), "of", len(res), "valid;", "invalid:", [r[0] for r in bad])
