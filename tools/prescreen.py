#!/usr/bin/env python3
"""Judge not-yet-confirmed sub-agent patches in memory: usage prescreen.py <dir-with-m*/patch.diff> ...  (prints which checks fire; writes nothing)"""
import glob, os, sys
from concurrent.futures import ProcessPoolExecutor
sys.path.insert(0, os.path.dirname(os.path.abspath(__file__)))
import matrix_par
jobs = []
for d in sys.argv[1:]:
    for p in sorted(glob.glob(os.path.join(d, "[mbR]*", "patch.diff"))):
        pp = os.path.join(os.path.dirname(p), "patch_rebased.diff")
        jobs.append(("seeded", os.path.basename(d.rstrip("/")) + "/" + os.path.basename(os.path.dirname(p)), pp if os.path.exists(pp) else p))
with ProcessPoolExecutor(max_workers=min(16, max(1, len(jobs)))) as ex:
    for kind, sid, r in ex.map(matrix_par.one, jobs):
        print(sid, "->", {p: (v["rules"] or v["first"][:80]) for p, v in r["fired"].items()} or r.get("error") or "MISSED", flush=True)
        for p, v in r["fired"].items():
            print("      ", p, v["first"][:200])
