#!/usr/bin/env python3
"""Confirm sub-agent written behaviour-preserving changes in a scratch worktree of /repo HEAD (whole suite passes) and file them under /verif/benign/.
usage: confirm_benign.py <AREA>   (reads $BENIGN_SRC/<AREA>/<id>/{patch.diff,meta.json}; default BENIGN_SRC=/tmp/agentout_b3)"""
import json, os, shutil, subprocess, sys
HERE = os.path.dirname(os.path.dirname(os.path.abspath(__file__)))
area = sys.argv[1]
src = os.path.join(os.environ.get("BENIGN_SRC", "/tmp/agentout_b3"), area)
NPROC = os.environ.get("CONFIRM_N", "5")
ids = sorted(d for d in os.listdir(src) if os.path.exists(os.path.join(src, d, "patch.diff")))
wt = f"/tmp/wt/confirmb_{area}_{os.getpid()}"
subprocess.run(["git", "-C", "/repo", "worktree", "remove", "--force", wt], capture_output=True)
subprocess.run(["git", "-C", "/repo", "worktree", "add", "-q", "--detach", wt, "HEAD"], check=True)
env = dict(os.environ, PYTHONPATH=f"{wt}/src", HYPOTHESIS_PROFILE="ci")
def run(cmd, **k):
    return subprocess.run(cmd, capture_output=True, text=True, cwd=wt, env=env, **k)
try:
    for i in ids:
        d = os.path.join(src, i)
        out = {"id": i}
        run(["git", "checkout", "--", "."]); run(["git", "clean", "-fdq", "src"])
        a = run(["git", "apply", os.path.join(d, "patch.diff")])
        if a.returncode != 0:
            out.update(applies=False, error=a.stderr[-300:]); print(json.dumps(out), flush=True); continue
        t = run(["/venv/bin/python", "-m", "pytest", "-q", "-p", "no:cacheprovider", "--timeout=900", "-n", NPROC, "tests",
                 "--deselect", "tests/test_version.py::test_version"])
        tail = t.stdout.strip().splitlines()[-1] if t.stdout.strip() else ""
        failed = [l for l in t.stdout.splitlines() if l.startswith("FAILED") or l.startswith("ERROR")][:14]
        if t.returncode != 0 and 0 < len(failed) <= 12:
            ids_ = [l.split()[1] for l in failed]
            t2 = run(["/venv/bin/python", "-m", "pytest", "-q", "-p", "no:cacheprovider", "--timeout=900", "-n", "0"] + ids_)
            if t2.returncode == 0:
                tail += " ; failing tests re-run serially: " + (t2.stdout.strip().splitlines()[-1] if t2.stdout.strip() else "")
                t = t2
        out.update(applies=True, suite=tail, suite_ok=t.returncode == 0, failed=failed)
        if t.returncode == 0:
            dst = os.path.join(HERE, "benign", i)
            os.makedirs(dst, exist_ok=True)
            run(["git", "add", "-A", "src"])
            diff = run(["git", "diff", "--cached"]).stdout
            run(["git", "reset", "-q"])
            open(os.path.join(dst, "patch.diff"), "w").write(diff)
            try:
                meta = json.load(open(os.path.join(d, "meta.json")))
            except Exception as e:
                meta = {"id": i, "note": f"agent meta unreadable: {e}"}
            meta["confirmed_by_me"] = {"worktree": "scratch worktree of /repo HEAD " + subprocess.run(["git", "-C", "/repo", "rev-parse", "--short", "HEAD"], capture_output=True, text=True).stdout.strip(),
                                       "suite_cmd": f"HYPOTHESIS_PROFILE=ci PYTHONPATH=<wt>/src /venv/bin/python -m pytest -q -p no:cacheprovider --timeout=900 -n {NPROC} tests --deselect tests/test_version.py::test_version",
                                       "suite_result": tail}
            json.dump(meta, open(os.path.join(dst, "meta.json"), "w"), indent=1)
        print(json.dumps(out), flush=True)
finally:
    subprocess.run(["git", "-C", "/repo", "worktree", "remove", "--force", wt], capture_output=True)
