#!/usr/bin/env python3
"""Confirm sub-agent mutations in a scratch worktree of /repo HEAD and file them under /verif/seeded/.
usage: confirm_seed.py <PROP> [m1 m2 ...]   (reads /tmp/agentout/<PROP>/<m>/{patch.diff,demo.py,meta.json})"""
import json, os, shutil, subprocess, sys, re
HERE = os.path.dirname(os.path.dirname(os.path.abspath(__file__)))
prop = sys.argv[1]
src = os.path.join(os.environ.get("SEED_SRC", "/tmp/agentout"), prop)
TAG = os.environ.get("SEED_TAG", "")
ms = sys.argv[2:] or sorted(d for d in os.listdir(src) if os.path.isdir(os.path.join(src, d)) and os.path.exists(os.path.join(src, d, "patch.diff")))
wt = f"/tmp/wt/confirm{TAG}_{prop}"
subprocess.run(["git", "-C", "/repo", "worktree", "remove", "--force", wt], capture_output=True)
subprocess.run(["git", "-C", "/repo", "worktree", "add", "-q", "--detach", wt, "HEAD"], check=True)
# HYPOTHESIS_PROFILE=ci is the repository's own profile (tests/conftest.py): it only relaxes the 200 ms per-example deadline,
# which otherwise produces DeadlineExceeded flakes whenever the machine is loaded
env = dict(os.environ, PYTHONPATH=f"{wt}/src", HYPOTHESIS_PROFILE="ci")
def run(cmd, **k):
    return subprocess.run(cmd, capture_output=True, text=True, cwd=wt, env=env, **k)
try:
    for m in ms:
        d = os.path.join(src, m)
        out = {"seed": f"{prop}/{m}"}
        run(["git", "checkout", "--", "."])
        r0 = run(["/venv/bin/python", os.path.join(d, "demo.py")])
        out["demo_clean_exit"] = r0.returncode
        pf = os.path.join(d, "patch_rebased.diff") if os.path.exists(os.path.join(d, "patch_rebased.diff")) else os.path.join(d, "patch.diff")
        out["patch_used"] = os.path.basename(pf)
        a = run(["git", "apply", pf])
        if a.returncode != 0:
            run(["git", "checkout", "--", "."])
            a = run(["git", "apply", "--3way", pf])
            if run(["git", "diff", "--name-only", "--diff-filter=U"]).stdout.strip():
                a.returncode = 1
                run(["git", "reset", "-q", "--hard", "HEAD"])
        if a.returncode != 0:
            out["applies"] = False
            out["error"] = a.stderr[-300:]
            print(json.dumps(out)); continue
        run(["git", "reset", "-q"])
        out["applies"] = True
        r1 = run(["/venv/bin/python", os.path.join(d, "demo.py")])
        out["demo_mutated_exit"] = r1.returncode
        out["demo_mutated_tail"] = (r1.stderr or r1.stdout)[-300:]
        t = run(["/venv/bin/python", "-m", "pytest", "-q", "-p", "no:cacheprovider", "--timeout=900", "-n", os.environ.get("CONFIRM_N", "8"), "tests",
                 "--deselect", "tests/test_version.py::test_version"])
        tail = t.stdout.strip().splitlines()[-1] if t.stdout.strip() else ""
        out["suite"] = tail
        out["suite_failed"] = [l for l in t.stdout.splitlines() if l.startswith("FAILED") or l.startswith("ERROR")][:14]
        if t.returncode != 0 and len(out["suite_failed"]) <= 12:
            # under heavy machine load hypothesis deadline / health-check failures occur: re-run just the failing tests serially
            ids = [l.split()[1] for l in out["suite_failed"]]
            t2 = run(["/venv/bin/python", "-m", "pytest", "-q", "-p", "no:cacheprovider", "--timeout=900", "-n", "0"] + ids)
            out["suite_rerun"] = t2.stdout.strip().splitlines()[-1] if t2.stdout.strip() else ""
            if t2.returncode == 0:
                t = t2
                tail = tail + " ; failing tests re-run serially: " + out["suite_rerun"]
        out["suite_ok"] = t.returncode == 0
        diff = run(["git", "diff"]).stdout
        ok = out["demo_clean_exit"] == 0 and out["demo_mutated_exit"] != 0 and out["suite_ok"]
        out["confirmed"] = ok
        if ok:
            dst = os.path.join(HERE, "seeded", f"{prop}_{TAG}{m}")
            os.makedirs(dst, exist_ok=True)
            open(os.path.join(dst, "patch.diff"), "w").write(diff)   # re-based on /repo HEAD
            shutil.copy(os.path.join(d, "demo.py"), os.path.join(dst, "demo.py"))
            meta = {}
            try:
                meta = json.load(open(os.path.join(d, "meta.json")))
            except Exception as e:
                meta = {"property": prop, "note": f"agent meta unreadable: {e}"}
            meta["confirmed_by_me"] = {"worktree": "scratch worktree of /repo HEAD " + subprocess.run(["git", "-C", "/repo", "rev-parse", "--short", "HEAD"], capture_output=True, text=True).stdout.strip(),
                                       "demo_clean_exit": out["demo_clean_exit"], "demo_mutated_exit": out["demo_mutated_exit"],
                                       "suite_cmd": "HYPOTHESIS_PROFILE=ci PYTHONPATH=<wt>/src /venv/bin/python -m pytest -q -p no:cacheprovider --timeout=900 -n 8 tests --deselect tests/test_version.py::test_version  (test_version needs the untracked generated _version.py, absent in worktrees)",
                                       "suite_result": tail}
            json.dump(meta, open(os.path.join(dst, "meta.json"), "w"), indent=1)
        print(json.dumps(out), flush=True)
finally:
    subprocess.run(["git", "-C", "/repo", "worktree", "remove", "--force", wt], capture_output=True)
