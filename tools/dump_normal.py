#!/usr/bin/env python3
"""Development-time validation of the normal form (not a registered check, runs the library's own tests): write a copy of /repo whose sources
are replaced by `ast.unparse(normal form)` and print the pytest command.  If the whole suite passes on that copy, the passes of sa/normal.py are
behaviour-preserving on this code base as far as the suite can tell.   usage: python3-vt tools/dump_normal.py /tmp/normrepo [--inline]"""
import ast, os, shutil, sys
HERE = os.path.dirname(os.path.dirname(os.path.abspath(__file__)))
sys.path.insert(0, HERE)
from sa.model import REPO, Project, _normalise  # noqa: E402
dst = sys.argv[1]
shutil.rmtree(dst, ignore_errors=True)
shutil.copytree(REPO, dst, ignore=shutil.ignore_patterns(".git", "__pycache__", "*.pyc", ".hypothesis", ".pytest_cache"))
if "--inline" in sys.argv:
    os.environ["SA_NO_DRIFT"] = "1"
    pr = Project()
    trees = {m.relpath: m.tree for m in pr.modules.values()}
else:
    trees = {}
    for dp, dn, fn in os.walk(os.path.join(REPO, "src", "mygrad")):
        for f in fn:
            if f.endswith(".py"):
                full = os.path.join(dp, f)
                trees[os.path.relpath(full, REPO)] = _normalise(ast.parse(open(full, encoding="utf-8").read()))
for rel, tree in trees.items():
    ast.fix_missing_locations(tree)
    open(os.path.join(dst, rel), "w", encoding="utf-8").write(ast.unparse(tree) + "\n")
print(f"cd {dst} && PYTHONPATH={dst}/src HYPOTHESIS_PROFILE=ci /venv/bin/python -m pytest -q -p no:cacheprovider --timeout=900 -n 4 tests")
