#!/usr/bin/env python3
"""Parallel, in-memory version of seed_matrix.py / benign_matrix.py.

Every patch under seeded/*/patch.diff (must be caught) and benign/*/patch.diff (must stay silent) is applied to a throw-away
copy of /repo/src under a temp directory (removed at once), turned into a source overlay and handed to the analyser
(`check.run_property(prop, "quick", overlay=...)`) -- /repo itself is never touched, so 16 seeds are judged at a time.
A check "fires" when the overlay produces a violation that the unchanged tree does not (or refuses the tree: ANALYSIS-ERROR).
Open known findings are part of the baseline and therefore never count.

usage: python3-vt tools/matrix_par.py [seeded|benign|all] [ids...]       writes seeded/RESULTS.md, benign/RESULTS.md
"""
import glob
import json
import os
import shutil
import subprocess
import sys
import tempfile
from concurrent.futures import ProcessPoolExecutor

HERE = os.path.dirname(os.path.dirname(os.path.abspath(__file__)))
sys.path.insert(0, HERE)
REPO = os.environ.get("SA_REPO", "/repo")
PROPS = [f"C{i:02d}" for i in range(1, 19)]


def overlay_of(patch):
    """{relative path: patched text} for the files the patch touches, or an error string"""
    tmp = tempfile.mkdtemp(prefix="mx_", dir=os.environ.get("TMPDIR", "/tmp"))
    try:
        files = []
        for line in open(patch, encoding="utf-8", errors="replace"):
            if line.startswith("+++ b/"):
                files.append(line[6:].strip())
        for f in files:
            src = os.path.join(REPO, f)
            dst = os.path.join(tmp, f)
            os.makedirs(os.path.dirname(dst), exist_ok=True)
            if os.path.exists(src):
                shutil.copy(src, dst)
        subprocess.run(["git", "init", "-q", tmp], capture_output=True)
        r = subprocess.run(["git", "-C", tmp, "apply", "--whitespace=nowarn", patch], capture_output=True, text=True)
        if r.returncode != 0:
            r = subprocess.run(["patch", "-p1", "-s", "-d", tmp, "-i", patch], capture_output=True, text=True)
            if r.returncode != 0:
                return "patch does not apply: " + (r.stderr or r.stdout)[-200:]
        ov = {}
        for f in files:
            p = os.path.join(tmp, f)
            if f.startswith("src/mygrad/") and f.endswith(".py") and os.path.exists(p):
                ov[f] = open(p, encoding="utf-8").read()
        return ov
    finally:
        shutil.rmtree(tmp, ignore_errors=True)


_BASE = {}


def _viol(prop, overlay):
    """what the check would print for this tree: its unlisted violations (known findings are matched exactly as report.finish does) and
    analysis errors (including rules below their floor)"""
    from sa import check
    from sa.model import AnalysisError
    from sa.report import verdict
    try:
        run = check.run_property(prop, "quick", overlay=overlay)
        v, errs = verdict(run)
        return v, ("ANALYSIS-ERROR " + "; ".join(errs)[:300]) if errs else None
    except AnalysisError as e:
        return {}, f"ANALYSIS-ERROR {e}"
    except Exception as e:  # noqa
        return {}, f"CRASH {type(e).__name__}: {e}"


def one(job):
    kind, sid, patch = job
    ov = overlay_of(patch)
    if isinstance(ov, str):
        return kind, sid, {"error": ov, "fired": {}}
    fired = {}
    for p in PROPS:
        if p not in _BASE:
            _BASE[p] = _viol(p, None)[0]
        got, err = _viol(p, ov)
        new = {k: v for k, v in got.items() if k not in _BASE[p]}
        if new:
            k = sorted(new)[0]
            fired[p] = {"exit": 1, "rules": sorted({k[0] for k in new}), "first": f"{k[0]} {k[1]}: {k[2][:120]}"}
        elif err:
            fired[p] = {"exit": 2, "rules": [], "first": err[:200]}
    return kind, sid, {"fired": fired}


def main():
    which = sys.argv[1] if len(sys.argv) > 1 else "all"
    only = set(sys.argv[2:])
    jobs = []
    if which in ("seeded", "all"):
        for d in sorted(glob.glob(os.path.join(HERE, "seeded", "*", "patch.diff"))):
            sid = os.path.basename(os.path.dirname(d))
            if not only or sid in only:
                jobs.append(("seeded", sid, d))
    if which in ("benign", "all"):
        for d in sorted(glob.glob(os.path.join(HERE, "benign", "*", "patch.diff"))):
            sid = os.path.basename(os.path.dirname(d))
            if not only or sid in only:
                jobs.append(("benign", sid, d))
    res = {"seeded": {}, "benign": {}}
    with ProcessPoolExecutor(max_workers=min(16, max(1, len(jobs)))) as ex:
        for kind, sid, r in ex.map(one, jobs):
            res[kind][sid] = r
            print(kind, sid, "->", {p: v["rules"] or v["first"][:60] for p, v in r["fired"].items()} or r.get("error") or ("silent" if kind == "benign" else "MISSED"), flush=True)
    rc = 0
    if res["seeded"] and not only:
        with open(os.path.join(HERE, "seeded", "RESULTS.md"), "w") as fh:
            fh.write("# Seeded changes vs. checks\n\nEach row: a change written by an independent sub-agent that breaks the named property, passes the whole "
                     "test-suite and was confirmed in a scratch worktree (meta.json). `caught by` lists the checks (property: rules) that report a violation "
                     "the unchanged tree does not have when the change is applied; regenerated by `python3-vt tools/matrix_par.py seeded`.\n\n"
                     "| seed | breaks | change | caught by |\n|---|---|---|---|\n")
            for sid, r in sorted(res["seeded"].items()):
                meta = json.load(open(os.path.join(HERE, "seeded", sid, "meta.json")))
                caught = "; ".join(f"{p}: {','.join(v['rules']) or 'exit 2'}" for p, v in sorted(r["fired"].items())) or "**missed** (" + r.get("error", "no structural clause decides it") + ")"
                fh.write(f"| {sid} | {meta.get('property', sid[:3])} | {str(meta.get('title', ''))[:140].replace('|', '/')} | {caught} |\n")
            n = len(res["seeded"]); m = sum(1 for r in res["seeded"].values() if r["fired"])
            fh.write(f"\n{m} of {n} seeded changes are caught by at least one check.\n")
        json.dump(res["seeded"], open(os.path.join(HERE, "seeded", "results.json"), "w"), indent=1, sort_keys=True)
    if res["seeded"]:
        missed = sorted(s for s, r in res["seeded"].items() if not r["fired"])
        print("seeded: caught", len(res["seeded"]) - len(missed), "of", len(res["seeded"]), "missed:", missed)
    if res["benign"]:
        bad = sorted(s for s, r in res["benign"].items() if r["fired"] or r.get("error"))
        print("benign: silent on", len(res["benign"]) - len(bad), "of", len(res["benign"]), "noisy:", bad)
        if not only:
            with open(os.path.join(HERE, "benign", "RESULTS.md"), "w") as fh:
                fh.write("# Behaviour-preserving refactorings vs. checks\n\nEach row: a refactoring written by an independent sub-agent, which passes the whole "
                         "test-suite. All 18 checks must stay silent with it applied. Regenerated by `python3-vt tools/matrix_par.py benign`.\n\n"
                         "| id | kind | refactoring | checks |\n|---|---|---|---|\n")
                for sid, r in sorted(res["benign"].items()):
                    mp = os.path.join(HERE, "benign", sid, "meta.json")
                    meta = json.load(open(mp)) if os.path.exists(mp) else {}
                    out = "; ".join(f"{p}: {v['first'][:100]}" for p, v in sorted(r["fired"].items())) or r.get("error") or "silent"
                    fh.write(f"| {sid} | {meta.get('kind', '')} | {str(meta.get('title', ''))[:160].replace('|', '/')} | {out} |\n")
                fh.write(f"\n{len(res['benign']) - len(bad)} of {len(res['benign'])} refactorings leave every check silent.\n")
        if bad:
            rc = 1
    return rc


if __name__ == "__main__":
    sys.exit(main())
