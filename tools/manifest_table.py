NOTE = ("trusted base: name/MRO resolution of the project model (unresolved calls are listed, never judged); "
        "may-raise = explicit raise reachable through resolved repo calls + the forward kernel call; NumPy view/copy table")
CHECKS = [
 {"property_id": "C08", "technique": "static: CFG path analysis with exceptional edges (lock->release on all paths), who-may-write, typestate of the lock counter",
  "text": "Structural necessary conditions, exhaustive over the paths of Tensor._op under every TRACK_GRAPH x MEM_GUARD specialisation and over all lock sites: "
          "every lock taken is released or handed to the op's finalizer on all normal and exceptional exits; every locked array is registered; bases are yielded "
          "before views; the counter is only incremented by the lock function and the flag restored only by the last holder. Does not decide interleavings of "
          "finalizers and reference drops (schedule quantifier).", "note": NOTE},
 {"property_id": "C13", "technique": "static: CFG path analysis with exceptional edges (no irreversible write before the last may-raise call), handler/rollback dominance",
  "text": "Structural necessary conditions: in Tensor._op no input-tensor state is written before a call that may still raise; the forward call and the in-place "
          "kernel are guarded by handlers that release/restore and re-raise; public tensors are mirrored only after the kernel succeeded; the shape setter validates "
          "before it duplicates the graph. Does not decide value-level equivalence with the program minus the failing statement.", "note": NOTE},
]
_BUILT = {c["property_id"] for c in CHECKS}
NOT_APPLICABLE = [
 {"property_id": f"C{i:02d}", "reason": "structural clauses designed (DESIGN.md §6) but the rules are not implemented yet in this commit"}
 for i in range(1, 19) if f"C{i:02d}" not in _BUILT
]
