NOTE = ("trusted base: name/MRO resolution of the project model (unresolved calls are listed, never judged); "
        "may-raise = explicit raise reachable through resolved repo calls + the forward kernel call; NumPy view/copy table; "
        "rules are structural necessary conditions, exhaustive over the enumerated syntactic universe (paths / sites / classes)")
NOT_DECIDED = " Not decided (left to other technique families): "
CHECKS = [
 {"property_id": "C01", "technique": "static: CFG dominance / graph-cut rules on the graph walk and the accumulation loop; signature binding of all _op call sites",
  "text": "Decides the structure that makes backward() a reverse-mode sweep: post-order + appendleft + forward iteration (reverse topological order), seed-before-walk, "
          "accumulate-never-overwrite, every contribution post-processed (broadcast reduction, where-mask) and stored, every concrete Operation records exactly its leading "
          "tensor parameters as variables and every _op/_in_place_op call site binds against that signature." + NOT_DECIDED + "numeric value of any derivative; order-independence of floating point sums.",
  "note": NOTE},
 {"property_id": "C06", "technique": "static: dominance (pull-before-drop), paired-store analysis, reaching-definition layout provenance",
  "text": "Decides: a view pulls its gradient before clear_graph drops its creator; every nulling of _grad is paired with nulling _view_grad; Tensor.grad replays the view op untracked and "
          "validates its cache by base identity and returns a cached view gradient only validated or freshly recomputed; the first contribution stored in var._grad has var.data's memory layout (D5, repaired)." + NOT_DECIDED +
          "value equality of v.grad with the replayed chain.", "note": NOTE},
 {"property_id": "C07", "technique": "static: who-may-write / typestate of back-references (weak vs strong), must-reach graph cuts on clear_graph and backward",
  "text": "Decides: everything added to Tensor._ops is a weakref and _view_children is always a WeakRefIterable; no op holds its own output strongly; state handed to the internal UnView/ApplyMask ops captures placeholders only; finalizer arguments are weak containers; "
          "clear_graph empties both sets on every call, drops the creator before recursing over all of its variables; backward reaches clear_graph on every normal exit; gradients are nulled at the "
          "three documented sites." + NOT_DECIDED + "actual CPython refcount behaviour; bit-identity of repeated steps.", "note": NOTE},
 {"property_id": "C08", "technique": "static: CFG path analysis with exceptional edges (lock->release on all paths), who-may-write over owner closures, scenario evaluation of the lock counter typestate",
  "text": "Structural necessary conditions, exhaustive over the paths of Tensor._op under every TRACK_GRAPH x MEM_GUARD specialisation and over all lock sites: "
          "every lock taken is released or handed to the op's finalizer on all normal and exceptional exits; every locked array is registered; bases are yielded "
          "before views; the counter is only incremented by the lock function and the flag restored only by the last holder; the waiting-view set is wiped only when the tracker is empty; only an op's own output is force-locked; the release routine is called directly only on the acquiring function's error path and never twice on a path." + NOT_DECIDED + "interleavings of "
          "finalizers and reference drops (schedule quantifier).", "note": NOTE},
 {"property_id": "C09", "technique": "static: guard dominance + monotonicity of the staleness marker via who-may-write enumeration",
  "text": "Decides: the InvalidBackprop guard dominates every backward_var call; clear_graph empties the consumer set of every upstream tensor; the marker read by the guard (Tensor._ops) "
          "must only be refilled on fresh tensors (fails today: known finding D4)." + NOT_DECIDED + "exact-gradient-or-raise over all histories.", "note": NOTE},
 {"property_id": "C10", "technique": "static: mode-specialised CFG reachability of the dtype gate, dominance of constant tests over gradient stores, forwarding of constant= at all wrapper sites",
  "text": "Decides: Tensor.__init__ raises before storing the flag for non-real dtypes / constant=False on integers; default is not-is_float; explicit flag kept; every value store to a tensor's "
          "_grad lies on the non-constant edge of a .constant test (Tensor.copy fails: known finding D9); _op only infers constant when it is None; backward on a constant only clears; every wrapper "
          "forwards constant=; in-place results take the memory owner's flag; a re-wrapped operand keeps its own flag." + NOT_DECIDED + "equality of gradients with the constants-replaced-by-arrays program.", "note": NOTE},
 {"property_id": "C13", "technique": "static: CFG path analysis with exceptional edges (no irreversible write before the last may-raise call), handler/rollback dominance",
  "text": "Structural necessary conditions: in Tensor._op no input-tensor state is written before a call that may still raise; the forward call and the in-place "
          "kernel are guarded by handlers that release/restore and re-raise; public tensors are mirrored only after the kernel succeeded; the shape setter validates "
          "before it duplicates the graph." + NOT_DECIDED + "value-level equivalence with the program minus the failing statement.", "note": NOTE},
 {"property_id": "C14", "technique": "static: closed who-may-write set for Tensor._grad, dominance of dtype/shape checks over each store, shape-provenance lattice",
  "text": "Decides: Tensor._grad is written only by the nine listed functions; the seed has the tensor's dtype and is stored only after the shape test is false, a mismatch raises before "
          "any store; every value store discharges a dtype obligation and a shape obligation; a provable shape mismatch is a violation (GRUnit: known finding D2)." + NOT_DECIDED +
          "the three seeding identities as value equalities.", "note": NOTE},
 {"property_id": "C11", "technique": "static: agreement checks between sibling entry points (operator table, method/function pairs, registry vs kernel), set-membership and dispatch-order dominance",
  "text": "Decides: each operator dunder routes to the Operation whose numpy_ufunc is the language-defined kernel with the right operand order (in-place forms return self); the 16 Tensor-method/function "
          "sibling pairs hand the same Operation the same argument structure and defaults; every @ufunc_creator/@implements_numpy_override registration overrides the NumPy function its op actually executes; "
          "the rounding/modulo family is const-only, in no other table, and goes through the raising caster; dispatch consults the differentiable registry first and forwards all arguments." + NOT_DECIDED +
          "equality of values/gradients across spellings.", "note": NOTE},
 {"property_id": "C15", "technique": "static: symbolic depth arithmetic of the enter/exit bracket, with-only typestate, who-may-write of the switches, reachability under TRACK_GRAPH=False specialisation",
  "text": "Decides: ContextTracker saves before it sets, restores from the key it saved under (term over _depth), pops, never returns truthy from __exit__, restores on every path; scopes are only entered by "
          "with-statements; the two switches are written only by their setters / turn_memory_guarding_*; with tracking off _op writes no input state, locks nothing and builds a creator-less result, "
          "_in_place_op writes into self.data, backward returns at once; conditions read the switches live (two frozen, verified-benign stale imports)." + NOT_DECIDED + "value preservation inside scopes; threads.", "note": NOTE},
 {"property_id": "C17", "technique": "static: parameter-forwarding agreement with NumPy namesakes, specialised-CFG reachability of the pass-through return, default tables",
  "text": "Decides: tensor()/Tensor() default to copy=True and forward every option; astensor routes copy=False; the pass-through return of tensor() is dead unless copy is False, the input is a Tensor and "
          "constant/dtype match; each of the 15 creation routines delegates to its NumPy namesake, forwards every parameter, adopts the array without a copy and has the documented defaults; copy()/astype() "
          "return detached tensors; the dtype gate of Tensor.__init__." + NOT_DECIDED + "actual aliasing outcomes per dtype combination.", "note": NOTE},
 {"property_id": "C18", "technique": "static: writer/reader key-set agreement, purity (effect) check of save, dominance in load",
  "text": "Narrow claim. Decides: the keyword set save passes to np.savez equals the key set load reads; data is written on every path and grad exactly when tensor.grad is not None; file objects/paths pass through "
          "unmodified; save only reads .data/.grad, stores nothing and calls no tensor method; load rebuilds from loaded['data'] without dtype and restores through backward(loaded['grad']) exactly when the key "
          "exists." + NOT_DECIDED + "equality of loaded values; NumPy's .npz fidelity.", "note": NOTE},
 {"property_id": "C03", "technique": "static: option-forwarding dataflow to the NumPy kernels (sentinel-guard recognition), dead-parameter lint over all forward passes and wrappers, flow-sensitive value slice w.r.t. TRACK_GRAPH",
  "text": "Decides: in UnaryUfunc/BinaryUfunc/Sequential.__call__ the operands reach the kernel in order and every option reaches it under its own name unless it holds its not-given sentinel; no forward pass or "
          "wrapper has a dead parameter and one-line wrappers forward every parameter to like-named keys; the value returned by an op's forward pass has no data/control dependence on TRACK_GRAPH (backward "
          "slice over reaching definitions and in-place updates); kernel options hard-wired by an op (order=) equal NumPy's defaults; Python scalars must reach the kernel unconverted (fails today: known finding D6)." + NOT_DECIDED + "equality of values/dtypes in general "
          "(NumPy's run-time semantics); 0-d/empty/non-contiguous corner cases.", "note": NOTE},
 {"property_id": "C16", "technique": "static: keyword/typestate check of as_strided, ancestor/dominance ordering of validation vs striding, sympy term comparison of caller/callee extent polynomials",
  "text": "Narrow claim. Decides: the window view is created read-only; every raising guard of sliding_window_view and the C-contiguity normalisation precede the striding; the layers' "
          "output-size checks dominate window creation; the dilated extent a layer accepts equals the one sliding_window_view enforces (ConvND fails: known finding D7) and the guard is at least as strict as "
          "the placement formula (no out-of-bounds placement)." + NOT_DECIDED + "everything numeric: the window equation, conv/pool/batchnorm/gru/softmax/loss formulas.", "note": NOTE},
 {"property_id": "C04", "technique": "static: ownership/alias abstract interpretation of every op's forward pass vs its can_return_view flag; sibling agreement of in-place spellings; def-use shape of base assignment and mirroring",
  "text": "Decides: an op whose forward result may be, or may view, an operand's array declares can_return_view (so Tensor._op runs view detection); in-place dunders use the same Operation as the "
          "out-of-place ones, target self and return self; public tensors change only through mirror_tensor (identity-preserving shallow copy), views are replayed on their updated parents, parents first; "
          "the base handed to a view is None or the memory owner, a parent whose graph was cleared counts as owner, the three sharing configurations are recognised, views are registered and record replay arguments; the shape setter replays a view on the un-reshape exactly when its parent is the re-shaped tensor." + NOT_DECIDED +
          "values, shares_memory equivalence and .base correctness across arbitrary histories (run-time graph surgery).", "note": NOTE},
 {"property_id": "C05", "technique": "static: def-use chain of the in-place kernel's out= target to a private copy, must-call / dominance of placeholder creation and re-routing, condition-exactness of the glue ops, routing-by-selection lint on the glue ops, operand-reference discipline of backward code",
  "text": "Narrow claim. Decides: with tracking on the in-place kernel writes into (a placeholder view replay of) graph.base.tensor.copy() made after the graph was duplicated and preserving its memory layout, its operands are placeholders; "
          "placeholders mirror the originals and take over exactly their consumers, for the base and every view child; duplication dominates the kernel which dominates every mirror, failures restore the "
          "graph; ApplyMask/UnView are created under exactly their conditions with the placeholder operands; where-masks are applied by broadcasting arithmetic, never as an index." + NOT_DECIDED + "the gradient values themselves (overwritten-region zeroing, "
          "last-write resolution for repeated indices, mask routing): value-level, run-time.", "note": NOTE},
 {"property_id": "C12", "technique": "static: ownership/alias abstract interpretation (origins P/IN/S/N x SAME/VIEW, guard refinement, interprocedural mutation summaries) over every op method, helper and wrapper",
  "text": "Decides: every write site (item/augmented assignment, out=, ufunc.at, copyto..., in-place methods, calls that mutate a parameter) in every op forward/backward, their helpers and the public "
          "wrappers targets function-allocated or op-owned memory, never something that may be or view caller-owned memory (one reasoned exemption); Tensor.backward does not write its seed; the copy rule "
          "of Operation.backward provably yields an engine-owned array for the worst case it must handle; no backward_var returns an input's array itself; cached state is returned only by single-variable "
          "ops; the seed store fails (known finding D8)." + NOT_DECIDED + "np.shares_memory of concrete arrays; value checksums.", "note": NOTE},
 {"property_id": "C02", "technique": "static: symbolic term evaluation (sympy) of closed-form forward/backward bodies and comparison with the derivative of the declared kernel; linearity-in-grad abstract domain; "
                                       "index-specialised CFG exhaustiveness; definite-assignment of backward state; extended-sign (0/+/-/inf/nan) abstract interpretation of the log-domain family; all on the helper-inlined normal form",
  "text": "Decides, for the 66 op/operand pairs whose forward and backward bodies are closed-form (all arithmetic, exp/log, trigonometric, hyperbolic ufuncs, maximum/minimum, arctan2, where, and the elementwise "
          "activations): the term of backward_var|index=k equals g * d(forward term)/dx_k at exact sample points of the kernel's domain (49 additionally proved by simplification), and the documented conventions at "
          "non-differentiable points (|x| at 0, arcsin/arccos at +-1, max/min ties) hold; for every backward_var: the result is homogeneous-linear in grad (abstract domain), a value is returned for every index < arity, "
          "every attribute it reads is definitely assigned by the forward pass / constructor, and `~mask` acts only on proven-boolean values. The term domain is symbolic constant propagation over loop-free bodies (no path search, no solver)." + NOT_DECIDED +
          "VJPs of reductions, cumulative ops, matmul/einsum/norm, get/set-item, joins/tiling, conv/pool/batchnorm/GRU/losses (array-shaped index arithmetic - no closed term); option x shape interactions.", "note": NOTE},
]
_BUILT = {c["property_id"] for c in CHECKS}
NOT_APPLICABLE = [
 {"property_id": f"C{i:02d}", "reason": "structural clauses designed (DESIGN.md §6) but the rules are not implemented yet in this commit"}
 for i in range(1, 19) if f"C{i:02d}" not in _BUILT
]

# Clauses added with the second round of seeded changes and the defects D11-D17 (inserted before the "Not decided" part)
ADDENDA = {
 "C01": "Also: hand-written accumulation helpers (gru._backprop) accumulate and never overwrite; ops overriding backward() reach the generic loop on every path or serve every variable.",
 "C02": "Also (R02.7): for the log-domain family (logaddexp, logaddexp2, softmax, logsoftmax, sigmoid, softmax-crossentropy, _softmax, logsumexp, gru.sig) an extended-sign abstract interpretation (classes 0/+/-/+inf/-inf/nan plus the tags MAX, GEMAX, NONPOS0, UNIT1, GE1 of the max-shift idiom) shows that finite operands and gradients cannot reach inf/inf, 0/0, 0*inf or inf-inf: a backward rewritten as exp(a)/(exp(a)+exp(b)) or exp(x)/sum(exp(x)) is reported with the sub-expression that first produces nan. Idealisation: only exponentials over/underflow. Round 3: flatten/reshape calls in op modules use C element order (R02.8); no store through a reshape/ravel/flatten temporary unless its receiver is provably a fresh C-ordered array (R02.9, with an anchor-free positive control); a parameter whose conversion is recorded for backward reaches the forward kernel through that recorded value (R02.10; D32 Where, repaired).",
 "C03": "Also: Tensor.__array_ufunc__ evaluates forwarded ufuncs through getattr(ufunc, method) (outer/reduce/accumulate honoured); a parameter that a function inspects with isinstance is still read when it is of none of the tested types (CFG specialised with every such test false): no legal argument is silently ignored; a where= mask given as a Tensor is unwrapped (D19, repaired). Round 3: `out` is consulted on every path of every public function that accepts and uses it (R03.9; D30 clip, repaired).",
 "C04": "Also: a wholesale rebuild of a _view_children list maps the same tensor's own children (D15, repaired). Round 3: a member swap in a _view_children list addresses the swapped tensor's direct parent (the operand of its creator), not its base; ops that can return views hand their operands' arrays to the NumPy kernel unconverted (R04.7).",
 "C05": "Also: building the placeholder graph leaves the originals untouched; dtype-kind tests (integer-array index detection of SetItem/GetItem) name abstract scalar classes, never one width (D16, repaired); index classifiers decide from the converted element only, never from its Python type; the routing ops (SetItem, UnView, ApplyMask) and the ufunc where-mask in Operation.backward drop excluded entries by assignment/selection, never by scaling with a 0/1 mask -- 0 * nan = nan leaked non-finite gradients into overwritten / masked-out contents (D28, three sites repaired). Round 3: ops never freeze id(<operand>) in their forward pass (R05.11); backward code dereferences operand tensors through self.variables only -- references kept on the side are not re-routed by in-place updates (R05.12; D31 BatchNorm and GRU, repaired).",
 "C06": "Also: any copy made of the first contribution keeps the producer's layout (np.copy / order='K'). D5 is repaired (3723d34): R06.4 now proves, path-sensitively, that the stored first contribution is either a buffer allocated *_like(var.data) and filled from the contribution, or reaches the store only over the equal-strides edge of the test against var.data.strides through layout-preserving maps.",
 "C07": "Also: before a placeholder graph is built, in every function that builds one (_in_place_op and the .shape setter), the gradient of the target and of the base that owns the memory is nulled (D13/D14, repaired); a stale base is dropped for view and non-view ops alike; the public null_grad() touches view information only for internal callers.",
 "C09": "Also: an op that overrides backward() still passes the guard (super().backward on every path, or its own test); Tensor.backward clears the graph only on its normal continuation (never in finally/except), so a failed back-propagation fails again.",
 "C10": "Also: value stores to the cached view gradient (_view_grad) carry the same obligation (D17, repaired); no function accepts `constant` without using it. Round 3: `constant` is consulted on every path of every public function that accepts and uses it (R10.8; D30 clip, repaired); no operand parameter is re-wrapped as a tensor without an explicit constant= (R10.9, positive control).",
 "C11": "Also: np.sign belongs to the refusing family; forwarded ufuncs are evaluated as getattr(ufunc, method). Round 3: Tensor methods/properties that route to _op keep no state on self and return this call's result (R11.7); the key set of an incrementally built op_kwargs dict is computed flow-sensitively at each call site (R11.6).",
 "C14": "Also: the caller's seed enters only through asarray(...); a rejected seed does not clear the graph; array-ness dataflow: between np.asarray and the store no step (array arithmetic, ufunc call, reduction, unknown call) can turn a 0-d array back into a NumPy scalar (D12, repaired). Round 3: a possibly-None gradient read is converted (np.array / np.copy / astype) only under a not-None test of that read (R14.6).",
 "C15": "Also: the untracked in-place path forwards op, operands, op_args, op_kwargs and constant; module initialisation leaves both switches literal booleans on every path.",
 "C16": "Also: in nnet code a parameter inspected with isinstance is still read when it is of none of the tested types (an ndarray seed state where a Tensor is tested); strides are derived from shape x itemsize only, never from arr.strides (D11, repaired); window_shape/step/dilation entries are tested strictly positive before use; running max/min accumulators in nnet code start from the identity; no forward pass narrows an operand to a sibling operand's dtype. Round 3: the placement check dominates every value the forward pass of ConvND / MaxPoolND returns, not only the window creation (R16.2).",
 "C17": "Also: creation routines hand their parameters to NumPy as the caller gave them (no rebinding other than unwrapping a Tensor). Round 3: Tensor.__array__ forwards dtype and copy to NumPy unchanged (the copy NumPy requests on behalf of Tensor(x)/tensor(x) cannot be skipped).",
 "C08": "Also: Round 3: the per-array release is private to the lock module (R08.9); the input locks cover every operand, unfiltered (R08.2); NumPy conversions of caller-supplied raw values are may-raise inside the locked region (R08.1); the last-holder unlock is decided by evaluating the release routine for a lock count of 0, 1 and 2 (R08.5); who-may-write clauses accept private helpers that serve only their owner (owner closure).",
 "C12": "Also: Round 3: every value store to a tensor's gradient slot anywhere in the repository is None or freshly allocated (D29, repaired); the generic backward loop's writes are judged against the worst-case backward_var result (the incoming grad itself).",
 "C13": "Also: Round 3: every iteration of the rollback loop re-routes its node (no guard / continue ahead of reroute_ops_through).",
}
for _c in CHECKS:
    _a = ADDENDA.get(_c["property_id"])
    if _a and NOT_DECIDED in _c["text"]:
        _c["text"] = _c["text"].replace(NOT_DECIDED, " " + _a + NOT_DECIDED, 1)
    elif _a:
        _c["text"] += " " + _a
