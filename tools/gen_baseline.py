#!/usr/bin/env python3
"""Write sa/baseline_api.json: the reference snapshot of private names, signatures and fingerprints that sa/drift.py uses to *recognise* benign
renames / new neutral parameters.  Run on the pinned tree (and again after every `fix:` commit to /repo):  python3-vt tools/gen_baseline.py"""
import ast
import json
import os
import sys
HERE = os.path.dirname(os.path.dirname(os.path.abspath(__file__)))
sys.path.insert(0, HERE)
from sa.model import REPO, PKG, _normalise  # noqa: E402
from sa.drift import TABLE, snapshot  # noqa: E402

trees = {}
root = os.path.join(REPO, "src", PKG)
for dp, dn, fn in sorted(os.walk(root)):
    for f in sorted(fn):
        if f.endswith(".py"):
            full = os.path.join(dp, f)
            rel = os.path.relpath(full, REPO)
            mod = rel[len("src/"):-3].replace(os.sep, ".")
            if mod.endswith(".__init__"):
                mod = mod[: -len(".__init__")]
            trees[mod] = _normalise(ast.parse(open(full, encoding="utf-8").read()))
snap = snapshot(trees)
snap["repo_head"] = os.popen(f"git -C {REPO} rev-parse --short HEAD").read().strip()
with open(TABLE, "w") as fh:
    json.dump(snap, fh, indent=0, sort_keys=True)
print("modules", len(snap["modules"]), "private identifiers", len(snap["identifiers"]), "->", TABLE, os.path.getsize(TABLE), "bytes")
