#!/usr/bin/env python3
"""Judge one patch in memory against selected properties (default: all) without touching /repo:
usage: try_overlay.py <patch.diff> [C01 C02 ...] [--show qualname]   prints the unlisted violations / analysis errors each check would report"""
import ast
import os
import sys
sys.path.insert(0, os.path.dirname(os.path.abspath(__file__)))
sys.path.insert(0, os.path.dirname(os.path.dirname(os.path.abspath(__file__))))
import matrix_par  # noqa: E402


def main():
    args = sys.argv[1:]
    show = None
    if "--show" in args:
        i = args.index("--show")
        show = args[i + 1]
        args = args[:i] + args[i + 2:]
    patch = args[0]
    props = args[1:] or matrix_par.PROPS
    ov = matrix_par.overlay_of(patch)
    if isinstance(ov, str):
        print(ov)
        return 2
    from sa import check
    from sa.report import verdict
    for p in props:
        run = check.run_property(p, "quick", overlay=ov)
        v, errs = verdict(run)
        print(f"[{p}] violations={len(v)} errors={len(errs)}")
        for k, f in v.items():
            print("   ", k[0], k[1], "::", k[2][:110], "--", str(f)[:220])
        for e in errs:
            print("    ERR", e[:300])
        if show:
            f = run.project.functions.get(show)
            print(ast.unparse(f.node) if f else f"{show} not found")
    return 0


if __name__ == "__main__":
    sys.exit(main())
