#!/usr/bin/env python3
"""Mechanical behaviour-preserving transformations of the WHOLE library, judged in memory against all 18 checks.

The hand-written / sub-agent-written benign fixtures (benign/*) each touch one place.  This tool is the systematic complement: it rewrites every
function of /repo/src/mygrad with one semantics-preserving source transformation, hands the result to the analyser as an overlay and reports every
check that says anything the unchanged tree does not (a new violation or an ANALYSIS-ERROR).  Any report is a brittleness of a rule.

transformations
  unparse     ast.unparse round trip of every module (comments, layout, parenthesisation, string quoting, line numbers all change)
  locals      every function-local variable (not parameters, globals, nonlocals, names shared with nested scopes that rebind them) gets a new name
  negif       every `if c: A else: B` with a non-empty else (no elif chain on the else side) becomes `if not c: B else: A`
  retvar      every `return <expr>` of a non-trivial expression in a function becomes `_ret = <expr>; return _ret`
  isnot       `not (x is y)` <-> `x is not y`, `not (x is not y)` <-> `x is y`, `not x in y` -> `x not in y`
  kwswap      keyword arguments of every call are re-ordered (reversed); positional order untouched; calls with ** are left alone
  nop         a no-op statement (`_dbg_marker = None`) is inserted at the top of every function body (after the docstring)
  annot       every simple local assignment `x = e` at function top level becomes `x: "object" = e`
  docstrip    all docstrings removed

usage: python3-vt tools/fuzz_benign.py [transformation ...] [--file substr] [--props C01,C02]
"""
import ast
import builtins
import copy
import os
import sys
from concurrent.futures import ProcessPoolExecutor

HERE = os.path.dirname(os.path.dirname(os.path.abspath(__file__)))
sys.path.insert(0, HERE)
REPO = os.environ.get("SA_REPO", "/repo")
PROPS = [f"C{i:02d}" for i in range(1, 19)]


def _files():
    out = []
    root = os.path.join(REPO, "src", "mygrad")
    for dp, _, fns in os.walk(root):
        for fn in fns:
            if fn.endswith(".py"):
                full = os.path.join(dp, fn)
                out.append(os.path.relpath(full, REPO))
    return sorted(out)


# ------------------------------------------------------------------ transformations (ast -> ast)
def _functions(tree):
    for n in ast.walk(tree):
        if isinstance(n, (ast.FunctionDef, ast.AsyncFunctionDef)):
            yield n


def _params(fn):
    a = fn.args
    ps = [x.arg for x in a.posonlyargs + a.args + a.kwonlyargs]
    if a.vararg:
        ps.append(a.vararg.arg)
    if a.kwarg:
        ps.append(a.kwarg.arg)
    return set(ps)


class _Renamer(ast.NodeTransformer):
    def __init__(self, mapping):
        self.m = mapping

    def visit_Name(self, node):
        if node.id in self.m:
            node.id = self.m[node.id]
        return node

    def visit_ExceptHandler(self, node):
        if node.name in self.m:
            node.name = self.m[node.name]
        self.generic_visit(node)
        return node


def t_locals(tree):
    # only outermost functions (module level or methods of module-level classes); nested scopes are renamed together with their parent
    outer = []
    for n in tree.body:
        if isinstance(n, (ast.FunctionDef, ast.AsyncFunctionDef)):
            outer.append(n)
        elif isinstance(n, ast.ClassDef):
            for m in n.body:
                if isinstance(m, (ast.FunctionDef, ast.AsyncFunctionDef)):
                    outer.append(m)
    module_names = set()
    for n in ast.walk(tree):
        if isinstance(n, (ast.Import, ast.ImportFrom)):
            for a in n.names:
                module_names.add((a.asname or a.name).split(".")[0])
    for fn in outer:
        stored, banned = set(), set(_params(fn))
        for n in ast.walk(fn):
            if isinstance(n, ast.Name) and isinstance(n.ctx, (ast.Store, ast.Del)):
                stored.add(n.id)
            elif isinstance(n, ast.ExceptHandler) and n.name:
                stored.add(n.name)
            elif isinstance(n, (ast.Global, ast.Nonlocal)):
                banned.update(n.names)
            elif isinstance(n, (ast.FunctionDef, ast.AsyncFunctionDef, ast.Lambda)) and n is not fn:
                banned.update(_params(n) if not isinstance(n, ast.Lambda) else {x.arg for x in n.args.args + n.args.kwonlyargs + n.args.posonlyargs})
                if not isinstance(n, ast.Lambda):
                    banned.add(n.name)
            elif isinstance(n, ast.ClassDef):
                banned.add(n.name)
                for b in ast.walk(n):
                    if isinstance(b, ast.Name):
                        banned.add(b.id)
            elif isinstance(n, (ast.Import, ast.ImportFrom)):
                for a in n.names:
                    banned.add((a.asname or a.name).split(".")[0])
        names = {s for s in stored - banned if not s.startswith("__") and s not in dir(builtins) and s != "_"}
        mapping = {s: (s + "_loc" if not s.endswith("_") else s + "loc") for s in names}
        # a keyword argument name is not a Name node, so call keywords are untouched
        _Renamer(mapping).visit(fn)
    return tree


def t_negif(tree):
    class T(ast.NodeTransformer):
        def visit_If(self, node):
            self.generic_visit(node)
            if node.orelse and not (len(node.orelse) == 1 and isinstance(node.orelse[0], ast.If)):
                t = node.test
                if isinstance(t, ast.UnaryOp) and isinstance(t.op, ast.Not):
                    nt = t.operand
                else:
                    nt = ast.UnaryOp(op=ast.Not(), operand=t)
                node.test, node.body, node.orelse = nt, node.orelse, node.body
            return node
    return T().visit(tree)


def t_retvar(tree):
    class T(ast.NodeTransformer):
        def _block(self, stmts):
            out = []
            for s in stmts:
                s = self.visit(s)
                if isinstance(s, ast.Return) and s.value is not None and not isinstance(s.value, (ast.Name, ast.Constant)):
                    out.append(ast.Assign(targets=[ast.Name(id="_ret", ctx=ast.Store())], value=s.value, lineno=s.lineno))
                    out.append(ast.Return(value=ast.Name(id="_ret", ctx=ast.Load())))
                else:
                    out.append(s)
            return out

        def generic_visit(self, node):
            for f in ("body", "orelse", "finalbody"):
                v = getattr(node, f, None)
                if isinstance(v, list) and v and isinstance(v[0], ast.stmt):
                    setattr(node, f, self._block(v))
            if isinstance(node, ast.Try):
                for h in node.handlers:
                    h.body = self._block(h.body)
            return node

        def visit_Lambda(self, node):
            return node
    # generators: `return x` inside generator is fine too
    return T().visit(tree)


def t_isnot(tree):
    class T(ast.NodeTransformer):
        def visit_UnaryOp(self, node):
            self.generic_visit(node)
            if isinstance(node.op, ast.Not) and isinstance(node.operand, ast.Compare) and len(node.operand.ops) == 1:
                op = node.operand.ops[0]
                flip = {ast.Is: ast.IsNot, ast.IsNot: ast.Is, ast.In: ast.NotIn, ast.NotIn: ast.In}
                if type(op) in flip:
                    node.operand.ops = [flip[type(op)]()]
                    return node.operand
            return node

        def visit_Compare(self, node):
            self.generic_visit(node)
            if len(node.ops) == 1 and isinstance(node.ops[0], (ast.IsNot, ast.NotIn)) and not getattr(node, "_made", False):
                flip = {ast.IsNot: ast.Is, ast.NotIn: ast.In}
                inner = ast.Compare(left=node.left, ops=[flip[type(node.ops[0])]()], comparators=node.comparators)
                inner._made = True
                return ast.UnaryOp(op=ast.Not(), operand=inner)
            return node
    # apply only the second direction (x is not y -> not x is y) to half, by parity of line number, to exercise both spellings
    class Half(T):
        def visit_Compare(self, node):
            if getattr(node, "lineno", 0) % 2:
                return T.visit_Compare(self, node)
            self.generic_visit(node)
            return node
    return Half().visit(tree)


def t_kwswap(tree):
    for n in ast.walk(tree):
        if isinstance(n, ast.Call) and len(n.keywords) > 1 and all(k.arg is not None for k in n.keywords):
            # argument expressions in this code base are side-effect free (names, attributes, literals, pure calls)
            n.keywords = list(reversed(n.keywords))
    return tree


def t_nop(tree):
    for fn in _functions(tree):
        i = 1 if (fn.body and isinstance(fn.body[0], ast.Expr) and isinstance(fn.body[0].value, ast.Constant) and isinstance(fn.body[0].value.value, str)) else 0
        # generators / njit functions: an extra local store is harmless
        if any(isinstance(d, ast.Name) and d.id in ("njit", "vectorize") or isinstance(d, ast.Call) and isinstance(d.func, ast.Name) and d.func.id in ("njit", "vectorize") for d in fn.decorator_list):
            continue
        fn.body.insert(i, ast.Assign(targets=[ast.Name(id="_dbg_marker", ctx=ast.Store())], value=ast.Constant(value=None), lineno=fn.lineno))
    return tree


def t_annot(tree):
    for fn in _functions(tree):
        glob = set()
        for n in ast.walk(fn):
            if isinstance(n, (ast.Global, ast.Nonlocal)):
                glob.update(n.names)
        seen = set()
        new = []
        for s in fn.body:
            if isinstance(s, ast.Assign) and len(s.targets) == 1 and isinstance(s.targets[0], ast.Name) and s.targets[0].id not in glob \
                    and s.targets[0].id not in seen:
                seen.add(s.targets[0].id)
                new.append(ast.AnnAssign(target=s.targets[0], annotation=ast.Constant(value="object"), value=s.value, simple=1))
            else:
                new.append(s)
        fn.body = new
    return tree


def t_docstrip(tree):
    for n in ast.walk(tree):
        if isinstance(n, (ast.FunctionDef, ast.AsyncFunctionDef, ast.ClassDef, ast.Module)):
            if n.body and isinstance(n.body[0], ast.Expr) and isinstance(n.body[0].value, ast.Constant) and isinstance(n.body[0].value.value, str):
                n.body = n.body[1:] or [ast.Pass()]
    return tree


def t_splitand(tree):
    """`if a and b: X` (no else) -> `if a: if b: X`"""
    class T(ast.NodeTransformer):
        def visit_If(self, node):
            self.generic_visit(node)
            if not node.orelse and isinstance(node.test, ast.BoolOp) and isinstance(node.test.op, ast.And):
                vals = node.test.values
                inner = ast.If(test=vals[-1] if len(vals) == 2 else ast.BoolOp(op=ast.And(), values=vals[1:]), body=node.body, orelse=[])
                return ast.If(test=vals[0], body=[inner], orelse=[])
            return node
    return T().visit(tree)


def t_ternary2if(tree):
    """`x = a if c else b` (statement level, plain name target) -> if c: x = a / else: x = b"""
    class T(ast.NodeTransformer):
        def visit_Assign(self, node):
            if len(node.targets) == 1 and isinstance(node.targets[0], ast.Name) and isinstance(node.value, ast.IfExp):
                v = node.value
                mk = lambda e: ast.Assign(targets=[ast.Name(id=node.targets[0].id, ctx=ast.Store())], value=e, lineno=node.lineno)
                return ast.If(test=v.test, body=[mk(v.body)], orelse=[mk(v.orelse)])
            return node
    return T().visit(tree)


def _simple(e):
    return isinstance(e, (ast.Name, ast.Constant)) or (isinstance(e, ast.Attribute) and _simple(e.value)) or \
        (isinstance(e, ast.Starred) and _simple(e.value))


def t_explain(tree):
    """introduce an explaining variable for the first call-valued argument of a statement-level call (all earlier arguments are plain names /
    attributes / constants, so the evaluation order is unchanged):  `y = f(a, g(x))` -> `_arg = g(x); y = f(a, _arg)`"""
    class T(ast.NodeTransformer):
        def _block(self, stmts):
            out = []
            for s in stmts:
                s = self.visit(s)
                call = None
                if isinstance(s, (ast.Assign, ast.Return, ast.Expr)) and isinstance(getattr(s, "value", None), ast.Call):
                    call = s.value
                if call is not None and _simple(call.func) if call is not None else False:
                    for i, a in enumerate(call.args):
                        if isinstance(a, ast.Call) and not any(isinstance(x, (ast.Lambda, ast.GeneratorExp, ast.Await, ast.Yield, ast.NamedExpr)) for x in ast.walk(a)):
                            if all(_simple(b) for b in call.args[:i]):
                                out.append(ast.Assign(targets=[ast.Name(id="_arg", ctx=ast.Store())], value=a, lineno=s.lineno))
                                call.args[i] = ast.Name(id="_arg", ctx=ast.Load())
                            break
                        if not _simple(a):
                            break
                out.append(s)
            return out

        def generic_visit(self, node):
            for f in ("body", "orelse", "finalbody"):
                v = getattr(node, f, None)
                if isinstance(v, list) and v and isinstance(v[0], ast.stmt):
                    setattr(node, f, self._block(v))
            if isinstance(node, ast.Try):
                for h in node.handlers:
                    h.body = self._block(h.body)
            return node

        def visit_ClassDef(self, node):
            # class bodies: only descend into methods
            node.body = [self.visit(b) if isinstance(b, (ast.FunctionDef, ast.AsyncFunctionDef)) else b for b in node.body]
            return node

        def visit_Module(self, node):
            node.body = [self.visit(b) if isinstance(b, (ast.FunctionDef, ast.AsyncFunctionDef, ast.ClassDef)) else b for b in node.body]
            return node

        def visit_FunctionDef(self, node):
            if any("njit" in ast.unparse(d) or "vectorize" in ast.unparse(d) for d in node.decorator_list):
                return node
            return self.generic_visit(node)
    return T().visit(tree)


def t_inlinetmp(tree):
    """`t = E; <stmt using t exactly once>` (adjacent; t a plain local assigned once and read once in the whole function; the using statement is a
    simple statement that evaluates nothing with side effects before reaching t) -> the use replaced by E"""
    for fn in _functions(tree):
        loads, stores = {}, {}
        nested = set()
        for n in ast.walk(fn):
            if isinstance(n, ast.Name):
                d = loads if isinstance(n.ctx, ast.Load) else stores
                d[n.id] = d.get(n.id, 0) + 1
            if n is not fn and isinstance(n, (ast.FunctionDef, ast.Lambda, ast.GeneratorExp, ast.ListComp, ast.SetComp, ast.DictComp, ast.ClassDef)):
                for m in ast.walk(n):
                    if isinstance(m, ast.Name):
                        nested.add(m.id)
        cands = {k for k in stores if stores[k] == 1 and loads.get(k, 0) == 1 and k not in nested}

        def block(stmts):
            out = []
            for s in stmts:
                for f in ("body", "orelse", "finalbody"):
                    v = getattr(s, f, None)
                    if isinstance(v, list) and v and isinstance(v[0], ast.stmt) and not isinstance(s, (ast.FunctionDef, ast.ClassDef)):
                        setattr(s, f, block(v))
                if isinstance(s, ast.Try):
                    for h in s.handlers:
                        h.body = block(h.body)
                prev = out[-1] if out else None
                if (prev is not None and isinstance(prev, ast.Assign) and len(prev.targets) == 1 and isinstance(prev.targets[0], ast.Name)
                        and prev.targets[0].id in cands and isinstance(s, (ast.Assign, ast.Return, ast.Expr)) and s.value is not None):
                    nm = prev.targets[0].id
                    # the use must be the first thing evaluated apart from plain names: require it to be a direct argument / operand of the
                    # statement's top-level expression with only simple expressions before it
                    top = s.value
                    done = False
                    if isinstance(top, ast.Name) and top.id == nm:
                        s.value = prev.value
                        done = True
                    elif isinstance(top, ast.Call) and _simple(top.func):
                        for i, a in enumerate(top.args):
                            if isinstance(a, ast.Name) and a.id == nm:
                                top.args[i] = prev.value
                                done = True
                                break
                            if not _simple(a):
                                break
                    elif isinstance(top, ast.Attribute) and isinstance(top.value, ast.Name) and top.value.id == nm:
                        top.value = prev.value
                        done = True
                    if done:
                        out.pop()
                out.append(s)
            return out
        fn.body = block(fn.body)
    return tree


def t_methodorder(tree):
    """reverse the order of the methods of every class and of the module-level functions (same-named definitions, e.g. property/setter pairs,
    keep their relative order; everything that is not a def stays where it is)"""
    def reorder(body):
        idx = [i for i, n in enumerate(body) if isinstance(n, (ast.FunctionDef, ast.AsyncFunctionDef))]
        fns = [body[i] for i in idx]
        names = [f.name for f in fns]
        if len(set(names)) != len(names):
            return body
        # a def that is used by a later decorator / default in the same body must stay before it: only reorder defs with plain decorators
        if any(any(isinstance(x, ast.Name) and x.id in names for d in f.decorator_list + f.args.defaults for x in ast.walk(d)) for f in fns):
            return body
        for i, f in zip(idx, reversed(fns)):
            body[i] = f
        return body
    for n in ast.walk(tree):
        if isinstance(n, ast.ClassDef):
            # class bodies may reference earlier methods in class-level statements (staticmethod(...), aliases): reorder only when no class-level
            # statement mentions a method name
            names = {m.name for m in n.body if isinstance(m, ast.FunctionDef)}
            others = [m for m in n.body if not isinstance(m, ast.FunctionDef)]
            if not any(isinstance(x, ast.Name) and x.id in names for o in others for x in ast.walk(o)):
                n.body = reorder(n.body)
    return tree


def t_assert2if(tree):
    """`assert c, m` -> `if not c: raise AssertionError(m)`"""
    class T(ast.NodeTransformer):
        def visit_Assert(self, node):
            exc = ast.Call(func=ast.Name(id="AssertionError", ctx=ast.Load()), args=[node.msg] if node.msg is not None else [], keywords=[])
            return ast.If(test=ast.UnaryOp(op=ast.Not(), operand=node.test), body=[ast.Raise(exc=exc, cause=None)], orelse=[])
    return T().visit(tree)


def t_msgtext(tree):
    """every string literal inside a `raise` statement / warning call gets a different text"""
    for n in ast.walk(tree):
        if isinstance(n, ast.Raise) and n.exc is not None:
            for c in ast.walk(n.exc):
                if isinstance(c, ast.Constant) and isinstance(c.value, str):
                    c.value = c.value + " (see the documentation)"
    return tree


def t_dict2lit(tree):
    """`dict(a=1, b=x)` -> `{"a": 1, "b": x}`"""
    class T(ast.NodeTransformer):
        def visit_Call(self, node):
            self.generic_visit(node)
            if isinstance(node.func, ast.Name) and node.func.id == "dict" and not node.args and node.keywords and all(k.arg for k in node.keywords):
                return ast.Dict(keys=[ast.Constant(value=k.arg) for k in node.keywords], values=[k.value for k in node.keywords])
            return node
    return T().visit(tree)


def t_lit2dict(tree):
    """`{"a": 1, "b": x}` (identifier keys) -> `dict(a=1, b=x)`"""
    class T(ast.NodeTransformer):
        def visit_Dict(self, node):
            self.generic_visit(node)
            if node.keys and all(isinstance(k, ast.Constant) and isinstance(k.value, str) and k.value.isidentifier() for k in node.keys):
                import keyword
                if not any(keyword.iskeyword(k.value) for k in node.keys):
                    return ast.Call(func=ast.Name(id="dict", ctx=ast.Load()), args=[],
                                    keywords=[ast.keyword(arg=k.value, value=v) for k, v in zip(node.keys, node.values)])
            return node
    return T().visit(tree)


def t_compr2loop(tree):
    """statement-level `x = [E for v in it if c]` / `x = tuple(E for ...)` / `list(...)` with one generator -> explicit loop with append"""
    class T(ast.NodeTransformer):
        def _block(self, stmts):
            out = []
            for s in stmts:
                s = self.visit(s)
                done = False
                if isinstance(s, ast.Assign) and len(s.targets) == 1 and isinstance(s.targets[0], ast.Name):
                    v = s.value
                    wrap = None
                    comp = None
                    if isinstance(v, ast.ListComp):
                        comp = v
                    elif isinstance(v, ast.Call) and isinstance(v.func, ast.Name) and v.func.id in ("tuple", "list") and len(v.args) == 1 and not v.keywords \
                            and isinstance(v.args[0], (ast.GeneratorExp, ast.ListComp)):
                        comp = v.args[0]
                        wrap = v.func.id
                    tgt = s.targets[0].id
                    if comp is not None and len(comp.generators) == 1 and not comp.generators[0].is_async \
                            and tgt not in {x.id for x in ast.walk(comp) if isinstance(x, ast.Name)}:
                        g = comp.generators[0]
                        acc = "_acc_" + tgt
                        body = [ast.Expr(value=ast.Call(func=ast.Attribute(value=ast.Name(id=acc, ctx=ast.Load()), attr="append", ctx=ast.Load()), args=[comp.elt], keywords=[]))]
                        for c in reversed(g.ifs):
                            body = [ast.If(test=c, body=body, orelse=[])]
                        out.append(ast.Assign(targets=[ast.Name(id=acc, ctx=ast.Store())], value=ast.List(elts=[], ctx=ast.Load()), lineno=s.lineno))
                        out.append(ast.For(target=g.target, iter=g.iter, body=body, orelse=[], lineno=s.lineno))
                        fin = ast.Name(id=acc, ctx=ast.Load())
                        if wrap == "tuple":
                            fin = ast.Call(func=ast.Name(id="tuple", ctx=ast.Load()), args=[fin], keywords=[])
                        out.append(ast.Assign(targets=[ast.Name(id=tgt, ctx=ast.Store())], value=fin, lineno=s.lineno))
                        done = True
                if not done:
                    out.append(s)
            return out

        def generic_visit(self, node):
            for f in ("body", "orelse", "finalbody"):
                v = getattr(node, f, None)
                if isinstance(v, list) and v and isinstance(v[0], ast.stmt):
                    setattr(node, f, self._block(v))
            if isinstance(node, ast.Try):
                for h in node.handlers:
                    h.body = self._block(h.body)
            return node

        def visit_ClassDef(self, node):
            node.body = [self.visit(b) if isinstance(b, (ast.FunctionDef, ast.AsyncFunctionDef)) else b for b in node.body]
            return node

        def visit_Module(self, node):
            node.body = [self.visit(b) if isinstance(b, (ast.FunctionDef, ast.AsyncFunctionDef, ast.ClassDef)) else b for b in node.body]
            return node

        def visit_FunctionDef(self, node):
            if any("njit" in ast.unparse(d) or "vectorize" in ast.unparse(d) for d in node.decorator_list):
                return node
            return self.generic_visit(node)
    return T().visit(tree)


def t_attrcache(tree):
    """cache a repeated attribute lookup in a local: `<param>.<attr>` read at least twice, first in a simple top-level statement of the function;
    the attribute is never stored to in the function and the parameter never re-bound -> `_c_<attr> = <param>.<attr>` before that statement"""
    for fn in _functions(tree):
        if any("njit" in ast.unparse(d) or "vectorize" in ast.unparse(d) or "property" in ast.unparse(d) or "setter" in ast.unparse(d) for d in fn.decorator_list):
            continue
        params = _params(fn)
        stored = {n.id for n in ast.walk(fn) if isinstance(n, ast.Name) and isinstance(n.ctx, (ast.Store, ast.Del))}
        attr_stored = {n.attr for n in ast.walk(fn) if isinstance(n, ast.Attribute) and isinstance(n.ctx, (ast.Store, ast.Del))}
        if any(isinstance(n, ast.Call) and (getattr(n.func, "id", None) or getattr(n.func, "attr", "")) in ("mirror_tensor", "setattr") for n in ast.walk(fn)):
            continue
        if any(isinstance(n, (ast.Lambda, ast.FunctionDef)) and n is not fn for n in ast.walk(fn)):
            continue
        counts = {}
        for n in ast.walk(fn):
            if isinstance(n, ast.Attribute) and isinstance(n.ctx, ast.Load) and isinstance(n.value, ast.Name) and n.value.id in params \
                    and n.value.id not in stored and n.attr not in attr_stored and not n.attr.startswith("__"):
                counts[(n.value.id, n.attr)] = counts.get((n.value.id, n.attr), 0) + 1
        for (root, attr), c in sorted(counts.items()):
            if c < 2:
                continue
            first = None
            for i, st in enumerate(fn.body):
                if any(isinstance(n, ast.Attribute) and isinstance(n.value, ast.Name) and n.value.id == root and n.attr == attr for n in ast.walk(st)):
                    first = i
                    break
            if first is None or not isinstance(fn.body[first], (ast.Assign, ast.Expr, ast.Return, ast.AugAssign)):
                continue
            nm = f"_c_{root}_{attr}".replace("__", "_")

            class R(ast.NodeTransformer):
                def visit_Attribute(self, node):
                    self.generic_visit(node)
                    if isinstance(node.ctx, ast.Load) and isinstance(node.value, ast.Name) and node.value.id == root and node.attr == attr:
                        return ast.copy_location(ast.Name(id=nm, ctx=ast.Load()), node)
                    return node
            fn.body[first:] = [R().visit(b) for b in fn.body[first:]]
            fn.body.insert(first, ast.Assign(targets=[ast.Name(id=nm, ctx=ast.Store())],
                                             value=ast.Attribute(value=ast.Name(id=root, ctx=ast.Load()), attr=attr, ctx=ast.Load()), lineno=fn.lineno))
            break  # one cache per function keeps the transformation obviously safe
    return tree


TRANSFORMS = {"unparse": lambda t: t, "locals": t_locals, "negif": t_negif, "retvar": t_retvar, "isnot": t_isnot, "kwswap": t_kwswap,
              "nop": t_nop, "annot": t_annot, "docstrip": t_docstrip, "splitand": t_splitand, "ternary2if": t_ternary2if, "explain": t_explain,
              "inlinetmp": t_inlinetmp, "methodorder": t_methodorder, "assert2if": t_assert2if, "msgtext": t_msgtext, "dict2lit": t_dict2lit,
              "lit2dict": t_lit2dict, "compr2loop": t_compr2loop, "attrcache": t_attrcache}


COMBOS = {
    "combo1": ["negif", "retvar", "explain", "locals", "nop", "kwswap"],
    "combo2": ["ternary2if", "splitand", "isnot", "assert2if", "compr2loop", "dict2lit", "annot"],
    "combo3": ["attrcache", "inlinetmp", "lit2dict", "msgtext", "methodorder", "docstrip", "locals"],
}


def overlay_for(name, only=None):
    ov = {}
    for rel in _files():
        if only and only not in rel:
            continue
        src = open(os.path.join(REPO, rel), encoding="utf-8").read()
        tree = ast.parse(src)
        if name in COMBOS:
            for step in COMBOS[name]:
                tree = TRANSFORMS[step](tree)
                ast.fix_missing_locations(tree)
                tree = ast.parse(ast.unparse(tree))
            ast.fix_missing_locations(tree)
            out = ast.unparse(tree) + "\n"
            compile(out, rel, "exec")
            ov[rel] = out
            continue
        tree = TRANSFORMS[name](tree)
        ast.fix_missing_locations(tree)
        out = ast.unparse(tree) + "\n"
        compile(out, rel, "exec")
        ov[rel] = out
    return ov


def _viol(prop, overlay):
    """what the check would print for this tree: unlisted violations (known findings matched as in report.finish) and analysis errors"""
    from sa import check
    from sa.model import AnalysisError
    from sa.report import verdict
    try:
        run = check.run_property(prop, "quick", overlay=overlay)
        v, errs = verdict(run)
        return v, errs, len(run.obligations)
    except AnalysisError as e:
        return {}, [f"ANALYSIS-ERROR {e}"], 0
    except Exception as e:  # noqa
        import traceback
        return {}, [f"CRASH {type(e).__name__}: {e} {traceback.format_exc()[-400:]}"], 0


def job(a):
    name, prop, only = a
    base, berr, nb = _viol(prop, None)
    got, err, n = _viol(prop, overlay_for(name, only))
    new = {k: v for k, v in got.items() if k not in base}
    gone = [k for k in base if k not in got]
    return name, prop, new, [e for e in err if e not in berr], gone, nb, n


def main():
    args = [a for a in sys.argv[1:] if not a.startswith("--")]
    only = None
    props = PROPS
    for i, a in enumerate(sys.argv):
        if a == "--file":
            only = sys.argv[i + 1]
            args = [x for x in args if x != only]
        if a == "--props":
            props = sys.argv[i + 1].split(",")
            args = [x for x in args if x != sys.argv[i + 1]]
    names = args or list(TRANSFORMS)
    for n_ in names:
        if n_ not in TRANSFORMS and n_ not in COMBOS:
            raise SystemExit(f"unknown transformation {n_}")
    jobs = [(n, p, only) for n in names for p in props]
    bad = 0
    with ProcessPoolExecutor(max_workers=16) as ex:
        for name, prop, new, err, gone, nb, n in ex.map(job, jobs):
            status = "silent" if not new and not err and not gone else "NOISY"
            if status == "NOISY":
                bad += 1
            print(f"{name:9s} {prop} {status} obligations {nb}->{n}", flush=True)
            for k, v in sorted(new.items())[:6]:
                print(f"     NEW {k[0]} {k[1]}: {k[2][:100]} -- {str(v)[:160]}")
            for e in err[:4]:
                print(f"     ERR {e[:300]}")
            for k in gone[:3]:
                print(f"     KNOWN-FINDING-VANISHED {k[0]} {k[1]}: {k[2][:100]}")
    print("noisy (transformation, property) pairs:", bad, "of", len(jobs))
    return 1 if bad else 0


if __name__ == "__main__":
    sys.exit(main())
