#!/usr/bin/env python3
"""Apply a seeded change to /repo, run every registered quick check, undo it.  usage: try_seed.py <patch.diff> [props...]"""
import json, os, subprocess, sys
HERE = os.path.dirname(os.path.dirname(os.path.abspath(__file__)))
patch = os.path.abspath(sys.argv[1])
props = sys.argv[2:] or [c["property_id"] for c in json.load(open(os.path.join(HERE, "MANIFEST.json")))["checks"]]
st = subprocess.run(["git", "-C", "/repo", "status", "--porcelain", "--untracked-files=no"], capture_output=True, text=True).stdout.strip()
if st:
    sys.exit("refusing: /repo has uncommitted changes:\n" + st)
def _reset():
    subprocess.run(["git", "-C", "/repo", "reset", "-q", "--hard", "HEAD"])
r = subprocess.run(["git", "-C", "/repo", "apply", patch], capture_output=True, text=True)
if r.returncode != 0:
    _reset()
    r = subprocess.run(["git", "-C", "/repo", "apply", "--3way", patch], capture_output=True, text=True)
    dirty = subprocess.run(["git", "-C", "/repo", "diff", "--name-only", "--diff-filter=U"], capture_output=True, text=True).stdout.strip()
    if r.returncode != 0 or dirty:
        _reset()
        sys.exit("patch does not apply to /repo HEAD (needs a manual rebase): " + r.stderr[-200:])
    subprocess.run(["git", "-C", "/repo", "reset", "-q"])
try:
    fired = {}
    for p in props:
        o = subprocess.run(["python3-vt", os.path.join(HERE, "sa/check.py"), p, "--tier", "quick"], capture_output=True, text=True, cwd=HERE)
        lines = [l for l in o.stdout.splitlines() if l.startswith("VIOLATION") or l.startswith("ANALYSIS-ERROR") or l.startswith("  R")]
        if o.returncode != 0:
            fired[p] = (o.returncode, lines)
    for p, (rc, lines) in fired.items():
        print(f"{p}: exit {rc}")
        for l in lines[:8]:
            print("   ", l[:220])
    if not fired:
        print("MISSED: no check fired")
finally:
    subprocess.run(["git", "-C", "/repo", "reset", "-q", "--hard", "HEAD"])
    # restore evidence written while the patch was applied
    subprocess.run(["git", "-C", HERE, "checkout", "--", "evidence"], capture_output=True)
