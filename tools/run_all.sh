#!/bin/bash
# run every registered quick check in parallel; print one line per property; exit non-zero if any check does
cd "$(dirname "$0")/.."
rc=0
for p in 01 02 03 04 05 06 07 08 09 10 11 12 13 14 15 16 17 18; do
  ( python3-vt sa/check.py C$p --tier quick > /tmp/q_C$p.out 2>&1; echo $? > /tmp/q_C$p.rc ) &
done
wait
for p in 01 02 03 04 05 06 07 08 09 10 11 12 13 14 15 16 17 18; do
  r=$(cat /tmp/q_C$p.rc); [ "$r" != "0" ] && rc=1
  echo "C$p exit $r $(grep -h '^\[C' /tmp/q_C$p.out | sed 's/rules=.*//')"
  grep -h "^VIOLATION\|^ANALYSIS-ERROR\|^  R" /tmp/q_C$p.out | head -6
done
exit $rc
