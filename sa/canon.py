"""Role-based canonicalisation of local variable names in the two pattern-heavy anchor functions
(Tensor._op and Tensor._in_place_op).

Several rules describe what they look for in terms of the *roles* of locals (the op instance, its raw output, the output
tensor, the placeholder graph, the private copy ...).  To keep those rules independent of how a maintainer happens to spell
the locals, the roles are identified structurally (by what is assigned to a name) and the names are rewritten, in the parsed
AST only, to the canonical spellings the rules use.  Nothing is written to disk; line numbers are unchanged."""
from __future__ import annotations

import ast
from typing import Dict, Optional

from .model import dotted, norm, own_nodes


def _rename(fn: ast.AST, mapping: Dict[str, str]):
    mapping = {k: v for k, v in mapping.items() if k != v}
    if not mapping:
        return
    # refuse a rename that would capture an existing, different local
    existing = {n.id for n in ast.walk(fn) if isinstance(n, ast.Name)} | {a.arg for a in ast.walk(fn) if isinstance(a, ast.arg)}
    for old, new in list(mapping.items()):
        if new in existing and new not in mapping:
            del mapping[old]
    for n in ast.walk(fn):
        if isinstance(n, ast.Name) and n.id in mapping:
            n.id = mapping[n.id]
        elif isinstance(n, ast.arg) and n.arg in mapping:
            n.arg = mapping[n.arg]
        elif n is not fn and isinstance(n, (ast.FunctionDef, ast.AsyncFunctionDef)) and n.name in mapping:
            n.name = mapping[n.name]  # a nested def binds the same local


def _assigned(st) -> Optional[str]:
    if isinstance(st, ast.Assign) and len(st.targets) == 1 and isinstance(st.targets[0], ast.Name):
        return st.targets[0].id
    if isinstance(st, ast.AnnAssign) and isinstance(st.target, ast.Name) and st.value is not None:
        return st.target.id
    return None


def canon_op(fn: ast.FunctionDef):
    a = fn.args
    pos = [x.arg for x in a.posonlyargs + a.args]
    if len(pos) < 2:
        return
    cls_name, op_param = pos[0], pos[1]
    m: Dict[str, str] = {}
    if a.vararg:
        m[a.vararg.arg] = "input_vars"
    _rename(fn, m)
    m = {}
    # tensor_vars: assigned from an expression that wraps operands with cls(<v>, constant=True, copy=False) while iterating input_vars
    for st in own_nodes(fn):
        nm = _assigned(st)
        if nm and any(isinstance(c, ast.Call) and isinstance(c.func, ast.Name) and c.func.id == cls_name and len(c.args) == 1
                      and any(k.arg == "copy" for k in c.keywords) and not any(k.arg == "_creator" for k in c.keywords)
                      for c in ast.walk(st.value)) and "input_vars" in {x.id for x in ast.walk(st.value) if isinstance(x, ast.Name)}:
            m[nm] = "tensor_vars"
    # f = Op()
    f_name = None
    for st in own_nodes(fn):
        nm = _assigned(st)
        if nm and isinstance(st.value, ast.Call) and isinstance(st.value.func, ast.Name) and st.value.func.id == op_param and not st.value.args:
            f_name = nm
            m[nm] = "f"
    _rename(fn, m)
    m = {}
    # op_out = f(...)
    for st in own_nodes(fn):
        nm = _assigned(st)
        if nm and isinstance(st.value, ast.Call) and isinstance(st.value.func, ast.Name) and st.value.func.id == "f":
            m[nm] = "op_out"
    _rename(fn, m)
    m = {}
    # tensor_out = cls(op_out, ..., _creator=f, _base=<base>)
    for st in own_nodes(fn):
        nm = _assigned(st)
        if nm and isinstance(st.value, ast.Call) and isinstance(st.value.func, ast.Name) and st.value.func.id == cls_name:
            kws = {k.arg: k.value for k in st.value.keywords}
            if isinstance(kws.get("_creator"), ast.Name) and kws["_creator"].id == "f":
                m[nm] = "tensor_out"
                if isinstance(kws.get("_base"), ast.Name):
                    m[kws["_base"].id] = "base"
    # parent_var: loop target paired with tensor_vars in a zip
    for st in own_nodes(fn):
        if isinstance(st, ast.For) and isinstance(st.iter, ast.Call) and dotted(st.iter.func) == "zip" and isinstance(st.target, ast.Tuple):
            for tgt, src in zip(st.target.elts, st.iter.args):
                if isinstance(src, ast.Name) and src.id == "tensor_vars" and isinstance(tgt, ast.Name):
                    m[tgt.id] = "parent_var"
    _rename(fn, m)


def canon_in_place_op(fn: ast.FunctionDef):
    m: Dict[str, str] = {}
    a = fn.args
    if a.vararg:
        m[a.vararg.arg] = "input_vars"
    for st in own_nodes(fn):
        nm = _assigned(st)
        if nm and isinstance(st.value, ast.Call) and (dotted(st.value.func) or "").endswith("DuplicatingGraph"):
            m[nm] = "graph"
    _rename(fn, m)
    m = {}
    for st in own_nodes(fn):
        nm = _assigned(st)
        if nm and isinstance(st.value, ast.Call) and norm(st.value.func) == "graph.base.tensor.copy":
            m[nm] = "mutant_base"
        if isinstance(st, ast.For) and isinstance(st.iter, ast.Name) and st.iter.id == "graph" and isinstance(st.target, ast.Name):
            m[st.target.id] = "node"
    _rename(fn, m)
    m = {}
    # kernel: <x> = self._op(<op>, ..., out=<t>.data)
    for st in own_nodes(fn):
        nm = _assigned(st)
        if nm and isinstance(st.value, ast.Call) and isinstance(st.value.func, ast.Attribute) and st.value.func.attr == "_op":
            o = [k.value for k in st.value.keywords if k.arg == "out"]
            if o and isinstance(o[0], ast.Attribute) and o[0].attr == "data" and isinstance(o[0].value, ast.Name):
                m[nm] = "placeholder_mutant_view"
                m[o[0].value.id] = "inplace_target"
    _rename(fn, m)
    m = {}
    for st in own_nodes(fn):
        nm = _assigned(st)
        if nm and norm(st.value) == "mutant_base.data":
            m[nm] = "mutant_base_data"
    _rename(fn, m)


def canon_array_ufunc(fn: ast.FunctionDef):
    """`out` = the local popped from the keyword dict under "out"; `caster` = the local that is bound to one of the two operand casters"""
    m: Dict[str, str] = {}
    a = fn.args
    if a.vararg:
        m[a.vararg.arg] = "inputs"
    if a.kwarg:
        m[a.kwarg.arg] = "kwargs"
    _rename(fn, m)
    m = {}
    for st in own_nodes(fn):
        nm = _assigned(st)
        if nm is None:
            continue
        v = st.value
        if isinstance(v, ast.Call) and norm(v.func) == "kwargs.pop" and v.args and isinstance(v.args[0], ast.Constant) and v.args[0].value == "out":
            m[nm] = "out"
        if isinstance(v, ast.Name) and v.id in ("_as_constant_array", "asarray"):
            m[nm] = "caster"
    _rename(fn, m)


def canon_window_shapes(fn: ast.FunctionDef):
    """`out_shape` = the local whose value is tested for integrality/positivity or handed to as_strided(shape=...);
    `in_shape` = the local taken from the trailing axes of the windowed array's shape"""
    m: Dict[str, str] = {}
    for n in ast.walk(fn):
        if isinstance(n, ast.Call) and (dotted(n.func) or "").endswith("as_strided"):
            for k in n.keywords:
                if k.arg == "shape" and isinstance(k.value, ast.Name):
                    m[k.value.id] = "out_shape"
        if isinstance(n, ast.GeneratorExp) and isinstance(n.elt, ast.BoolOp) and len(n.generators) == 1 and isinstance(n.generators[0].iter, ast.Name) \
                and any(isinstance(c, ast.Call) and isinstance(c.func, ast.Attribute) and c.func.attr == "is_integer" for c in ast.walk(n.elt)):
            m[n.generators[0].iter.id] = "out_shape"
    pos = [a.arg for a in fn.args.posonlyargs + fn.args.args]
    layer = bool(pos) and pos[0] == "self"
    for st in own_nodes(fn):
        nm = _assigned(st)
        if nm and isinstance(st.value, ast.Call) and (dotted(st.value.func) or "") in ("np.array", "numpy.array", "np.asarray") and st.value.args \
                and isinstance(st.value.args[0], ast.Subscript) and norm(st.value.args[0].value).endswith(".shape") \
                and isinstance(st.value.args[0].slice, ast.Slice) and st.value.args[0].slice.lower is not None and st.value.args[0].slice.upper is None:
            owner = norm(st.value.args[0].value)[: -len(".shape")]
            if not layer:
                m[nm] = "in_shape"          # sliding_window_view: trailing axes of the windowed array
            elif len(pos) > 1 and owner == pos[1]:
                m[nm] = "x_shape"           # layer: spatial shape of the data operand
            elif len(pos) > 2 and owner == pos[2]:
                m[nm] = "w_shape"           # layer: spatial shape of the filter operand
        elif nm and layer and len(pos) > 2 and isinstance(st.value, ast.Name) and st.value.id == pos[2]:
            m[nm] = "w_shape"               # pooling: the window is the pool parameter itself
    _rename(fn, m)


def canonicalise(project):
    for q, fnc in (("mygrad.nnet.layers.utils.sliding_window_view", canon_window_shapes),):
        f = project.functions.get(q)
        if f is not None:
            fnc(f.node)
    for cq in ("mygrad.nnet.layers.conv.ConvND", "mygrad.nnet.layers.pooling.MaxPoolND"):
        c = project.classes.get(cq)
        if c is not None and c.methods.get("__call__") is not None:
            canon_window_shapes(c.methods["__call__"].node)
    t = project.classes.get("mygrad.tensor_base.Tensor")
    if t is None:
        return
    op = t.methods.get("_op")
    if op is not None:
        canon_op(op.node)
    ip = t.methods.get("_in_place_op")
    if ip is not None:
        canon_in_place_op(ip.node)
    au = t.methods.get("__array_ufunc__")
    if au is not None:
        canon_array_ufunc(au.node)
