"""Recognising *benign drift* of private names and signatures against a reference snapshot of the pinned tree.

Rules anchor on qualified names (`lock_management._release_lock_on_arr_writeability`, `DuplicatingGraph._record_mapping`, `ApplyMask._mask`).
A maintainer may rename any *private* name, or give a function a new keyword whose default reproduces today's behaviour; neither changes what
the library does, but both used to make anchors vanish (ANALYSIS-ERROR) or rules trip over the unknown parameter.

`sa/baseline_api.json` (written by tools/gen_baseline.py from the pinned tree, committed) records per module the private function names, per
class the method names and the private attributes with the methods that store them, every function's parameter list and a *fingerprint* (the
set of identifiers its body mentions).  It is a reference for **recognition only** -- nothing in it is ever compared to judge a property, and
when it does not match (or is absent) the tree is analysed as it stands.

On load (before indexing) three canonicalisations are applied to the parsed ASTs, each an equivalence transformation:

D1  private function / method renamed: an expected private name X is missing from its scope, and the scope holds an unexpected name Y whose
    parameter count equals X's and whose fingerprint is the best match (Jaccard >= 0.55, and clearly better than the runner-up): every
    occurrence of the identifier Y in the repository (definitions, calls, attribute accesses, imports, `__all__` strings are not touched because
    the name is private) is renamed to X -- provided Y occurs nowhere in the snapshot.
D2  private attribute renamed: an expected private attribute X of class C is stored nowhere in C any more, and C stores an unexpected private
    attribute Y in exactly the methods that used to store X: every `.Y` in the repository becomes `.X` -- provided Y occurs nowhere in the snapshot.
D3  new neutral parameter: a function of the snapshot has a parameter the snapshot does not know, with a constant default, never re-bound in
    the body, and **no call site in the repository passes it** except with that same constant or by forwarding the like-named parameter from
    inside the function itself (recursion): the parameter is replaced by its default inside the function and dropped from those calls.
    (A change that *uses* the new parameter from some call site is not neutral and is left for the rules to see.)

Everything done is recorded in `project.drift_log` and shown in the evidence.
"""
from __future__ import annotations

import ast
import json
import os
from typing import Dict, List, Optional, Set

HERE = os.path.dirname(os.path.abspath(__file__))
TABLE = os.path.join(HERE, "baseline_api.json")


def fingerprint(fn: ast.AST) -> List[str]:
    out: Set[str] = set()
    for n in ast.walk(fn):
        if n is fn:
            continue
        if isinstance(n, ast.Name):
            out.add(n.id)
        elif isinstance(n, ast.Attribute):
            out.add("." + n.attr)
        elif isinstance(n, ast.keyword) and n.arg:
            out.add(n.arg + "=")
        elif isinstance(n, ast.Constant) and isinstance(n.value, (int, float)) and not isinstance(n.value, bool):
            out.add(repr(n.value))
    return sorted(out)


def params_of(fn) -> List[str]:
    a = fn.args
    ps = [x.arg for x in a.posonlyargs + a.args + a.kwonlyargs]
    if a.vararg:
        ps.append("*" + a.vararg.arg)
    if a.kwarg:
        ps.append("**" + a.kwarg.arg)
    return ps


def _is_private(name: str) -> bool:
    return name.startswith("_") and not (name.startswith("__") and name.endswith("__"))


def _defs(body):
    """function definitions of a module / class body (looking into if/try blocks at that level); the last definition of a name wins, except
    that property getter/setter pairs are kept under `name` / `name.setter`"""
    out = {}
    for st in body:
        if isinstance(st, (ast.FunctionDef, ast.AsyncFunctionDef)):
            key = st.name
            if key in out and any(isinstance(d, ast.Attribute) and d.attr == "setter" for d in st.decorator_list):
                key = st.name + ".setter"
            out[key] = st
        elif isinstance(st, ast.If):
            out.update(_defs(st.body))
            out.update(_defs(st.orelse))
        elif isinstance(st, ast.Try):
            out.update(_defs(st.body))
    return out


def _classes(body):
    out = {}
    for st in body:
        if isinstance(st, ast.ClassDef):
            out[st.name] = st
        elif isinstance(st, ast.If):
            out.update(_classes(st.body))
            out.update(_classes(st.orelse))
    return out


def _attr_stores(cls: ast.ClassDef) -> Dict[str, List[str]]:
    """private attribute -> sorted names of the methods of `cls` that store `self.<attr>`"""
    out: Dict[str, Set[str]] = {}
    for m in cls.body:
        if not isinstance(m, (ast.FunctionDef, ast.AsyncFunctionDef)) or not m.args.args:
            continue
        me = m.args.args[0].arg
        for n in ast.walk(m):
            if isinstance(n, ast.Attribute) and isinstance(n.ctx, ast.Store) and isinstance(n.value, ast.Name) and n.value.id == me and _is_private(n.attr):
                out.setdefault(n.attr, set()).add(m.name)
    return {k: sorted(v) for k, v in out.items()}


def _class_level_attrs(cls: ast.ClassDef) -> List[str]:
    """private names bound in the class body itself (`_enter_set_value: bool = False`)"""
    out = set()
    for st in cls.body:
        tg = st.targets if isinstance(st, ast.Assign) else ([st.target] if isinstance(st, ast.AnnAssign) else [])
        for t in tg:
            if isinstance(t, ast.Name) and _is_private(t.id):
                out.add(t.id)
    return sorted(out)


def snapshot(trees: Dict[str, ast.AST]) -> dict:
    """trees: module name -> parsed (un-normalised) tree"""
    snap = {"modules": {}, "identifiers": []}
    idents: Set[str] = set()
    for mod, tree in sorted(trees.items()):
        for n in ast.walk(tree):
            if isinstance(n, ast.Name):
                idents.add(n.id)
            elif isinstance(n, ast.Attribute):
                idents.add(n.attr)
            elif isinstance(n, (ast.FunctionDef, ast.AsyncFunctionDef, ast.ClassDef)):
                idents.add(n.name)
            elif isinstance(n, ast.arg):
                idents.add(n.arg)
            elif isinstance(n, ast.alias):
                idents.add((n.asname or n.name).split(".")[-1])
        m = {"functions": {}, "classes": {}}
        for name, fn in _defs(tree.body).items():
            m["functions"][name] = {"params": params_of(fn), "fp": fingerprint(fn)}
        for cname, cls in _classes(tree.body).items():
            c = {"methods": {}, "attrs": _attr_stores(cls), "fp": fingerprint(cls), "bases": [ast.unparse(b) for b in cls.bases],
                 "cattrs": _class_level_attrs(cls)}
            for name, fn in _defs(cls.body).items():
                c["methods"][name] = {"params": params_of(fn), "fp": fingerprint(fn)}
            m["classes"][cname] = c
        snap["modules"][mod] = m
    snap["identifiers"] = sorted(i for i in idents if _is_private(i))
    return snap


def load_table() -> Optional[dict]:
    if os.environ.get("SA_NO_DRIFT") == "1" or not os.path.exists(TABLE):
        return None
    try:
        with open(TABLE) as fh:
            return json.load(fh)
    except Exception:  # noqa
        return None


def _jaccard(a, b) -> float:
    a, b = set(a), set(b)
    return len(a & b) / max(1, len(a | b))


class _RenameIdent(ast.NodeTransformer):
    def __init__(self, mapping: Dict[str, str], attrs_only=False):
        self.m = mapping
        self.attrs_only = attrs_only

    def visit_Name(self, node):
        if not self.attrs_only and node.id in self.m:
            node.id = self.m[node.id]
        return node

    def visit_Attribute(self, node):
        self.generic_visit(node)
        if node.attr in self.m:
            node.attr = self.m[node.attr]
        return node

    def visit_FunctionDef(self, node):
        if not self.attrs_only and node.name in self.m:
            node.name = self.m[node.name]
        self.generic_visit(node)
        return node

    visit_AsyncFunctionDef = visit_FunctionDef

    def visit_ClassDef(self, node):
        if not self.attrs_only and node.name in self.m:
            node.name = self.m[node.name]
        for st in node.body:   # names bound in the class body are attributes of the class
            tg = st.targets if isinstance(st, ast.Assign) else ([st.target] if isinstance(st, ast.AnnAssign) else [])
            for t in tg:
                if isinstance(t, ast.Name) and t.id in self.m:
                    t.id = self.m[t.id]
        self.generic_visit(node)
        return node

    def visit_ImportFrom(self, node):
        if not self.attrs_only:
            for a in node.names:
                if a.name in self.m and a.asname is None:
                    a.name = self.m[a.name]
        return node

    def visit_keyword(self, node):
        self.generic_visit(node)
        return node


def _match_renames(expected: Dict[str, dict], present: Dict[str, ast.AST], known_idents: Set[str]) -> Dict[str, str]:
    """expected: name -> {params, fp} of the snapshot scope; present: name -> def node of the current scope.  Returns {new name: old name}."""
    missing = [x for x in expected if _is_private(x.split(".")[0]) and x not in present]
    extra = [y for y in present if _is_private(y.split(".")[0]) and y not in expected and y not in known_idents]
    out: Dict[str, str] = {}
    if not missing or not extra:
        return out
    scores = []
    for x in missing:
        for y in extra:
            if x.endswith(".setter") != y.endswith(".setter"):
                continue
            px, py = expected[x]["params"], params_of(present[y])
            if len(px) != len(py):
                continue
            fx = set(expected[x]["fp"]) - {x}
            fy = set(fingerprint(present[y])) - {y}
            scores.append((_jaccard(fx, fy), x, y))
    scores.sort(reverse=True)
    used_x, used_y = set(), set()
    for sc, x, y in scores:
        if sc < 0.55 or x in used_x or y in used_y:
            continue
        rivals = [s for s, x2, y2 in scores if (x2 == x) != (y2 == y) and x2 not in used_x and y2 not in used_y]
        if rivals and max(rivals) > sc - 0.1:
            continue  # ambiguous
        out[y.split(".")[0]] = x.split(".")[0]
        used_x.add(x)
        used_y.add(y)
    return out


def canonicalise_drift(trees: Dict[str, ast.AST], table: Optional[dict]) -> List[str]:
    log: List[str] = []
    if not table:
        return log
    known = set(table.get("identifiers", []))
    # ---------------- D1 / D2: collect renames over all scopes, then apply them repository-wide
    fn_map: Dict[str, str] = {}
    attr_map: Dict[str, str] = {}
    for mod, tree in trees.items():
        ref = table["modules"].get(mod)
        if ref is None:
            continue
        r = _match_renames(ref["functions"], _defs(tree.body), known)
        for y, x in r.items():
            fn_map[y] = x
            log.append(f"D1 {mod}: private function `{y}` recognised as the snapshot's `{x}` (renamed)")
        # private classes renamed (matched like functions: same bases, best fingerprint)
        cur_classes = _classes(tree.body)
        miss_c = [x for x in ref["classes"] if _is_private(x) and x not in cur_classes]
        extra_c = [y for y in cur_classes if _is_private(y) and y not in ref["classes"] and y not in known]
        for x in miss_c:
            cands = []
            for y in extra_c:
                if [ast.unparse(b) for b in cur_classes[y].bases] != ref["classes"][x].get("bases", []):
                    continue
                cands.append((_jaccard(set(ref["classes"][x].get("fp", [])) - {x}, set(fingerprint(cur_classes[y])) - {y}), y))
            cands.sort(reverse=True)
            if cands and cands[0][0] >= 0.55 and (len(cands) == 1 or cands[0][0] - cands[1][0] > 0.1) and cands[0][1] not in fn_map:
                fn_map[cands[0][1]] = x
                extra_c.remove(cands[0][1])
                log.append(f"D1 {mod}: private class `{cands[0][1]}` recognised as the snapshot's `{x}` (renamed)")
        for cname, cls in _classes(tree.body).items():
            cref = ref["classes"].get(fn_map.get(cname, cname))
            if cref is None:
                continue
            r = _match_renames(cref["methods"], _defs(cls.body), known)
            for y, x in r.items():
                fn_map[y] = x
                log.append(f"D1 {mod}.{cname}: private method `{y}` recognised as the snapshot's `{x}` (renamed)")
            now = _attr_stores(cls)
            # methods may have been renamed in the same commit: compare store sites under the method renames found so far
            inv = {v: k for k, v in r.items()}
            for x, where in cref["attrs"].items():
                if x in now:
                    continue
                cands = [y for y, w in now.items() if y not in cref["attrs"] and y not in known and sorted(r.get(m_, m_) for m_ in w) == sorted(where)]
                if len(cands) == 1:
                    attr_map[cands[0]] = x
                    log.append(f"D2 {mod}.{cname}: private attribute `{cands[0]}` recognised as the snapshot's `{x}` (renamed; stored in {where})")
    # D2b  private class-level attributes (`_enter_set_value = False` in a base class and its subclasses): the set of classes that bind the
    # missing name at class level equals the set of classes that bind one unexpected name
    want: Dict[str, Set[str]] = {}
    have: Dict[str, Set[str]] = {}
    for mod, tree in trees.items():
        ref = table["modules"].get(mod)
        if ref is None:
            continue
        for cname, cls in _classes(tree.body).items():
            cref = ref["classes"].get(fn_map.get(cname, cname))
            if cref is None:
                continue
            now_c = set(_class_level_attrs(cls))
            for x in cref.get("cattrs", []):
                if x not in now_c:
                    want.setdefault(x, set()).add(f"{mod}.{cname}")
            for y in now_c:
                if y not in cref.get("cattrs", []) and y not in known:
                    have.setdefault(y, set()).add(f"{mod}.{cname}")
    for x, cs in want.items():
        cands = [y for y, cy in have.items() if cy == cs and y not in attr_map]
        if len(cands) == 1:
            attr_map[cands[0]] = x
            log.append(f"D2 private class attribute `{cands[0]}` recognised as the snapshot's `{x}` (renamed; bound in {sorted(cs)})")
    if fn_map or attr_map:
        clash = (set(fn_map) & set(attr_map))
        for tree in trees.values():
            if fn_map:
                _RenameIdent({k: v for k, v in fn_map.items() if k not in clash}).visit(tree)
            if attr_map:
                _RenameIdent(attr_map, attrs_only=True).visit(tree)
    # ---------------- D3: new neutral parameters
    for mod, tree in trees.items():
        ref = table["modules"].get(mod)
        if ref is None:
            continue
        scopes = [(ref["functions"], _defs(tree.body), mod)]
        for cname, cls in _classes(tree.body).items():
            cref = ref["classes"].get(cname)
            if cref is not None:
                scopes.append((cref["methods"], _defs(cls.body), f"{mod}.{cname}"))
        for expected, present, where in scopes:
            for name, fn in present.items():
                if name not in expected:
                    continue
                old = {p.lstrip("*") for p in expected[name]["params"]}
                a = fn.args
                pos = a.posonlyargs + a.args
                pairs = list(zip(pos[len(pos) - len(a.defaults):], a.defaults)) + [(p, d) for p, d in zip(a.kwonlyargs, a.kw_defaults) if d is not None]
                new = [(p, d) for p, d in pairs if p.arg not in old and isinstance(d, ast.Constant)]
                if not new:
                    continue
                stored = {n.id for n in ast.walk(fn) if isinstance(n, ast.Name) and isinstance(n.ctx, (ast.Store, ast.Del))}
                for p, d in new:
                    if p.arg in stored or not _never_passed(trees, fn, name.split(".")[0], p, d, pos):
                        continue
                    _substitute_param(fn, p.arg, d)
                    for t2 in trees.values():
                        _drop_kw(t2, name.split(".")[0], p.arg)
                    log.append(f"D3 {where}.{name}: new parameter `{p.arg}={ast.unparse(d)}` is passed by no call site: specialised to its default")
    return log


def _calls_to(trees, fname):
    for tree in trees.values():
        for n in ast.walk(tree):
            if isinstance(n, ast.Call):
                f = n.func
                nm = f.id if isinstance(f, ast.Name) else (f.attr if isinstance(f, ast.Attribute) else None)
                if nm == fname:
                    yield n


def _never_passed(trees, fn, fname, p: ast.arg, default: ast.Constant, pos) -> bool:
    """no call to a function of that name passes parameter p, except with the default constant or by forwarding `p` from inside fn itself"""
    inside = {id(n) for n in ast.walk(fn)}
    is_kwonly = p not in pos
    index = None if is_kwonly else pos.index(p)
    if fname in ("__init__", "__call__"):
        return False  # reached through other spellings (Class(...), obj(...)): cannot enumerate the call sites by name
    for c in _calls_to(trees, fname):
        if any(k.arg is None for k in c.keywords):
            return False  # **kwargs: cannot tell
        for k in c.keywords:
            if k.arg == p.arg:
                same_const = isinstance(k.value, ast.Constant) and type(k.value.value) is type(default.value) and k.value.value == default.value
                forwards = id(c) in inside and isinstance(k.value, ast.Name) and k.value.id == p.arg
                if not (same_const or forwards):
                    return False
        if index is not None:
            # positional: a call with enough positional arguments to reach the new parameter (methods: minus the bound receiver)
            npos = len(c.args) + (1 if isinstance(c.func, ast.Attribute) and pos and pos[0].arg in ("self", "cls") else 0)
            if any(isinstance(a_, ast.Starred) for a_ in c.args) or npos > index:
                return False
    return True


def _substitute_param(fn, name, default):
    a = fn.args
    pos = a.posonlyargs + a.args
    for lst in (a.posonlyargs, a.args):
        for i, p in enumerate(lst):
            if p.arg == name:
                j = pos.index(p) - (len(pos) - len(a.defaults))
                if 0 <= j < len(a.defaults):
                    del a.defaults[j]
                del lst[i]
                break
    for i, p in enumerate(a.kwonlyargs):
        if p.arg == name:
            del a.kwonlyargs[i]
            del a.kw_defaults[i]
            break

    class S(ast.NodeTransformer):
        def visit_Name(self, node):
            if node.id == name and isinstance(node.ctx, ast.Load):
                return ast.copy_location(ast.Constant(value=default.value), node)
            return node
    fn.body = [S().visit(b) for b in fn.body]
    ast.fix_missing_locations(fn)


def _drop_kw(tree, fname, pname):
    for n in ast.walk(tree):
        if isinstance(n, ast.Call):
            f = n.func
            nm = f.id if isinstance(f, ast.Name) else (f.attr if isinstance(f, ast.Attribute) else None)
            if nm == fname:
                n.keywords = [k for k in n.keywords if k.arg != pname]
