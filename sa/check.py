#!/usr/bin/env python3
"""CLI:  python3-vt sa/check.py <Cnn> [--tier quick|thorough] [--replay file]

exit 0: every obligation discharged (known findings are printed, do not affect the code)
exit 1: VIOLATION property=<id> replay=<path>   (an undischarged obligation not listed in known_findings.json)
exit 2: ANALYSIS-ERROR ... (anchor vanished / rule went blind / analyser raised) -- never a pass
"""
import argparse
import importlib
import json
import os
import sys
import traceback

HERE = os.path.dirname(os.path.abspath(__file__))
sys.path.insert(0, os.path.dirname(HERE))

PROPS = [f"C{i:02d}" for i in range(1, 19)]


def run_property(prop: str, tier: str, overlay=None, quiet=False):
    """Run all rules of a property; returns the Run (no evidence written)."""
    from sa.model import Project
    from sa.report import Run

    project = Project(overlay=overlay)
    run = Run(prop, tier, project)
    mod = importlib.import_module(f"sa.rules.{prop.lower()}")
    mod.check(run)
    return run


def main(argv=None):
    ap = argparse.ArgumentParser()
    ap.add_argument("prop")
    ap.add_argument("--tier", default=os.environ.get("VERIF_TIER", "quick"), choices=["quick", "thorough"])
    ap.add_argument("--replay", default=None)
    ap.add_argument("--no-selftest", action="store_true")
    a = ap.parse_args(argv)
    seed = int(os.environ.get("VERIF_SEED", "0") or 0)
    prop = a.prop.upper()
    if prop not in PROPS:
        print(f"ANALYSIS-ERROR unknown property {prop}")
        return 2
    try:
        from sa.model import AnalysisError
        from sa.report import finish

        if a.replay:
            with open(a.replay) as fh:
                want = json.load(fh)
            run = run_property(prop, a.tier)
            hit = [o for o in run.obligations if not o.ok and o.rule == want.get("rule")
                   and o.function == want.get("function") and o.construct == want.get("construct")]
            if hit:
                o = hit[0]
                print(f"VIOLATION property={prop} replay={a.replay}")
                print(f"  {o.rule} at {o.where} in {o.function}: {o.construct}\n  reason: {o.fact}")
                if o.path:
                    print("  path: " + " -> ".join(o.path))
                return 1
            print(f"[{prop}] replay: the recorded violation is not present on the current tree")
            return 0

        run = run_property(prop, a.tier)
        st = None
        if a.tier == "thorough" and not a.no_selftest:
            from sa.selftest import bank

            st = bank.run_for_property(prop, jobs=min(16, (os.cpu_count() or 4)))
            # ... and the independently written fixtures: every filed seeded change this check caught must still be caught, every filed
            # behaviour-preserving change must leave it silent (patches that no longer apply to the current tree are skipped and listed)
            fx_ = bank.run_fixtures_for_property(prop, jobs=min(16, (os.cpu_count() or 4)))
            st["fixtures"] = {k: v for k, v in fx_.items() if k != "failed"}
            st["failed"] = st["failed"] + fx_["failed"]
            if st["failed"]:
                # still write evidence so the reader sees what happened; a violation of the tree itself wins over a self-test failure
                # (a bank mutant that re-breaks an already broken construct cannot produce a *new* report, which is not blindness)
                rc = finish(run, seed, selftest=st)
                if rc == 1:
                    for f in st["failed"]:
                        print(f"NOTE selftest (not judged on a violating tree) {f}")
                    return 1
                for f in st["failed"]:
                    print(f"ANALYSIS-ERROR selftest {f}")
                return 2
        return finish(run, seed, selftest=st)
    except Exception as e:  # noqa
        from sa.model import AnalysisError

        if isinstance(e, AnalysisError):
            print(f"ANALYSIS-ERROR property={prop} {e}")
        else:
            print(f"ANALYSIS-ERROR property={prop} analyser raised {type(e).__name__}: {e}")
            traceback.print_exc()
        return 2


if __name__ == "__main__":
    try:
        import signal
        signal.signal(signal.SIGPIPE, signal.SIG_DFL)  # `check.py ... | head` must not turn into a traceback
    except Exception:  # noqa
        pass
    sys.exit(main())
