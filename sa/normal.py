"""Source normal form applied to every module when it is loaded (before any rule sees it).

Each pass is an *equivalence transformation* of Python source, so a rule that holds on the normal form holds on the program.  The point is that
maintainers' spellings of the same thing meet in one form, and rules are written against that form only:

N1  negated identity / membership tests:  `not (a is b)` -> `a is not b`, `not (a is not b)` -> `a is b`, same for `in`; `not not x` in a test -> `x`;
    negations are pushed inwards through and/or in *test positions* (De Morgan; only truthiness is observable there).
N2  polarity of two-armed conditionals: an `if`/conditional expression that has an else arm is oriented so that its test is positive
    (`if not c: A else: B` -> `if c: B else: A`; `if x is not y: A else: B` -> `if x is y: B else: A`; for and/or tests the orientation with
    fewer negated operands is taken, the conjunction on a tie).  One-armed `if`s are left alone.
N3  return temporaries: `t = E; return t` (adjacent, `t` a plain local not captured by a nested scope) -> `return E`.
N9  keyword arguments of NumPy calls that spell the documented default (`np.copy(x, order="K")`, `x.astype(t, copy=True)`) are dropped.
N4  dead constant stores: `name = <constant>` to a local that is never read, deleted or declared global/nonlocal in the function is dropped
    (debug markers and the like); a function body emptied that way keeps a `pass`.
"""
from __future__ import annotations

import ast
import os
from typing import List

def _clone(n):
    """structural copy of an AST (sub)tree that does not follow the `_parent` back links the model attaches to nodes"""
    if isinstance(n, list):
        return [_clone(x) for x in n]
    if isinstance(n, ast.AST):
        new = type(n)()
        for f in n._fields:
            if hasattr(n, f):
                setattr(new, f, _clone(getattr(n, f)))
        for a in ("lineno", "col_offset", "end_lineno", "end_col_offset"):
            if hasattr(n, a):
                setattr(new, a, getattr(n, a))
        return new
    return n


_FLIP = {ast.Is: ast.IsNot, ast.IsNot: ast.Is, ast.In: ast.NotIn, ast.NotIn: ast.In}
_NEG_OPS = (ast.IsNot, ast.NotIn)


def _is_not(e):
    return isinstance(e, ast.UnaryOp) and isinstance(e.op, ast.Not)


def _negate(e: ast.expr) -> ast.expr:
    """the normal-form negation of a (normalised) test expression"""
    if _is_not(e):
        return e.operand
    if isinstance(e, ast.Compare) and len(e.ops) == 1 and type(e.ops[0]) in _FLIP:
        return ast.copy_location(ast.Compare(left=e.left, ops=[_FLIP[type(e.ops[0])]()], comparators=e.comparators), e)
    if isinstance(e, ast.BoolOp):
        op = ast.Or() if isinstance(e.op, ast.And) else ast.And()
        return ast.copy_location(ast.BoolOp(op=op, values=[_negate(v) for v in e.values]), e)
    return ast.copy_location(ast.UnaryOp(op=ast.Not(), operand=e), e)


def _test(e: ast.expr) -> ast.expr:
    """normal form of an expression in test position (only its truthiness is observable)"""
    if _is_not(e):
        inner = _test(e.operand)
        if _is_not(inner):
            return inner.operand
        if isinstance(inner, ast.BoolOp) or (isinstance(inner, ast.Compare) and len(inner.ops) == 1 and type(inner.ops[0]) in _FLIP):
            return _negate(inner)
        return ast.copy_location(ast.UnaryOp(op=ast.Not(), operand=inner), e)
    if isinstance(e, ast.BoolOp):
        e.values = [_test(v) for v in e.values]
        return e
    return e


def _negativity(e: ast.expr):
    """(number of negated operands, number of operands) of a normalised test"""
    if isinstance(e, ast.BoolOp):
        neg = sum(1 for v in e.values if _is_not(v) or (isinstance(v, ast.Compare) and len(v.ops) == 1 and isinstance(v.ops[0], _NEG_OPS)))
        return neg, len(e.values)
    if _is_not(e) or (isinstance(e, ast.Compare) and len(e.ops) == 1 and isinstance(e.ops[0], _NEG_OPS)):
        return 1, 1
    return 0, 1


def _should_swap(test: ast.expr) -> bool:
    neg, n = _negativity(test)
    if isinstance(test, ast.BoolOp):
        if 2 * neg > n:
            return True
        if 2 * neg == n:
            return isinstance(test.op, ast.Or)  # tie: prefer the conjunction
        return False
    return neg == 1


class _Normal(ast.NodeTransformer):
    def visit_UnaryOp(self, node):
        self.generic_visit(node)
        if isinstance(node.op, ast.Not):
            inner = node.operand
            if isinstance(inner, ast.Compare) and len(inner.ops) == 1 and type(inner.ops[0]) in _FLIP:
                return _negate(inner)
            if _is_not(inner) and _is_not(inner.operand):
                return inner.operand  # not not not x -> not x
            return ast.copy_location(_test(node), node)
        return node

    def visit_If(self, node):
        self.generic_visit(node)
        node.test = _test(node.test)
        if node.orelse and _should_swap(node.test):
            node.test = _negate(node.test)
            node.body, node.orelse = node.orelse, node.body
        return node

    def visit_IfExp(self, node):
        self.generic_visit(node)
        node.test = _test(node.test)
        if _should_swap(node.test):
            node.test = _negate(node.test)
            node.body, node.orelse = node.orelse, node.body
        return node

    def visit_While(self, node):
        self.generic_visit(node)
        node.test = _test(node.test)
        return node

    def visit_Assert(self, node):
        self.generic_visit(node)
        node.test = _test(node.test)
        return node


def _captured_names(fn) -> set:
    out = set()
    for n in ast.walk(fn):
        if n is fn:
            continue
        if isinstance(n, (ast.FunctionDef, ast.AsyncFunctionDef, ast.Lambda, ast.ClassDef, ast.GeneratorExp, ast.ListComp, ast.SetComp, ast.DictComp)):
            for m in ast.walk(n):
                if isinstance(m, ast.Name):
                    out.add(m.id)
    return out


def _scoped_decls(fn) -> set:
    out = set()
    for n in ast.walk(fn):
        if isinstance(n, (ast.Global, ast.Nonlocal)):
            out.update(n.names)
    return out


def _return_temps(fn):
    captured = _captured_names(fn) | _scoped_decls(fn)

    def block(stmts: List[ast.stmt]) -> List[ast.stmt]:
        out: List[ast.stmt] = []
        for s in stmts:
            for f in ("body", "orelse", "finalbody"):
                v = getattr(s, f, None)
                if isinstance(v, list) and v and isinstance(v[0], ast.stmt) and not isinstance(s, (ast.FunctionDef, ast.AsyncFunctionDef, ast.ClassDef)):
                    setattr(s, f, block(v))
            if isinstance(s, ast.Try):
                for h in s.handlers:
                    h.body = block(h.body)
            if (isinstance(s, ast.Return) and isinstance(s.value, ast.Name) and out and isinstance(out[-1], ast.Assign)
                    and len(out[-1].targets) == 1 and isinstance(out[-1].targets[0], ast.Name) and out[-1].targets[0].id == s.value.id
                    and s.value.id not in captured):
                prev = out.pop()
                out.append(ast.copy_location(ast.Return(value=prev.value), prev))
                continue
            out.append(s)
        return out

    fn.body = block(fn.body)


def _dead_constant_stores(fn):
    captured = _captured_names(fn) | _scoped_decls(fn)
    loads, stores = {}, {}
    for n in ast.walk(fn):
        if isinstance(n, ast.Name):
            d = loads if isinstance(n.ctx, (ast.Load, ast.Del)) else stores
            d[n.id] = d.get(n.id, 0) + 1
    params = {a.arg for a in fn.args.posonlyargs + fn.args.args + fn.args.kwonlyargs}
    if fn.args.vararg:
        params.add(fn.args.vararg.arg)
    if fn.args.kwarg:
        params.add(fn.args.kwarg.arg)
    dead = {nm for nm in stores if nm not in loads and nm not in captured and nm not in params}
    if not dead:
        return

    def block(stmts):
        out = []
        for s in stmts:
            for f in ("body", "orelse", "finalbody"):
                v = getattr(s, f, None)
                if isinstance(v, list) and v and isinstance(v[0], ast.stmt) and not isinstance(s, (ast.FunctionDef, ast.AsyncFunctionDef, ast.ClassDef)):
                    setattr(s, f, block(v) or [ast.copy_location(ast.Pass(), s)])
            if isinstance(s, ast.Try):
                for h in s.handlers:
                    h.body = block(h.body) or [ast.copy_location(ast.Pass(), h)]
            if (isinstance(s, ast.Assign) and len(s.targets) == 1 and isinstance(s.targets[0], ast.Name) and s.targets[0].id in dead
                    and isinstance(s.value, ast.Constant)):
                continue
            out.append(s)
        return out

    fn.body = block(fn.body) or [ast.copy_location(ast.Pass(), fn)]


class _Lower(ast.NodeTransformer):
    """N5  nested one-armed conditionals: `if a: (only statement) if b: X` (no else on either) -> `if a and b: X`.
    N6  statement-level conditional expressions: `t = A if c else B` -> `if c: t = A / else: t = B`, `return A if c else B` likewise
        (the target is evaluated after the value in both forms; paths become visible to the CFG rules)."""

    def visit_If(self, node):
        self.generic_visit(node)
        while not node.orelse and len(node.body) == 1 and isinstance(node.body[0], ast.If) and not node.body[0].orelse:
            inner = node.body[0]
            vals = (node.test.values if isinstance(node.test, ast.BoolOp) and isinstance(node.test.op, ast.And) else [node.test]) + \
                   (inner.test.values if isinstance(inner.test, ast.BoolOp) and isinstance(inner.test.op, ast.And) else [inner.test])
            node.test = ast.copy_location(ast.BoolOp(op=ast.And(), values=vals), node.test)
            node.body = inner.body
        return node

    def visit_Assign(self, node):
        self.generic_visit(node)
        if os.environ.get("SA_NO_N6") != "1" and isinstance(node.value, ast.IfExp) and len(node.targets) == 1 and isinstance(node.targets[0], (ast.Name, ast.Attribute)) \
                and (isinstance(node.targets[0], ast.Name) or isinstance(node.targets[0].value, ast.Name)):
            import copy as _copy
            v = node.value
            a = ast.copy_location(ast.Assign(targets=[_clone(node.targets[0])], value=v.body), node)
            b = ast.copy_location(ast.Assign(targets=[_clone(node.targets[0])], value=v.orelse), node)
            return ast.copy_location(ast.If(test=v.test, body=[self.visit_Assign(a)], orelse=[self.visit_Assign(b)]), node)
        return node

    def visit_Return(self, node):
        self.generic_visit(node)
        if os.environ.get("SA_NO_N6") != "1" and isinstance(node.value, ast.IfExp):
            v = node.value
            a = ast.copy_location(ast.Return(value=v.body), node)
            b = ast.copy_location(ast.Return(value=v.orelse), node)
            return ast.copy_location(ast.If(test=v.test, body=[self.visit_Return(a)], orelse=[self.visit_Return(b)]), node)
        return node

    def visit_Lambda(self, node):
        return node


def _flatten_stmt_lists(tree):
    return tree


def _simple(e) -> bool:
    return isinstance(e, (ast.Name, ast.Constant)) or (isinstance(e, ast.Attribute) and _simple(e.value)) or (isinstance(e, ast.Starred) and _simple(e.value))


def _atom(e) -> bool:
    return isinstance(e, (ast.Name, ast.Constant)) or (isinstance(e, ast.Starred) and isinstance(e.value, ast.Name))


_PURE_ROOTS = {"np", "numpy", "math", "numbers", "operator"}
_PURE_BUILTINS = {"len", "tuple", "list", "dict", "set", "frozenset", "range", "int", "float", "bool", "str", "isinstance", "issubclass", "type",
                  "sorted", "reversed", "zip", "enumerate", "min", "max", "sum", "abs", "any", "all", "slice", "id", "getattr", "hasattr", "repr",
                  "divmod", "round", "callable", "iter"}
_PURE_METHODS = {"astype", "copy", "reshape", "ravel", "flatten", "transpose", "sum", "mean", "var", "std", "prod", "view", "squeeze", "item",
                 "tolist", "any", "all", "max", "min", "argmax", "argmin", "cumsum", "cumprod", "dot", "conj", "swapaxes", "is_integer", "keys",
                 "values", "items", "get", "index", "count", "format", "join", "split", "startswith", "endswith", "nonzero", "round", "clip", "repeat",
                 "take", "diagonal", "trace", "byteswap", "newbyteorder"}


def _rebind_free(e: ast.expr) -> bool:
    """E cannot *rebind* an attribute of a repository object: its calls are to NumPy / math / pure builtins or read-only ndarray/dict/str methods.
    (Mutating an object in place is harmless here: an attribute load evaluated before or after E yields the same reference.)"""
    for n in ast.walk(e):
        if isinstance(n, (ast.NamedExpr, ast.Await, ast.Yield, ast.YieldFrom, ast.Lambda)):
            return False
        if isinstance(n, ast.Call):
            f = n.func
            if isinstance(f, ast.Name):
                if f.id not in _PURE_BUILTINS:
                    return False
            elif isinstance(f, ast.Attribute):
                root = f
                while isinstance(root, ast.Attribute):
                    root = root.value
                if isinstance(root, ast.Name) and root.id in _PURE_ROOTS:
                    continue
                if f.attr not in _PURE_METHODS:
                    return False
            else:
                return False
    return True


def _first_use_slot(top: ast.expr, nm: str, _atom=None):
    """If the (single) load of `nm` in expression `top` is evaluated before anything that is not a plain name / attribute chain / constant,
    return a setter that replaces it; else None.  Left-to-right evaluation order of Python expressions."""
    def is_nm(e):
        return isinstance(e, ast.Name) and e.id == nm

    _atom = _atom or globals()["_atom"]
    if isinstance(top, ast.Call):
        if is_nm(top.func):
            return lambda v: setattr(top, "func", v)   # the callee is evaluated first
        if isinstance(top.func, ast.Attribute) and is_nm(top.func.value):
            return lambda v: setattr(top.func, "value", v)
        if not _simple(top.func):
            return None
        # operands evaluated before the use must be plain names / constants (an attribute load could observe a mutation made by E)
        for i, a in enumerate(top.args):
            if is_nm(a):
                return lambda v, i=i: top.args.__setitem__(i, v)
            if isinstance(a, ast.Starred) and is_nm(a.value):
                return lambda v, a=a: setattr(a, "value", v)
            if not _atom(a):
                return None
        for k in top.keywords:
            if is_nm(k.value):
                return lambda v, k=k: setattr(k, "value", v)
            if not _atom(k.value):
                return None
        return None
    if isinstance(top, ast.Attribute) and is_nm(top.value):
        return lambda v: setattr(top, "value", v)
    if isinstance(top, ast.Subscript) and is_nm(top.value):
        return lambda v: setattr(top, "value", v)
    if isinstance(top, ast.BinOp):
        if is_nm(top.left):
            return lambda v: setattr(top, "left", v)
        if _atom(top.left) and is_nm(top.right):
            return lambda v: setattr(top, "right", v)
        return None
    if isinstance(top, ast.UnaryOp) and is_nm(top.operand):
        return lambda v: setattr(top, "operand", v)
    if isinstance(top, (ast.Tuple, ast.List)):
        for i, a in enumerate(top.elts):
            if is_nm(a):
                return lambda v, i=i: top.elts.__setitem__(i, v)
            if not _atom(a):
                return None
    return None


def _single_use_temps(fn):
    """N7  explaining variables: `t = E` immediately followed by a simple statement that reads `t` exactly once, as the first thing it evaluates
    apart from plain names, where `t` is a local stored once and read once in the whole function and not captured -> the read is replaced by E."""
    captured = _captured_names(fn) | _scoped_decls(fn)
    loads, stores = {}, {}
    for n in ast.walk(fn):
        if isinstance(n, ast.Name):
            d = loads if isinstance(n.ctx, ast.Load) else stores
            d[n.id] = d.get(n.id, 0) + 1
    params = {a.arg for a in fn.args.posonlyargs + fn.args.args + fn.args.kwonlyargs}
    cands = {k for k in stores if stores[k] == 1 and loads.get(k, 0) == 1 and k not in captured and k not in params}
    # a temporary name re-used for several such pairs: every store is a block-level `t = E` directly followed by a statement holding exactly
    # one read of t, and there are no other reads -> each pair is independent
    multi = {k for k in stores if stores[k] > 1 and loads.get(k, 0) == stores[k] and k not in captured and k not in params}
    if multi:
        good = {k: 0 for k in multi}

        def scan(stmts):
            for i, st in enumerate(stmts):
                for f in ("body", "orelse", "finalbody"):
                    v = getattr(st, f, None)
                    if isinstance(v, list) and v and isinstance(v[0], ast.stmt) and not isinstance(st, (ast.FunctionDef, ast.AsyncFunctionDef, ast.ClassDef)):
                        scan(v)
                if isinstance(st, ast.Try):
                    for h in st.handlers:
                        scan(h.body)
                if isinstance(st, ast.Assign) and len(st.targets) == 1 and isinstance(st.targets[0], ast.Name) and st.targets[0].id in good \
                        and i + 1 < len(stmts) and isinstance(stmts[i + 1], (ast.Assign, ast.Return, ast.Expr)):
                    k = st.targets[0].id
                    n_reads = sum(1 for x in ast.walk(stmts[i + 1]) if isinstance(x, ast.Name) and x.id == k and isinstance(x.ctx, ast.Load))
                    n_here = sum(1 for x in ast.walk(st.value) if isinstance(x, ast.Name) and x.id == k)
                    if n_reads == 1 and n_here == 0:
                        good[k] += 1
        scan(fn.body)
        cands |= {k for k in multi if good[k] == stores[k]}
    if not cands:
        return

    def block(stmts):
        out = []
        for s in stmts:
            for f in ("body", "orelse", "finalbody"):
                v = getattr(s, f, None)
                if isinstance(v, list) and v and isinstance(v[0], ast.stmt) and not isinstance(s, (ast.FunctionDef, ast.AsyncFunctionDef, ast.ClassDef)):
                    setattr(s, f, block(v))
            if isinstance(s, ast.Try):
                for h in s.handlers:
                    h.body = block(h.body)
            prev = out[-1] if out else None
            if (prev is not None and isinstance(prev, ast.Assign) and len(prev.targets) == 1 and isinstance(prev.targets[0], ast.Name)
                    and prev.targets[0].id in cands and isinstance(s, ast.If)
                    and sum(1 for x in ast.walk(s.test) if isinstance(x, ast.Name) and x.id == prev.targets[0].id) == 1):
                # `t = E` / `if t ...:` -- the temporary is the first thing the test evaluates
                nm = prev.targets[0].id

                def lm(e):
                    if isinstance(e, ast.Name) and e.id == nm:
                        return True, None
                    if isinstance(e, ast.UnaryOp) and isinstance(e.op, ast.Not):
                        ok_, st_ = lm(e.operand)
                        return ok_, (st_ if st_ is not None else (lambda v, e=e: setattr(e, "operand", v))) if ok_ else None
                    if isinstance(e, ast.BoolOp):
                        ok_, st_ = lm(e.values[0])
                        return ok_, (st_ if st_ is not None else (lambda v, e=e: e.values.__setitem__(0, v))) if ok_ else None
                    if isinstance(e, ast.Compare):
                        ok_, st_ = lm(e.left)
                        return ok_, (st_ if st_ is not None else (lambda v, e=e: setattr(e, "left", v))) if ok_ else None
                    return False, None
                ok_, st_ = lm(s.test)
                if ok_:
                    if st_ is None:
                        s.test = prev.value
                    else:
                        st_(prev.value)
                    out.pop()
                out.append(s)
                continue
            if (prev is not None and isinstance(prev, ast.Assign) and len(prev.targets) == 1 and isinstance(prev.targets[0], ast.Name)
                    and prev.targets[0].id in cands and isinstance(s, (ast.Assign, ast.Return, ast.Expr)) and s.value is not None
                    and not (isinstance(s, ast.Assign) and any(isinstance(x, ast.Name) and x.id == prev.targets[0].id for t in s.targets for x in ast.walk(t)))):
                # (an assignment evaluates its value before the sub-expressions of its target, so the target's shape does not matter)
                nm = prev.targets[0].id
                if isinstance(s.value, ast.Name) and s.value.id == nm:
                    s.value = prev.value
                    out.pop()
                else:
                    setter = _first_use_slot(s.value, nm, _simple if _rebind_free(prev.value) else None)
                    if setter is not None:
                        setter(prev.value)
                        out.pop()
            out.append(s)
        return out

    fn.body = block(fn.body)


def _pure_test_expr(e: ast.expr) -> bool:
    for n in ast.walk(e):
        if isinstance(n, (ast.NamedExpr, ast.Await, ast.Yield, ast.YieldFrom, ast.Lambda)):
            return False
        if isinstance(n, ast.Call):
            f = n.func
            if isinstance(f, ast.Name) and f.id in ("isinstance", "issubclass", "hasattr", "len", "callable", "type", "all", "any"):
                continue
            if isinstance(f, ast.Attribute) and isinstance(f.value, ast.Name) and f.value.id in ("np", "numpy") and f.attr in ("issubdtype", "isscalar", "ndim", "shape"):
                continue
            return False
    return True


def _bool_aliases(fn):
    """N11  aliases of a guard: `b = <pure test expression or attribute chain>` directly followed by if statements, `b` stored once and read only
    in their tests -- the if/elif chain that starts there and the following `if`s while every earlier arm leaves the block -- where nothing but
    the earlier tests has been evaluated since the definition -> every read is replaced by the expression."""
    stores, loads = {}, {}
    for n in ast.walk(fn):
        if isinstance(n, ast.Name):
            d = loads if isinstance(n.ctx, ast.Load) else stores
            d[n.id] = d.get(n.id, 0) + 1
    captured = _captured_names(fn) | _scoped_decls(fn)

    def chain_tests(ifst):
        out = []
        cur = ifst
        while isinstance(cur, ast.If):
            out.append(cur)
            cur = cur.orelse[0] if len(cur.orelse) == 1 and isinstance(cur.orelse[0], ast.If) else None
        return out

    def _terminates(body):
        return bool(body) and isinstance(body[-1], (ast.Return, ast.Raise, ast.Continue, ast.Break))

    def following_tests(stmts, i):
        """the tests evaluated, with nothing else in between, after statement i: the if/elif chain that starts at i+1, and the chains of the
        directly following `if` statements as long as every arm before them leaves the block (return / raise / continue / break)"""
        links = []
        j = i + 1
        while j < len(stmts) and isinstance(stmts[j], ast.If):
            chain = chain_tests(stmts[j])
            links.extend(chain)
            last = chain[-1]
            if not (all(_terminates(l.body) for l in chain) and (not last.orelse or _terminates(last.orelse))):
                break
            if last.orelse:
                break  # every path has left the block
            j += 1
        return links

    def block(stmts):
        out = []
        i = 0
        while i < len(stmts):
            s = stmts[i]
            for f in ("body", "orelse", "finalbody"):
                v = getattr(s, f, None)
                if isinstance(v, list) and v and isinstance(v[0], ast.stmt) and not isinstance(s, (ast.FunctionDef, ast.AsyncFunctionDef, ast.ClassDef)):
                    setattr(s, f, block(v))
            if isinstance(s, ast.Try):
                for h in s.handlers:
                    h.body = block(h.body)
            nxt = stmts[i + 1] if i + 1 < len(stmts) else None
            if (isinstance(s, ast.Assign) and len(s.targets) == 1 and isinstance(s.targets[0], ast.Name) and isinstance(nxt, ast.If)
                    and stores.get(s.targets[0].id) == 1 and s.targets[0].id not in captured and _pure_test_expr(s.value)
                    and (isinstance(s.value, (ast.BoolOp, ast.Compare, ast.Call, ast.UnaryOp))
                         or (isinstance(s.value, ast.Attribute) and _simple(s.value)))):
                nm = s.targets[0].id
                links = following_tests(stmts, i)
                in_tests = sum(1 for l in links for x in ast.walk(l.test) if isinstance(x, ast.Name) and x.id == nm)
                # ... and reads that are the first thing an arm of those conditionals evaluates (still nothing but tests has run)
                arm_slots = []
                arms = [l.body for l in links] + ([links[-1].orelse] if links and links[-1].orelse else [])
                for body in arms:
                    st0 = body[0] if body else None
                    if isinstance(st0, (ast.Assign, ast.Return, ast.Expr)) and getattr(st0, "value", None) is not None and \
                            sum(1 for x in ast.walk(st0) if isinstance(x, ast.Name) and x.id == nm) == 1:
                        if isinstance(st0.value, ast.Name) and st0.value.id == nm:
                            arm_slots.append(lambda v, st0=st0: setattr(st0, "value", v))
                        else:
                            sl = _first_use_slot(st0.value, nm, _simple)
                            if sl is not None:
                                arm_slots.append(sl)
                if in_tests and in_tests + len(arm_slots) == loads.get(nm, 0):
                    class Sub(ast.NodeTransformer):
                        def visit_Name(self, node):
                            if node.id == nm and isinstance(node.ctx, ast.Load):
                                return _clone(s.value)
                            return node
                    for l in links:
                        l.test = Sub().visit(l.test)
                    for sl in arm_slots:
                        sl(_clone(s.value))
                    i += 1
                    continue
            out.append(s)
            i += 1
        return out

    fn.body = block(fn.body)


def _unroll_literal_dictcomps(fn):
    """N12  a dictionary built by a comprehension over a *literal table*:  `t = {k: v for k, v in (("a", a), ("b", b)) if c(v)}`  ->
    `t = {}` followed by `if c(a): t["a"] = a`, `if c(b): t["b"] = b` (the table's entries are plain names / constants / attribute chains, so
    evaluating them one at a time instead of all up front changes nothing)."""
    import copy as _copy

    def unroll(st):
        if not (isinstance(st, ast.Assign) and len(st.targets) == 1 and isinstance(st.targets[0], ast.Name) and isinstance(st.value, ast.DictComp)):
            return None
        dc = st.value
        if len(dc.generators) != 1 or dc.generators[0].is_async:
            return None
        g = dc.generators[0]
        it = g.iter
        drop = None
        if isinstance(it, ast.Name) and tables.get(it.id) is not None:
            drop = tables[it.id]
            it = drop.value
        if not isinstance(it, (ast.Tuple, ast.List)):
            return None
        tgt = g.target
        names = [tgt.id] if isinstance(tgt, ast.Name) else ([e.id for e in tgt.elts] if isinstance(tgt, ast.Tuple) and all(isinstance(e, ast.Name) for e in tgt.elts) else None)
        if names is None:
            return None
        rows = []
        for el in it.elts:
            vals = [el] if isinstance(tgt, ast.Name) else (list(el.elts) if isinstance(el, (ast.Tuple, ast.List)) and len(el.elts) == len(names) else None)
            if vals is None or not all(_simple(v) for v in vals):
                return None
            rows.append(dict(zip(names, vals)))
        tname = st.targets[0].id
        if tname in names or any(isinstance(x, ast.Name) and x.id == tname for x in ast.walk(dc)):
            return None
        out = [ast.copy_location(ast.Assign(targets=[ast.Name(id=tname, ctx=ast.Store())], value=ast.Dict(keys=[], values=[])), st)]
        if drop is not None:
            dropped.add(id(drop))
        for row in rows:
            class Sub(ast.NodeTransformer):
                def visit_Name(self, node):
                    if node.id in row and isinstance(node.ctx, ast.Load):
                        return _clone(row[node.id])
                    return node
            key = Sub().visit(_clone(dc.key))
            val = Sub().visit(_clone(dc.value))
            store = ast.copy_location(ast.Assign(targets=[ast.Subscript(value=ast.Name(id=tname, ctx=ast.Load()), slice=key, ctx=ast.Store())], value=val), st)
            conds = [Sub().visit(_clone(c)) for c in g.ifs]
            if conds:
                test = conds[0] if len(conds) == 1 else ast.BoolOp(op=ast.And(), values=conds)
                out.append(ast.copy_location(ast.If(test=test, body=[store], orelse=[]), st))
            else:
                out.append(store)
        return out

    def block(stmts):
        out = []
        for s in stmts:
            for f in ("body", "orelse", "finalbody"):
                v = getattr(s, f, None)
                if isinstance(v, list) and v and isinstance(v[0], ast.stmt) and not isinstance(s, (ast.FunctionDef, ast.AsyncFunctionDef, ast.ClassDef)):
                    setattr(s, f, block(v))
            if isinstance(s, ast.Try):
                for h in s.handlers:
                    h.body = block(h.body)
            r = unroll(s)
            if r is not None:
                out.extend(r)
            else:
                out.append(s)
        return out

    def purge(stmts):
        out = []
        for s in stmts:
            if id(s) in dropped:
                continue
            for f in ("body", "orelse", "finalbody"):
                v = getattr(s, f, None)
                if isinstance(v, list) and v and isinstance(v[0], ast.stmt) and not isinstance(s, (ast.FunctionDef, ast.AsyncFunctionDef, ast.ClassDef)):
                    setattr(s, f, purge(v) or [ast.copy_location(ast.Pass(), s)])
            if isinstance(s, ast.Try):
                for h in s.handlers:
                    h.body = purge(h.body) or [ast.copy_location(ast.Pass(), h)]
            out.append(s)
        return out

    # a literal table bound to a local that is stored once and read once (by the comprehension)
    loads, stores = {}, {}
    for n in ast.walk(fn):
        if isinstance(n, ast.Name):
            d = loads if isinstance(n.ctx, ast.Load) else stores
            d[n.id] = d.get(n.id, 0) + 1
    tables = {}
    for n in ast.walk(fn):
        if isinstance(n, ast.Assign) and len(n.targets) == 1 and isinstance(n.targets[0], ast.Name) and isinstance(n.value, (ast.Tuple, ast.List)) \
                and stores.get(n.targets[0].id) == 1 and loads.get(n.targets[0].id) == 1:
            tables[n.targets[0].id] = n
    dropped: set = set()
    fn.body = block(fn.body)
    if dropped:
        fn.body = purge(fn.body)


def _function_aliases(fn):
    """N16  a local bound once to a dotted name rooted at a module alias (`writer = np.savez`) and only ever *called* (or passed on) afterwards:
    every read is replaced by the dotted name (looking the attribute up later instead of earlier yields the same object)."""
    stores, loads = {}, {}
    for n in ast.walk(fn):
        if isinstance(n, ast.Name):
            d = loads if isinstance(n.ctx, ast.Load) else stores
            d[n.id] = d.get(n.id, 0) + 1
    captured = _captured_names(fn) | _scoped_decls(fn)
    params = {a.arg for a in fn.args.posonlyargs + fn.args.args + fn.args.kwonlyargs}
    alias = {}
    defs = {}
    for n in ast.walk(fn):
        if isinstance(n, ast.Assign) and len(n.targets) == 1 and isinstance(n.targets[0], ast.Name) and isinstance(n.value, ast.Attribute):
            root = n.value
            while isinstance(root, ast.Attribute):
                root = root.value
            nm = n.targets[0].id
            if isinstance(root, ast.Name) and root.id in ("np", "numpy") and stores.get(nm) == 1 and nm not in captured and nm not in params and loads.get(nm, 0) >= 1:
                alias[nm] = n.value
                defs[id(n)] = True
    if not alias:
        return
    import copy as _copy

    class Sub(ast.NodeTransformer):
        def visit_Name(self, node):
            if isinstance(node.ctx, ast.Load) and node.id in alias:
                return ast.copy_location(_clone(alias[node.id]), node)
            return node

    def block(stmts):
        out = []
        for s in stmts:
            if id(s) in defs:
                continue
            for f in ("body", "orelse", "finalbody"):
                v = getattr(s, f, None)
                if isinstance(v, list) and v and isinstance(v[0], ast.stmt) and not isinstance(s, (ast.FunctionDef, ast.AsyncFunctionDef, ast.ClassDef)):
                    setattr(s, f, block(v) or [ast.copy_location(ast.Pass(), s)])
            if isinstance(s, ast.Try):
                for h in s.handlers:
                    h.body = block(h.body) or [ast.copy_location(ast.Pass(), h)]
            out.append(s)
        return out
    fn.body = block(fn.body) or [ast.copy_location(ast.Pass(), fn)]
    fn.body = [Sub().visit(b) for b in fn.body]


def _loops_to_comprehensions(fn):
    """N18  the accumulate-by-append loop:  `acc = []` directly followed by `for v in it: [if c:] acc.append(E)` (nothing else in the loop, `acc`
    mentioned nowhere in it, c or E)  ->  `acc = [E for v in it if c]`; and when the next statement is `t = tuple(acc)` / `list(acc)` and `acc` is
    used nowhere else  ->  `t = tuple(E for v in it if c)`."""
    uses = {}
    for n in ast.walk(fn):
        if isinstance(n, ast.Name):
            uses[n.id] = uses.get(n.id, 0) + 1

    def mentions(e, nm):
        return any(isinstance(x, ast.Name) and x.id == nm for x in ast.walk(e))

    def block(stmts):
        for s in stmts:
            for f in ("body", "orelse", "finalbody"):
                v = getattr(s, f, None)
                if isinstance(v, list) and v and isinstance(v[0], ast.stmt) and not isinstance(s, (ast.FunctionDef, ast.AsyncFunctionDef, ast.ClassDef)):
                    setattr(s, f, block(v))
            if isinstance(s, ast.Try):
                for h in s.handlers:
                    h.body = block(h.body)
        out = []
        i = 0
        while i < len(stmts):
            s = stmts[i]
            nxt = stmts[i + 1] if i + 1 < len(stmts) else None
            done = False
            if (isinstance(s, ast.Assign) and len(s.targets) == 1 and isinstance(s.targets[0], ast.Name)
                    and ((isinstance(s.value, ast.List) and not s.value.elts) or (isinstance(s.value, ast.Call) and isinstance(s.value.func, ast.Name)
                                                                                     and s.value.func.id == "list" and not s.value.args and not s.value.keywords))
                    and isinstance(nxt, ast.For) and not nxt.orelse and len(nxt.body) == 1):
                acc = s.targets[0].id
                inner = nxt.body[0]
                conds = []
                while isinstance(inner, ast.If) and not inner.orelse and len(inner.body) == 1:
                    conds.append(inner.test)
                    inner = inner.body[0]
                if (isinstance(inner, ast.Expr) and isinstance(inner.value, ast.Call) and isinstance(inner.value.func, ast.Attribute)
                        and inner.value.func.attr == "append" and isinstance(inner.value.func.value, ast.Name) and inner.value.func.value.id == acc
                        and len(inner.value.args) == 1 and not inner.value.keywords
                        and not mentions(inner.value.args[0], acc) and not mentions(nxt.iter, acc) and not any(mentions(c, acc) for c in conds)
                        and not any(isinstance(x, (ast.Yield, ast.YieldFrom, ast.Await, ast.NamedExpr)) for x in ast.walk(nxt))):
                    gen = ast.comprehension(target=nxt.target, iter=nxt.iter, ifs=conds, is_async=0)
                    aft = stmts[i + 2] if i + 2 < len(stmts) else None
                    if (isinstance(aft, ast.Assign) and len(aft.targets) == 1 and isinstance(aft.value, ast.Call) and isinstance(aft.value.func, ast.Name)
                            and aft.value.func.id in ("tuple", "list") and len(aft.value.args) == 1 and not aft.value.keywords
                            and isinstance(aft.value.args[0], ast.Name) and aft.value.args[0].id == acc and uses.get(acc, 0) == 3):
                        if aft.value.func.id == "tuple":
                            aft.value.args[0] = ast.copy_location(ast.GeneratorExp(elt=inner.value.args[0], generators=[gen]), s)
                        else:
                            aft.value = ast.copy_location(ast.ListComp(elt=inner.value.args[0], generators=[gen]), s)
                        out.append(aft)
                        i += 3
                        done = True
                    else:
                        s.value = ast.copy_location(ast.ListComp(elt=inner.value.args[0], generators=[gen]), s)
                        out.append(s)
                        i += 2
                        done = True
            if not done:
                out.append(s)
                i += 1
        return out

    fn.body = block(fn.body)


def _projection_aliases(fn):
    """N22  a local that caches an attribute chain (`out_data = tensor_out.data`, `base = arr.base`): bound exactly once, to `<name>.<a>.<b>...`, where
    the root name is a parameter or a local bound exactly once *before* it, and no attribute of the chain is ever stored to in this function (by
    any receiver), nor does the function re-seat attribute dictionaries (mirror_tensor / __dict__ / setattr) -> every read of the local is
    replaced by the chain.  Side condition stated in DESIGN 11.10: callees of this code base do not rebind an attribute that their caller never
    stores itself."""
    stores, loads = {}, {}
    first_store_line = {}
    attr_stores = set()
    for n in ast.walk(fn):
        if isinstance(n, ast.Name):
            if isinstance(n.ctx, ast.Load):
                loads[n.id] = loads.get(n.id, 0) + 1
            else:
                stores[n.id] = stores.get(n.id, 0) + 1
                first_store_line.setdefault(n.id, getattr(n, "lineno", 0))
        elif isinstance(n, ast.Attribute) and isinstance(n.ctx, (ast.Store, ast.Del)):
            attr_stores.add(n.attr)
        elif isinstance(n, ast.Call):
            f = n.func
            nm = f.id if isinstance(f, ast.Name) else (f.attr if isinstance(f, ast.Attribute) else "")
            if nm in ("mirror_tensor", "setattr", "delattr", "__setattr__", "update") and (nm != "update" or "__dict__" in ast.dump(f)):
                return
        elif isinstance(n, ast.Attribute) and n.attr == "__dict__" and isinstance(n.ctx, ast.Store):
            return
    captured = _captured_names(fn) | _scoped_decls(fn)
    params = {a.arg for a in fn.args.posonlyargs + fn.args.args + fn.args.kwonlyargs}
    alias = {}
    defs = set()
    for n in ast.walk(fn):
        if not (isinstance(n, ast.Assign) and len(n.targets) == 1 and isinstance(n.targets[0], ast.Name) and isinstance(n.value, ast.Attribute)):
            continue
        nm = n.targets[0].id
        chain, root = [], n.value
        while isinstance(root, ast.Attribute):
            chain.append(root.attr)
            root = root.value
        if not isinstance(root, ast.Name) or root.id == nm:
            continue
        if stores.get(nm) != 1 or nm in captured or nm in params or loads.get(nm, 0) < 2:
            continue   # single reads are N7's business
        if root.id in ("np", "numpy", "self") and root.id != "self":
            continue
        root_ok = (root.id in params and stores.get(root.id, 0) == 0) or (stores.get(root.id, 0) == 1 and first_store_line.get(root.id, 1 << 30) < n.lineno
                                                                           and root.id not in captured)
        if not root_ok:
            continue
        if any(a in attr_stores for a in chain) or any(a.startswith("__") for a in chain):
            continue
        alias[nm] = n.value
        defs.add(id(n))
    if not alias:
        return

    class Sub(ast.NodeTransformer):
        def visit_Name(self, node):
            if isinstance(node.ctx, ast.Load) and node.id in alias:
                return ast.copy_location(_clone(alias[node.id]), node)
            return node

    # an alias of an alias (`base = arr.base` with `arr = t.data`): expand the cached chains themselves first
    for _ in range(4):
        changed = False
        for k in list(alias):
            if any(isinstance(x, ast.Name) and x.id in alias for x in ast.walk(alias[k])):
                alias[k] = Sub().visit(_clone(alias[k]))
                changed = True
        if not changed:
            break

    def block(stmts):
        out = []
        for s in stmts:
            if id(s) in defs:
                continue
            for f in ("body", "orelse", "finalbody"):
                v = getattr(s, f, None)
                if isinstance(v, list) and v and isinstance(v[0], ast.stmt) and not isinstance(s, (ast.FunctionDef, ast.AsyncFunctionDef, ast.ClassDef)):
                    setattr(s, f, block(v) or [ast.copy_location(ast.Pass(), s)])
            if isinstance(s, ast.Try):
                for h in s.handlers:
                    h.body = block(h.body) or [ast.copy_location(ast.Pass(), h)]
            out.append(s)
        return out
    fn.body = block(fn.body) or [ast.copy_location(ast.Pass(), fn)]
    fn.body = [Sub().visit(b) for b in fn.body]


def _leftmost_walrus(test: ast.expr):
    """(NamedExpr node, setter) if an assignment expression is the very first thing the test evaluates"""
    if isinstance(test, ast.NamedExpr):
        return test, None
    if isinstance(test, ast.Compare) and isinstance(test.left, ast.NamedExpr):
        return test.left, lambda v: setattr(test, "left", v)
    if isinstance(test, ast.UnaryOp) and isinstance(test.op, ast.Not):
        r = _leftmost_walrus(test.operand)
        if r is not None:
            w, st = r
            return w, (st if st is not None else (lambda v: setattr(test, "operand", v)))
    if isinstance(test, ast.BoolOp):
        r = _leftmost_walrus(test.values[0])
        if r is not None:
            w, st = r
            return w, (st if st is not None else (lambda v: test.values.__setitem__(0, v)))
    if isinstance(test, ast.Call) and isinstance(test.func, ast.Name) and test.args and isinstance(test.args[0], ast.NamedExpr):
        return test.args[0], lambda v: test.args.__setitem__(0, v)
    return None


class _HoistWalrus(ast.NodeTransformer):
    """N10  `if (t := E) ...:` -> `t = E; if t ...:` when the assignment expression is the first thing the test evaluates (same for a lowered
    conditional expression); `while` tests are left alone (re-evaluated per iteration)."""

    def _block(self, stmts):
        out = []
        for s in stmts:
            s = self.visit(s)
            if isinstance(s, ast.If):
                while True:
                    r = _leftmost_walrus(s.test)
                    if r is None or not isinstance(r[0].target, ast.Name):
                        break
                    w, setter = r
                    out.append(ast.copy_location(ast.Assign(targets=[ast.Name(id=w.target.id, ctx=ast.Store())], value=w.value), s))
                    name = ast.copy_location(ast.Name(id=w.target.id, ctx=ast.Load()), w)
                    if setter is None:
                        s.test = name
                    else:
                        setter(name)
            out.append(s)
        return out

    def generic_visit(self, node):
        super().generic_visit(node)
        for f in ("body", "orelse", "finalbody"):
            v = getattr(node, f, None)
            if isinstance(v, list) and v and isinstance(v[0], ast.stmt):
                setattr(node, f, self._block_noreview(v))
        if isinstance(node, ast.Try):
            for h in node.handlers:
                h.body = self._block_noreview(h.body)
        return node

    def _block_noreview(self, stmts):
        out = []
        for s in stmts:
            if isinstance(s, ast.If):
                while True:
                    r = _leftmost_walrus(s.test)
                    if r is None or not isinstance(r[0].target, ast.Name):
                        break
                    w, setter = r
                    out.append(ast.copy_location(ast.Assign(targets=[ast.Name(id=w.target.id, ctx=ast.Store())], value=w.value), s))
                    name = ast.copy_location(ast.Name(id=w.target.id, ctx=ast.Load()), w)
                    if setter is None:
                        s.test = name
                    else:
                        setter(name)
            out.append(s)
        return out


class _FoldConst(ast.NodeTransformer):
    """N15b  comparisons / negations / and-or of literal constants (left behind when a parameter is specialised: `0 == 0`) are folded"""

    def visit_Compare(self, node):
        self.generic_visit(node)
        # N15b  a comparison between two literal constants (after a parameter was specialised: `0 == 0`) is folded
        if len(node.ops) == 1 and isinstance(node.left, ast.Constant) and isinstance(node.comparators[0], ast.Constant) \
                and isinstance(node.left.value, (int, float, bool, str, type(None))) and isinstance(node.comparators[0].value, (int, float, bool, str, type(None))):
            a_, b_, op = node.left.value, node.comparators[0].value, node.ops[0]
            try:
                v = {ast.Eq: lambda: a_ == b_, ast.NotEq: lambda: a_ != b_, ast.Lt: lambda: a_ < b_, ast.LtE: lambda: a_ <= b_, ast.Gt: lambda: a_ > b_,
                     ast.GtE: lambda: a_ >= b_, ast.Is: lambda: a_ is b_, ast.IsNot: lambda: a_ is not b_}.get(type(op), lambda: None)()
            except Exception:  # noqa
                v = None
            if isinstance(v, bool):
                return ast.copy_location(ast.Constant(value=v), node)
        return node

    def visit_UnaryOp(self, node):
        self.generic_visit(node)
        if isinstance(node.op, ast.Not) and isinstance(node.operand, ast.Constant) and isinstance(node.operand.value, bool):
            return ast.copy_location(ast.Constant(value=not node.operand.value), node)
        return node

    def visit_BoolOp(self, node):
        self.generic_visit(node)
        if all(isinstance(v, ast.Constant) and isinstance(v.value, bool) for v in node.values):
            vals = [v.value for v in node.values]
            return ast.copy_location(ast.Constant(value=all(vals) if isinstance(node.op, ast.And) else any(vals)), node)
        if isinstance(node.op, ast.And) and any(isinstance(v, ast.Constant) and v.value is False for v in node.values):
            return ast.copy_location(ast.Constant(value=False), node) if isinstance(node.values[0], ast.Constant) else node
        if isinstance(node.op, ast.Or) and isinstance(node.values[0], ast.Constant) and node.values[0].value is True:
            return ast.copy_location(ast.Constant(value=True), node)
        return node


class _Tidy(ast.NodeTransformer):
    """N8  no-op statements left behind by the inliner / by refactorings: `x = x` on a plain name is dropped; a conditional whose taken arm is
    empty is turned round (`if c: pass / else: B` -> `if not c: B`); a conditional with nothing in either arm keeps its test as an expression
    statement only if the test contains a call."""

    def _block(self, stmts):
        out = []
        for s0 in stmts:
            r = self.visit(s0)
            if r is None:
                continue
            for s in (r if isinstance(r, list) else [r]):
                if isinstance(s, ast.Assign) and len(s.targets) == 1 and isinstance(s.targets[0], ast.Name) and isinstance(s.value, ast.Name) \
                        and s.targets[0].id == s.value.id:
                    continue
                if isinstance(s, ast.Pass) and len(stmts) > 1:
                    continue
                out.append(s)
                if isinstance(s, (ast.Return, ast.Raise, ast.Continue, ast.Break)):
                    return out   # statements after it in this block are never executed
        return out

    def generic_visit(self, node):
        for f in ("body", "orelse", "finalbody"):
            v = getattr(node, f, None)
            if isinstance(v, list) and v and isinstance(v[0], ast.stmt):
                nb = self._block(v)
                if not nb and f == "body":
                    nb = [ast.copy_location(ast.Pass(), node)]
                setattr(node, f, nb)
        if isinstance(node, ast.Try):
            for h in node.handlers:
                h.body = self._block(h.body) or [ast.copy_location(ast.Pass(), h)]
        return node

    def visit_IfExp(self, node):
        self.generic_visit(node)
        if isinstance(node.test, ast.Constant):
            return node.body if node.test.value else node.orelse  # N15
        return node

    def visit_If(self, node):
        self.generic_visit(node)
        node.test = _FoldConst().visit(node.test)
        # N17  `if not c: raise AssertionError(msg)` is the statement `assert c, msg`
        if not node.orelse and len(node.body) == 1 and isinstance(node.body[0], ast.Raise) and node.body[0].cause is None:
            e = node.body[0].exc
            name = e.func if isinstance(e, ast.Call) else e
            if isinstance(name, ast.Name) and name.id == "AssertionError" and (not isinstance(e, ast.Call) or (len(e.args) <= 1 and not e.keywords)):
                msg = e.args[0] if isinstance(e, ast.Call) and e.args else None
                return ast.copy_location(ast.Assert(test=_negate(_test(node.test)), msg=msg), node)
        if isinstance(node.test, ast.Constant):
            # N15  a test that is a literal constant (after default specialisation): only the taken arm remains
            arm = node.body if node.test.value else node.orelse
            return list(arm) if arm else None
        empty = lambda b: all(isinstance(x, ast.Pass) for x in b)
        if empty(node.body) and node.orelse and not empty(node.orelse):
            node.test = _negate(_test(node.test))
            node.body, node.orelse = node.orelse, []
        elif empty(node.body) and (not node.orelse or empty(node.orelse)):
            if any(isinstance(x, ast.Call) for x in ast.walk(node.test)):
                node.orelse = []
                return node
            return None
        elif node.orelse and empty(node.orelse):
            node.orelse = []
        return node


# N9: keyword arguments of NumPy calls that spell the documented default (numpy 1.2x / 2.x)
_NP_DEFAULTS = {
    "copy": {"order": "K", "subok": False},
    "array": {"copy": True, "order": "K", "subok": False, "ndmin": 0, "dtype": None},
    "asarray": {"dtype": None, "order": None},
    "ascontiguousarray": {"dtype": None},
    "zeros_like": {"dtype": None, "order": "K", "subok": True, "shape": None},
    "ones_like": {"dtype": None, "order": "K", "subok": True, "shape": None},
    "empty_like": {"dtype": None, "order": "K", "subok": True, "shape": None},
    "full_like": {"dtype": None, "order": "K", "subok": True, "shape": None},
}
_METHOD_DEFAULTS = {
    "astype": {"order": "K", "casting": "unsafe", "subok": True, "copy": True},
}


def _uses_np(tree) -> bool:
    return any(isinstance(n, ast.Name) and n.id == "np" for n in ast.walk(tree))


def _map_to_genexp(e):
    """`map(f, xs)` consumed as an iterable (star-argument, tuple()/list()/set()/any()/all()/sum(), a for loop) is the generator `(f(v) for v in xs)`"""
    if isinstance(e, ast.Call) and isinstance(e.func, ast.Name) and e.func.id == "map" and len(e.args) == 2 and not e.keywords \
            and _simple(e.args[0]) and not isinstance(e.args[0], ast.Starred):
        v = ast.Name(id="_mapped", ctx=ast.Store())
        return ast.copy_location(ast.GeneratorExp(
            elt=ast.Call(func=e.args[0], args=[ast.Name(id="_mapped", ctx=ast.Load())], keywords=[]),
            generators=[ast.comprehension(target=v, iter=e.args[1], ifs=[], is_async=0)]), e)
    return e


class _DropDefaults(ast.NodeTransformer):
    """N9 (defaults) and N14 (equivalent NumPy / builtin spellings): `E.copy(order="K")` -> `np.copy(E)` (only an ndarray's copy takes order=; the
    two are the same function) when the tree uses the `np` alias; `list(<generator expression>)` -> the list comprehension."""

    def __init__(self, has_np=True):
        self.has_np = has_np

    def visit_Starred(self, node):
        self.generic_visit(node)
        node.value = _map_to_genexp(node.value)   # N21
        return node

    def visit_For(self, node):
        self.generic_visit(node)
        node.iter = _map_to_genexp(node.iter)
        return node

    def visit_Call(self, node):
        self.generic_visit(node)
        f = node.func
        if isinstance(f, ast.Name) and f.id in ("tuple", "list", "set", "frozenset", "any", "all", "sum", "sorted") and len(node.args) == 1 and not node.keywords:
            node.args[0] = _map_to_genexp(node.args[0])
        # N20  typing.cast(T, e) is e
        if ((isinstance(f, ast.Name) and f.id == "cast") or (isinstance(f, ast.Attribute) and f.attr == "cast" and isinstance(f.value, ast.Name)
                                                            and f.value.id in ("typing", "t", "tp"))) and len(node.args) == 2 and not node.keywords:
            return node.args[1]
        if isinstance(f, ast.Name) and f.id == "list" and len(node.args) == 1 and not node.keywords and isinstance(node.args[0], ast.GeneratorExp):
            g = node.args[0]
            return ast.copy_location(ast.ListComp(elt=g.elt, generators=g.generators), node)
        if self.has_np and isinstance(f, ast.Attribute) and f.attr == "copy" and not (isinstance(f.value, ast.Name) and f.value.id in ("np", "numpy")):
            order = None
            if len(node.args) == 1 and not node.keywords and isinstance(node.args[0], ast.Constant):
                order = node.args[0].value
            elif not node.args and len(node.keywords) == 1 and node.keywords[0].arg == "order" and isinstance(node.keywords[0].value, ast.Constant):
                order = node.keywords[0].value.value
            if order == "K":
                return ast.copy_location(ast.Call(func=ast.Attribute(value=ast.Name(id="np", ctx=ast.Load()), attr="copy", ctx=ast.Load()),
                                                  args=[f.value], keywords=[]), node)
        table = None
        if isinstance(f, ast.Attribute) and isinstance(f.value, ast.Name) and f.value.id in ("np", "numpy"):
            table = _NP_DEFAULTS.get(f.attr)
        elif isinstance(f, ast.Attribute) and not (isinstance(f.value, ast.Name) and f.value.id in ("np", "numpy", "self", "cls")):
            table = _METHOD_DEFAULTS.get(f.attr)
        if table:
            node.keywords = [k for k in node.keywords if not (k.arg in table and isinstance(k.value, ast.Constant)
                                                              and type(k.value.value) is type(table[k.arg]) and k.value.value == table[k.arg])]
        return node


def renormalise_function(fn: ast.AST):
    """re-establish the normal form on one function after its body was rewritten (helper inlining, default specialisation)"""
    _DropDefaults(_uses_np(fn)).visit(fn)
    _Tidy().visit(fn)
    _Normal().visit(fn)
    _Lower().visit(fn)
    _HoistWalrus().visit(fn)
    for n in ast.walk(fn):
        if isinstance(n, (ast.FunctionDef, ast.AsyncFunctionDef)):
            _loops_to_comprehensions(n)
            _unroll_literal_dictcomps(n)
            _dead_constant_stores(n)
            _return_temps(n)
            if os.environ.get("SA_NO_N7") != "1":
                _single_use_temps(n)
            _bool_aliases(n)
            _function_aliases(n)
            if os.environ.get("SA_NO_N22") != "1":
                _projection_aliases(n)
    _Normal().visit(fn)
    ast.fix_missing_locations(fn)


def normalise(tree: ast.AST) -> ast.AST:
    tree = _DropDefaults(_uses_np(tree)).visit(tree)
    tree = _Tidy().visit(tree)
    tree = _Normal().visit(tree)
    tree = _Lower().visit(tree)
    tree = _HoistWalrus().visit(tree)
    for n in ast.walk(tree):
        if isinstance(n, (ast.FunctionDef, ast.AsyncFunctionDef)):
            _loops_to_comprehensions(n)
            _unroll_literal_dictcomps(n)
            _dead_constant_stores(n)
            _return_temps(n)
            if os.environ.get("SA_NO_N7") != "1":
                _single_use_temps(n)
            _bool_aliases(n)
            _function_aliases(n)
            if os.environ.get("SA_NO_N22") != "1":
                _projection_aliases(n)
    ast.fix_missing_locations(tree)
    return tree
