"""Source normal form applied to every module when it is loaded (before any rule sees it).

Each pass is an *equivalence transformation* of Python source, so a rule that holds on the normal form holds on the program.  The point is that
maintainers' spellings of the same thing meet in one form, and rules are written against that form only:

N1  negated identity / membership tests:  `not (a is b)` -> `a is not b`, `not (a is not b)` -> `a is b`, same for `in`; `not not x` in a test -> `x`;
    negations are pushed inwards through and/or in *test positions* (De Morgan; only truthiness is observable there).
N2  polarity of two-armed conditionals: an `if`/conditional expression that has an else arm is oriented so that its test is positive
    (`if not c: A else: B` -> `if c: B else: A`; `if x is not y: A else: B` -> `if x is y: B else: A`; for and/or tests the orientation with
    fewer negated operands is taken, the conjunction on a tie).  One-armed `if`s are left alone.
N3  return temporaries: `t = E; return t` (adjacent, `t` a plain local not captured by a nested scope) -> `return E`.
N4  dead constant stores: `name = <constant>` to a local that is never read, deleted or declared global/nonlocal in the function is dropped
    (debug markers and the like); a function body emptied that way keeps a `pass`.
"""
from __future__ import annotations

import ast
import os
from typing import List

_FLIP = {ast.Is: ast.IsNot, ast.IsNot: ast.Is, ast.In: ast.NotIn, ast.NotIn: ast.In}
_NEG_OPS = (ast.IsNot, ast.NotIn)


def _is_not(e):
    return isinstance(e, ast.UnaryOp) and isinstance(e.op, ast.Not)


def _negate(e: ast.expr) -> ast.expr:
    """the normal-form negation of a (normalised) test expression"""
    if _is_not(e):
        return e.operand
    if isinstance(e, ast.Compare) and len(e.ops) == 1 and type(e.ops[0]) in _FLIP:
        return ast.copy_location(ast.Compare(left=e.left, ops=[_FLIP[type(e.ops[0])]()], comparators=e.comparators), e)
    if isinstance(e, ast.BoolOp):
        op = ast.Or() if isinstance(e.op, ast.And) else ast.And()
        return ast.copy_location(ast.BoolOp(op=op, values=[_negate(v) for v in e.values]), e)
    return ast.copy_location(ast.UnaryOp(op=ast.Not(), operand=e), e)


def _test(e: ast.expr) -> ast.expr:
    """normal form of an expression in test position (only its truthiness is observable)"""
    if _is_not(e):
        inner = _test(e.operand)
        if _is_not(inner):
            return inner.operand
        if isinstance(inner, ast.BoolOp) or (isinstance(inner, ast.Compare) and len(inner.ops) == 1 and type(inner.ops[0]) in _FLIP):
            return _negate(inner)
        return ast.copy_location(ast.UnaryOp(op=ast.Not(), operand=inner), e)
    if isinstance(e, ast.BoolOp):
        e.values = [_test(v) for v in e.values]
        return e
    return e


def _negativity(e: ast.expr):
    """(number of negated operands, number of operands) of a normalised test"""
    if isinstance(e, ast.BoolOp):
        neg = sum(1 for v in e.values if _is_not(v) or (isinstance(v, ast.Compare) and len(v.ops) == 1 and isinstance(v.ops[0], _NEG_OPS)))
        return neg, len(e.values)
    if _is_not(e) or (isinstance(e, ast.Compare) and len(e.ops) == 1 and isinstance(e.ops[0], _NEG_OPS)):
        return 1, 1
    return 0, 1


def _should_swap(test: ast.expr) -> bool:
    neg, n = _negativity(test)
    if isinstance(test, ast.BoolOp):
        if 2 * neg > n:
            return True
        if 2 * neg == n:
            return isinstance(test.op, ast.Or)  # tie: prefer the conjunction
        return False
    return neg == 1


class _Normal(ast.NodeTransformer):
    def visit_UnaryOp(self, node):
        self.generic_visit(node)
        if isinstance(node.op, ast.Not):
            inner = node.operand
            if isinstance(inner, ast.Compare) and len(inner.ops) == 1 and type(inner.ops[0]) in _FLIP:
                return _negate(inner)
            if _is_not(inner) and _is_not(inner.operand):
                return inner.operand  # not not not x -> not x
            return ast.copy_location(_test(node), node)
        return node

    def visit_If(self, node):
        self.generic_visit(node)
        node.test = _test(node.test)
        if node.orelse and _should_swap(node.test):
            node.test = _negate(node.test)
            node.body, node.orelse = node.orelse, node.body
        return node

    def visit_IfExp(self, node):
        self.generic_visit(node)
        node.test = _test(node.test)
        if _should_swap(node.test):
            node.test = _negate(node.test)
            node.body, node.orelse = node.orelse, node.body
        return node

    def visit_While(self, node):
        self.generic_visit(node)
        node.test = _test(node.test)
        return node

    def visit_Assert(self, node):
        self.generic_visit(node)
        node.test = _test(node.test)
        return node


def _captured_names(fn) -> set:
    out = set()
    for n in ast.walk(fn):
        if n is fn:
            continue
        if isinstance(n, (ast.FunctionDef, ast.AsyncFunctionDef, ast.Lambda, ast.ClassDef, ast.GeneratorExp, ast.ListComp, ast.SetComp, ast.DictComp)):
            for m in ast.walk(n):
                if isinstance(m, ast.Name):
                    out.add(m.id)
    return out


def _scoped_decls(fn) -> set:
    out = set()
    for n in ast.walk(fn):
        if isinstance(n, (ast.Global, ast.Nonlocal)):
            out.update(n.names)
    return out


def _return_temps(fn):
    captured = _captured_names(fn) | _scoped_decls(fn)

    def block(stmts: List[ast.stmt]) -> List[ast.stmt]:
        out: List[ast.stmt] = []
        for s in stmts:
            for f in ("body", "orelse", "finalbody"):
                v = getattr(s, f, None)
                if isinstance(v, list) and v and isinstance(v[0], ast.stmt) and not isinstance(s, (ast.FunctionDef, ast.AsyncFunctionDef, ast.ClassDef)):
                    setattr(s, f, block(v))
            if isinstance(s, ast.Try):
                for h in s.handlers:
                    h.body = block(h.body)
            if (isinstance(s, ast.Return) and isinstance(s.value, ast.Name) and out and isinstance(out[-1], ast.Assign)
                    and len(out[-1].targets) == 1 and isinstance(out[-1].targets[0], ast.Name) and out[-1].targets[0].id == s.value.id
                    and s.value.id not in captured):
                prev = out.pop()
                out.append(ast.copy_location(ast.Return(value=prev.value), prev))
                continue
            out.append(s)
        return out

    fn.body = block(fn.body)


def _dead_constant_stores(fn):
    captured = _captured_names(fn) | _scoped_decls(fn)
    loads, stores = {}, {}
    for n in ast.walk(fn):
        if isinstance(n, ast.Name):
            d = loads if isinstance(n.ctx, (ast.Load, ast.Del)) else stores
            d[n.id] = d.get(n.id, 0) + 1
    params = {a.arg for a in fn.args.posonlyargs + fn.args.args + fn.args.kwonlyargs}
    if fn.args.vararg:
        params.add(fn.args.vararg.arg)
    if fn.args.kwarg:
        params.add(fn.args.kwarg.arg)
    dead = {nm for nm in stores if nm not in loads and nm not in captured and nm not in params}
    if not dead:
        return

    def block(stmts):
        out = []
        for s in stmts:
            for f in ("body", "orelse", "finalbody"):
                v = getattr(s, f, None)
                if isinstance(v, list) and v and isinstance(v[0], ast.stmt) and not isinstance(s, (ast.FunctionDef, ast.AsyncFunctionDef, ast.ClassDef)):
                    setattr(s, f, block(v) or [ast.copy_location(ast.Pass(), s)])
            if isinstance(s, ast.Try):
                for h in s.handlers:
                    h.body = block(h.body) or [ast.copy_location(ast.Pass(), h)]
            if (isinstance(s, ast.Assign) and len(s.targets) == 1 and isinstance(s.targets[0], ast.Name) and s.targets[0].id in dead
                    and isinstance(s.value, ast.Constant)):
                continue
            out.append(s)
        return out

    fn.body = block(fn.body) or [ast.copy_location(ast.Pass(), fn)]


class _Lower(ast.NodeTransformer):
    """N5  nested one-armed conditionals: `if a: (only statement) if b: X` (no else on either) -> `if a and b: X`.
    N6  statement-level conditional expressions: `t = A if c else B` -> `if c: t = A / else: t = B`, `return A if c else B` likewise
        (the target is evaluated after the value in both forms; paths become visible to the CFG rules)."""

    def visit_If(self, node):
        self.generic_visit(node)
        while not node.orelse and len(node.body) == 1 and isinstance(node.body[0], ast.If) and not node.body[0].orelse:
            inner = node.body[0]
            vals = (node.test.values if isinstance(node.test, ast.BoolOp) and isinstance(node.test.op, ast.And) else [node.test]) + \
                   (inner.test.values if isinstance(inner.test, ast.BoolOp) and isinstance(inner.test.op, ast.And) else [inner.test])
            node.test = ast.copy_location(ast.BoolOp(op=ast.And(), values=vals), node.test)
            node.body = inner.body
        return node

    def visit_Assign(self, node):
        self.generic_visit(node)
        if os.environ.get("SA_NO_N6") != "1" and isinstance(node.value, ast.IfExp) and len(node.targets) == 1 and isinstance(node.targets[0], (ast.Name, ast.Attribute)) \
                and (isinstance(node.targets[0], ast.Name) or isinstance(node.targets[0].value, ast.Name)):
            import copy as _copy
            v = node.value
            a = ast.copy_location(ast.Assign(targets=[_copy.deepcopy(node.targets[0])], value=v.body), node)
            b = ast.copy_location(ast.Assign(targets=[_copy.deepcopy(node.targets[0])], value=v.orelse), node)
            return ast.copy_location(ast.If(test=v.test, body=[self.visit_Assign(a)], orelse=[self.visit_Assign(b)]), node)
        return node

    def visit_Return(self, node):
        self.generic_visit(node)
        if os.environ.get("SA_NO_N6") != "1" and isinstance(node.value, ast.IfExp):
            v = node.value
            a = ast.copy_location(ast.Return(value=v.body), node)
            b = ast.copy_location(ast.Return(value=v.orelse), node)
            return ast.copy_location(ast.If(test=v.test, body=[self.visit_Return(a)], orelse=[self.visit_Return(b)]), node)
        return node

    def visit_Lambda(self, node):
        return node


def _flatten_stmt_lists(tree):
    return tree


def _simple(e) -> bool:
    return isinstance(e, (ast.Name, ast.Constant)) or (isinstance(e, ast.Attribute) and _simple(e.value)) or (isinstance(e, ast.Starred) and _simple(e.value))


def _atom(e) -> bool:
    return isinstance(e, (ast.Name, ast.Constant)) or (isinstance(e, ast.Starred) and isinstance(e.value, ast.Name))


_PURE_ROOTS = {"np", "numpy", "math", "numbers", "operator"}
_PURE_BUILTINS = {"len", "tuple", "list", "dict", "set", "frozenset", "range", "int", "float", "bool", "str", "isinstance", "issubclass", "type",
                  "sorted", "reversed", "zip", "enumerate", "min", "max", "sum", "abs", "any", "all", "slice", "id", "getattr", "hasattr", "repr",
                  "divmod", "round", "callable", "iter"}
_PURE_METHODS = {"astype", "copy", "reshape", "ravel", "flatten", "transpose", "sum", "mean", "var", "std", "prod", "view", "squeeze", "item",
                 "tolist", "any", "all", "max", "min", "argmax", "argmin", "cumsum", "cumprod", "dot", "conj", "swapaxes", "is_integer", "keys",
                 "values", "items", "get", "index", "count", "format", "join", "split", "startswith", "endswith", "nonzero", "round", "clip", "repeat",
                 "take", "diagonal", "trace", "byteswap", "newbyteorder"}


def _rebind_free(e: ast.expr) -> bool:
    """E cannot *rebind* an attribute of a repository object: its calls are to NumPy / math / pure builtins or read-only ndarray/dict/str methods.
    (Mutating an object in place is harmless here: an attribute load evaluated before or after E yields the same reference.)"""
    for n in ast.walk(e):
        if isinstance(n, (ast.NamedExpr, ast.Await, ast.Yield, ast.YieldFrom, ast.Lambda)):
            return False
        if isinstance(n, ast.Call):
            f = n.func
            if isinstance(f, ast.Name):
                if f.id not in _PURE_BUILTINS:
                    return False
            elif isinstance(f, ast.Attribute):
                root = f
                while isinstance(root, ast.Attribute):
                    root = root.value
                if isinstance(root, ast.Name) and root.id in _PURE_ROOTS:
                    continue
                if f.attr not in _PURE_METHODS:
                    return False
            else:
                return False
    return True


def _first_use_slot(top: ast.expr, nm: str, _atom=None):
    """If the (single) load of `nm` in expression `top` is evaluated before anything that is not a plain name / attribute chain / constant,
    return a setter that replaces it; else None.  Left-to-right evaluation order of Python expressions."""
    def is_nm(e):
        return isinstance(e, ast.Name) and e.id == nm

    _atom = _atom or globals()["_atom"]
    if isinstance(top, ast.Call):
        if is_nm(top.func):
            return None
        if isinstance(top.func, ast.Attribute) and is_nm(top.func.value):
            return lambda v: setattr(top.func, "value", v)
        if not _simple(top.func):
            return None
        # operands evaluated before the use must be plain names / constants (an attribute load could observe a mutation made by E)
        for i, a in enumerate(top.args):
            if is_nm(a):
                return lambda v, i=i: top.args.__setitem__(i, v)
            if isinstance(a, ast.Starred) and is_nm(a.value):
                return lambda v, a=a: setattr(a, "value", v)
            if not _atom(a):
                return None
        for k in top.keywords:
            if is_nm(k.value):
                return lambda v, k=k: setattr(k, "value", v)
            if not _atom(k.value):
                return None
        return None
    if isinstance(top, ast.Attribute) and is_nm(top.value):
        return lambda v: setattr(top, "value", v)
    if isinstance(top, ast.Subscript) and is_nm(top.value):
        return lambda v: setattr(top, "value", v)
    if isinstance(top, ast.BinOp):
        if is_nm(top.left):
            return lambda v: setattr(top, "left", v)
        if _atom(top.left) and is_nm(top.right):
            return lambda v: setattr(top, "right", v)
        return None
    if isinstance(top, ast.UnaryOp) and is_nm(top.operand):
        return lambda v: setattr(top, "operand", v)
    if isinstance(top, (ast.Tuple, ast.List)):
        for i, a in enumerate(top.elts):
            if is_nm(a):
                return lambda v, i=i: top.elts.__setitem__(i, v)
            if not _atom(a):
                return None
    return None


def _single_use_temps(fn):
    """N7  explaining variables: `t = E` immediately followed by a simple statement that reads `t` exactly once, as the first thing it evaluates
    apart from plain names, where `t` is a local stored once and read once in the whole function and not captured -> the read is replaced by E."""
    captured = _captured_names(fn) | _scoped_decls(fn)
    loads, stores = {}, {}
    for n in ast.walk(fn):
        if isinstance(n, ast.Name):
            d = loads if isinstance(n.ctx, ast.Load) else stores
            d[n.id] = d.get(n.id, 0) + 1
    params = {a.arg for a in fn.args.posonlyargs + fn.args.args + fn.args.kwonlyargs}
    cands = {k for k in stores if stores[k] == 1 and loads.get(k, 0) == 1 and k not in captured and k not in params}
    # a temporary name re-used for several such pairs: every store is a block-level `t = E` directly followed by a statement holding exactly
    # one read of t, and there are no other reads -> each pair is independent
    multi = {k for k in stores if stores[k] > 1 and loads.get(k, 0) == stores[k] and k not in captured and k not in params}
    if multi:
        good = {k: 0 for k in multi}

        def scan(stmts):
            for i, st in enumerate(stmts):
                for f in ("body", "orelse", "finalbody"):
                    v = getattr(st, f, None)
                    if isinstance(v, list) and v and isinstance(v[0], ast.stmt) and not isinstance(st, (ast.FunctionDef, ast.AsyncFunctionDef, ast.ClassDef)):
                        scan(v)
                if isinstance(st, ast.Try):
                    for h in st.handlers:
                        scan(h.body)
                if isinstance(st, ast.Assign) and len(st.targets) == 1 and isinstance(st.targets[0], ast.Name) and st.targets[0].id in good \
                        and i + 1 < len(stmts) and isinstance(stmts[i + 1], (ast.Assign, ast.Return, ast.Expr)):
                    k = st.targets[0].id
                    n_reads = sum(1 for x in ast.walk(stmts[i + 1]) if isinstance(x, ast.Name) and x.id == k and isinstance(x.ctx, ast.Load))
                    n_here = sum(1 for x in ast.walk(st.value) if isinstance(x, ast.Name) and x.id == k)
                    if n_reads == 1 and n_here == 0:
                        good[k] += 1
        scan(fn.body)
        cands |= {k for k in multi if good[k] == stores[k]}
    if not cands:
        return

    def block(stmts):
        out = []
        for s in stmts:
            for f in ("body", "orelse", "finalbody"):
                v = getattr(s, f, None)
                if isinstance(v, list) and v and isinstance(v[0], ast.stmt) and not isinstance(s, (ast.FunctionDef, ast.AsyncFunctionDef, ast.ClassDef)):
                    setattr(s, f, block(v))
            if isinstance(s, ast.Try):
                for h in s.handlers:
                    h.body = block(h.body)
            prev = out[-1] if out else None
            if (prev is not None and isinstance(prev, ast.Assign) and len(prev.targets) == 1 and isinstance(prev.targets[0], ast.Name)
                    and prev.targets[0].id in cands and isinstance(s, (ast.Assign, ast.Return, ast.Expr)) and s.value is not None
                    and not (isinstance(s, ast.Assign) and not all(_simple(t) for t in s.targets))):
                nm = prev.targets[0].id
                if isinstance(s.value, ast.Name) and s.value.id == nm:
                    s.value = prev.value
                    out.pop()
                else:
                    setter = _first_use_slot(s.value, nm, _simple if _rebind_free(prev.value) else None)
                    if setter is not None:
                        setter(prev.value)
                        out.pop()
            out.append(s)
        return out

    fn.body = block(fn.body)


class _Tidy(ast.NodeTransformer):
    """N8  no-op statements left behind by the inliner / by refactorings: `x = x` on a plain name is dropped; a conditional whose taken arm is
    empty is turned round (`if c: pass / else: B` -> `if not c: B`); a conditional with nothing in either arm keeps its test as an expression
    statement only if the test contains a call."""

    def _block(self, stmts):
        out = []
        for s in stmts:
            s = self.visit(s)
            if s is None:
                continue
            if isinstance(s, ast.Assign) and len(s.targets) == 1 and isinstance(s.targets[0], ast.Name) and isinstance(s.value, ast.Name) \
                    and s.targets[0].id == s.value.id:
                continue
            if isinstance(s, ast.Pass) and len(stmts) > 1:
                continue
            out.append(s)
        return out

    def generic_visit(self, node):
        for f in ("body", "orelse", "finalbody"):
            v = getattr(node, f, None)
            if isinstance(v, list) and v and isinstance(v[0], ast.stmt):
                nb = self._block(v)
                if not nb and f == "body":
                    nb = [ast.copy_location(ast.Pass(), node)]
                setattr(node, f, nb)
        if isinstance(node, ast.Try):
            for h in node.handlers:
                h.body = self._block(h.body) or [ast.copy_location(ast.Pass(), h)]
        return node

    def visit_If(self, node):
        self.generic_visit(node)
        empty = lambda b: all(isinstance(x, ast.Pass) for x in b)
        if empty(node.body) and node.orelse and not empty(node.orelse):
            node.test = _negate(_test(node.test))
            node.body, node.orelse = node.orelse, []
        elif empty(node.body) and (not node.orelse or empty(node.orelse)):
            if any(isinstance(x, ast.Call) for x in ast.walk(node.test)):
                node.orelse = []
                return node
            return None
        elif node.orelse and empty(node.orelse):
            node.orelse = []
        return node


def renormalise_function(fn: ast.AST):
    """re-establish the normal form on one function after its body was rewritten (helper inlining)"""
    _Tidy().visit(fn)
    _Normal().visit(fn)
    _Lower().visit(fn)
    for n in ast.walk(fn):
        if isinstance(n, (ast.FunctionDef, ast.AsyncFunctionDef)):
            _dead_constant_stores(n)
            _return_temps(n)
            if os.environ.get("SA_NO_N7") != "1":
                _single_use_temps(n)
    ast.fix_missing_locations(fn)


def normalise(tree: ast.AST) -> ast.AST:
    tree = _Tidy().visit(tree)
    tree = _Normal().visit(tree)
    tree = _Lower().visit(tree)
    for n in ast.walk(tree):
        if isinstance(n, (ast.FunctionDef, ast.AsyncFunctionDef)):
            _dead_constant_stores(n)
            _return_temps(n)
            if os.environ.get("SA_NO_N7") != "1":
                _single_use_temps(n)
    ast.fix_missing_locations(tree)
    return tree
