"""Term domain: translate closed-form Python/NumPy expressions into sympy terms (symbolic constant propagation).

Used as a *term normaliser* only: no path conditions are collected and nothing is handed to a solver.
`translate(expr, env)` returns a sympy expression or raises Untranslatable."""
from __future__ import annotations

import ast
from typing import Callable, Dict, Optional

import sympy as sp

from .model import dotted, norm


class Untranslatable(Exception):
    pass


def _pw_where(c, a, b):
    return sp.Piecewise((a, c), (b, True))


NP_FUNCS: Dict[str, Callable] = {
    "sin": sp.sin, "cos": sp.cos, "tan": sp.tan, "arcsin": sp.asin, "arccos": sp.acos, "arctan": sp.atan,
    "sinh": sp.sinh, "cosh": sp.cosh, "tanh": sp.tanh, "arcsinh": sp.asinh, "arccosh": sp.acosh, "arctanh": sp.atanh,
    "exp": sp.exp, "exp2": lambda x: 2 ** x, "expm1": lambda x: sp.exp(x) - 1,
    "log": sp.log, "log2": lambda x: sp.log(x) / sp.log(2), "log10": lambda x: sp.log(x) / sp.log(10), "log1p": lambda x: sp.log(1 + x),
    "sqrt": sp.sqrt, "cbrt": lambda x: sp.sign(x) * sp.Abs(x) ** sp.Rational(1, 3), "square": lambda x: x ** 2,
    "abs": sp.Abs, "absolute": sp.Abs, "sign": sp.sign, "reciprocal": lambda x: 1 / x, "negative": lambda x: -x, "positive": lambda x: x,
    "power": lambda x, y: x ** y, "add": lambda x, y: x + y, "subtract": lambda x, y: x - y, "multiply": lambda x, y: x * y,
    "divide": lambda x, y: x / y, "true_divide": lambda x, y: x / y, "logaddexp": lambda x, y: sp.log(sp.exp(x) + sp.exp(y)),
    "logaddexp2": lambda x, y: sp.log(2 ** x + 2 ** y) / sp.log(2), "maximum": sp.Max, "minimum": sp.Min,
    "greater": sp.Gt, "less": sp.Lt, "greater_equal": sp.Ge, "less_equal": sp.Le, "equal": sp.Eq, "not_equal": sp.Ne,
    "sinc": lambda x: sp.sin(sp.pi * x) / (sp.pi * x), "logical_not": sp.Not,
    "ones_like": lambda x: sp.Integer(1), "zeros_like": lambda x: sp.Integer(0), "asarray": lambda x, **k: x, "array": lambda x, **k: x,
    "float64": lambda x: x, "float32": lambda x: x,
}
NP_CONSTS = {"pi": sp.pi, "e": sp.E, "inf": sp.oo, "nan": sp.nan, "newaxis": None}


def translate(e: ast.AST, env: Dict[str, object], resolve_ext: Optional[Callable[[ast.AST], Optional[str]]] = None):
    """env maps normalised source text (e.g. 'a.data', 'grad', 'self.variables[index].data', local names) to sympy terms."""
    t = norm(e)
    if t in env:
        v = env[t]
        if v is None:
            raise Untranslatable(t)
        return v
    if isinstance(e, ast.Constant):
        if isinstance(e.value, bool):
            return sp.true if e.value else sp.false
        if isinstance(e.value, int):
            return sp.Integer(e.value)
        if isinstance(e.value, float):
            return sp.nsimplify(e.value, rational=True) if abs(e.value) < 1e6 and float(e.value).is_integer() else sp.Float(repr(e.value), 30)
        raise Untranslatable(t)
    if isinstance(e, ast.UnaryOp):
        v = translate(e.operand, env, resolve_ext)
        if isinstance(e.op, ast.USub):
            return -v
        if isinstance(e.op, ast.UAdd):
            return v
        if isinstance(e.op, (ast.Invert, ast.Not)):
            return sp.Not(v)
    if isinstance(e, ast.BinOp):
        a, b = translate(e.left, env, resolve_ext), translate(e.right, env, resolve_ext)
        if isinstance(e.op, ast.Add):
            return a + b
        if isinstance(e.op, ast.Sub):
            return a - b
        if isinstance(e.op, ast.Mult):
            if _is_bool(a):
                return sp.Piecewise((b, a), (0, True))
            if _is_bool(b):
                return sp.Piecewise((a, b), (0, True))
            return a * b
        if isinstance(e.op, ast.Div):
            return a / b
        if isinstance(e.op, ast.Pow):
            return a ** b
        if isinstance(e.op, ast.FloorDiv):
            return sp.floor(a / b)
        raise Untranslatable(t)
    if isinstance(e, ast.Compare) and len(e.ops) == 1:
        a, b = translate(e.left, env, resolve_ext), translate(e.comparators[0], env, resolve_ext)
        op = e.ops[0]
        rel = {ast.Lt: sp.Lt, ast.LtE: sp.Le, ast.Gt: sp.Gt, ast.GtE: sp.Ge, ast.Eq: sp.Eq, ast.NotEq: sp.Ne}.get(type(op))
        if rel is None:
            raise Untranslatable(t)
        return rel(a, b)
    if isinstance(e, ast.IfExp):
        return sp.Piecewise((translate(e.body, env, resolve_ext), translate(e.test, env, resolve_ext)), (translate(e.orelse, env, resolve_ext), True))
    if isinstance(e, ast.Attribute):
        d = dotted(e)
        if d and d.split(".")[0] in ("np", "numpy") and d.split(".")[-1] in NP_CONSTS and NP_CONSTS[d.split(".")[-1]] is not None:
            return NP_CONSTS[d.split(".")[-1]]
        raise Untranslatable(t)
    if isinstance(e, ast.Call):
        d = dotted(e.func)
        name = None
        if resolve_ext is not None:
            ext = resolve_ext(e.func)
            if ext and ext.startswith("numpy."):
                name = ext.split(".")[-1]
        if name is None and d and d.split(".")[0] in ("np", "numpy"):
            name = d.split(".")[-1]
        if name == "where" and len(e.args) == 3:
            c, a, b = (translate(x, env, resolve_ext) for x in e.args)
            if not _is_bool(c):
                c = sp.Ne(c, 0)
            return sp.Piecewise((a, c), (b, True))
        if name == "select" and len(e.args) >= 2 and isinstance(e.args[0], ast.List) and isinstance(e.args[1], ast.List):
            pairs = [(translate(v, env, resolve_ext), translate(c, env, resolve_ext)) for c, v in zip(e.args[0].elts, e.args[1].elts)]
            default = translate(e.args[2], env, resolve_ext) if len(e.args) > 2 else sp.Integer(0)
            return sp.Piecewise(*pairs, (default, True))
        if name == "piecewise" and len(e.args) == 3 and isinstance(e.args[1], ast.List) and isinstance(e.args[2], ast.List):
            pairs = [(translate(v, env, resolve_ext), translate(c, env, resolve_ext)) for c, v in zip(e.args[1].elts, e.args[2].elts)]
            return sp.Piecewise(*pairs, (0, True))
        if name in ("clip",) and len(e.args) == 3:
            x, lo, hi = (translate(a, env, resolve_ext) for a in e.args)
            return sp.Min(sp.Max(x, lo), hi)
        if name in NP_FUNCS:
            args = [translate(a, env, resolve_ext) for a in e.args]
            return NP_FUNCS[name](*args)
        # method calls on arrays
        if isinstance(e.func, ast.Attribute) and e.func.attr in ("astype", "copy") :
            return translate(e.func.value, env, resolve_ext)
        raise Untranslatable(t)
    raise Untranslatable(t)


def _is_bool(x) -> bool:
    from sympy.logic.boolalg import BooleanAtom, BooleanFunction
    return isinstance(x, (BooleanAtom, BooleanFunction)) or bool(getattr(x, "is_Relational", False))


def poly_equal(a, b) -> bool:
    return sp.simplify(sp.expand(a - b)) == 0
