"""Shared facts: call resolution in function context, call graph, may-raise summary,
attribute-store enumeration (who-may-write), small AST utilities."""
from __future__ import annotations

import ast
from typing import Dict, Iterator, List, Optional, Set, Tuple

from .model import (AnalysisError, ClassInfo, External, FunctionInfo, Module, Project, dotted, norm,
                    own_nodes)

TENSOR = "mygrad.tensor_base.Tensor"
OPERATION = "mygrad.operation_base.Operation"

# method names that exist on Tensor and are distinctive enough to resolve on an unknown receiver
TENSOR_ONLY_METHODS = {"_op", "_in_place_op", "_replay_op", "clear_graph", "null_grad", "_backward",
                       "null_gradients"}


def is_pragma_no_cover(mod: Module, node: ast.AST) -> bool:
    """The statement (or its enclosing branch header) carries '# pragma: no cover'."""
    ln = getattr(node, "lineno", None)
    if ln is None:
        return False
    return "pragma: no cover" in mod.lines[ln - 1]


class Facts:
    def __init__(self, project: Project):
        self.p = project
        self._callgraph: Optional[Dict[str, Set[str]]] = None
        self._raises: Optional[Dict[str, bool]] = None
        self._stores = None

    # ------------------------------------------------------------------ local scopes
    def local_names(self, fi: FunctionInfo) -> Set[str]:
        if not hasattr(self, "_ln_cache"):
            self._ln_cache = {}
        got = self._ln_cache.get(id(fi.node))
        if got is not None:
            return got
        got = self._local_names(fi)
        self._ln_cache[id(fi.node)] = got
        return got

    def _local_names(self, fi: FunctionInfo) -> Set[str]:
        names = set()
        a = fi.node.args
        for x in a.posonlyargs + a.args + a.kwonlyargs:
            names.add(x.arg)
        if a.vararg:
            names.add(a.vararg.arg)
        if a.kwarg:
            names.add(a.kwarg.arg)
        for n in own_nodes(fi.node):
            if isinstance(n, ast.Name) and isinstance(n.ctx, (ast.Store, ast.Del)):
                names.add(n.id)
            elif isinstance(n, (ast.FunctionDef, ast.AsyncFunctionDef, ast.ClassDef)):
                names.add(n.name)
            elif isinstance(n, ast.ExceptHandler) and n.name:
                names.add(n.name)
            elif isinstance(n, (ast.Import, ast.ImportFrom)):
                for al in n.names:
                    names.add((al.asname or al.name).split(".")[0])
        # names declared global are not local
        for n in own_nodes(fi.node):
            if isinstance(n, ast.Global):
                names -= set(n.names)
        return names

    def first_param(self, fi: FunctionInfo) -> Optional[str]:
        a = fi.node.args
        allp = a.posonlyargs + a.args
        return allp[0].arg if allp else None

    def is_classmethod(self, fi: FunctionInfo) -> bool:
        return fi.has_decorator("classmethod")

    def is_staticmethod(self, fi: FunctionInfo) -> bool:
        return fi.has_decorator("staticmethod")

    # ------------------------------------------------------------------ call resolution
    def resolve_in(self, fi: FunctionInfo, expr: ast.AST):
        """Resolve a callee / name expression inside function `fi`."""
        p = self.p
        locals_ = self.local_names(fi)
        # enclosing function scopes (closures)
        if isinstance(expr, ast.Call) and dotted(expr.func) == "type" and expr.args \
                and isinstance(expr.args[0], ast.Name) and fi.cls is not None \
                and expr.args[0].id == self.first_param(fi):
            return fi.cls
        if isinstance(expr, ast.Name):
            if fi.cls is not None and self.is_classmethod(fi) and expr.id == self.first_param(fi):
                return fi.cls
            if expr.id in locals_:
                # nested def?
                q = f"{fi.qualname}.<locals>.{expr.id}"
                if q in p.functions:
                    return p.functions[q]
                # local alias of something resolvable:  x = np.add  (single assignment)
                val = self._single_local_value(fi, expr.id)
                if val is not None and isinstance(val, (ast.Name, ast.Attribute)) and dotted(val) != expr.id:
                    return self.resolve_in(fi, val)
                return None
            if fi.parent is not None:
                r = self.resolve_in(fi.parent, expr)
                if r is not None:
                    return r
            return p.resolve(fi.module, expr)
        if isinstance(expr, ast.Attribute):
            base = expr.value
            # self.m / cls.m
            if isinstance(base, ast.Name) and fi.cls is not None and not self.is_staticmethod(fi) \
                    and base.id == self.first_param(fi):
                m = fi.cls.lookup_method(expr.attr)
                if m is not None:
                    return m
                a = fi.cls.lookup_attr(expr.attr)
                if a is not None:
                    r = self._resolve_value(a[0].module, a[1])
                    return r
                return None
            # super().m
            if isinstance(base, ast.Call) and dotted(base.func) == "super":
                owner = fi.cls
                par = fi
                while owner is None and par.parent is not None:
                    par = par.parent
                    owner = par.cls
                if owner is not None:
                    mro = owner.mro()
                    for c in mro[1:]:
                        if expr.attr in c.methods:
                            return c.methods[expr.attr]
                return None
            # type(self).m
            if isinstance(base, ast.Call) and dotted(base.func) == "type" and base.args \
                    and isinstance(base.args[0], ast.Name) and fi.cls is not None \
                    and base.args[0].id == self.first_param(fi):
                return fi.cls.lookup_method(expr.attr)
            d = dotted(expr)
            if d is not None:
                root = d.split(".")[0]
                if root not in locals_:
                    r = p.resolve(fi.module, expr)
                    if r is not None:
                        return r
            if expr.attr in TENSOR_ONLY_METHODS:
                return p.cls(TENSOR).lookup_method(expr.attr)
            return None
        return None

    def _resolve_value(self, mod: Module, v: ast.expr):
        if isinstance(v, ast.Call) and dotted(v.func) in ("staticmethod", "classmethod") and v.args:
            return self.p.resolve(mod, v.args[0])
        return self.p.resolve(mod, v)

    def class_attr_value(self, cls: ClassInfo, name: str):
        a = cls.lookup_attr(name)
        if a is None:
            return None
        return self._resolve_value(a[0].module, a[1])

    def _single_local_value(self, fi: FunctionInfo, name: str) -> Optional[ast.expr]:
        vals = []
        for n in own_nodes(fi.node):
            if isinstance(n, ast.Assign) and len(n.targets) == 1 and isinstance(n.targets[0], ast.Name) \
                    and n.targets[0].id == name:
                vals.append(n.value)
            elif isinstance(n, (ast.AugAssign, ast.AnnAssign)) and isinstance(n.target, ast.Name) and n.target.id == name:
                vals.append(getattr(n, "value", None))
            elif isinstance(n, (ast.For, ast.comprehension)) and name in _names(n.target):
                vals.append(None)
            elif isinstance(n, ast.withitem) and n.optional_vars is not None and name in _names(n.optional_vars):
                vals.append(None)
        params = {a.arg for a in fi.node.args.posonlyargs + fi.node.args.args + fi.node.args.kwonlyargs}
        if name in params:
            return None
        if len(vals) == 1:
            return vals[0]
        return None

    def resolve_call(self, fi: FunctionInfo, call: ast.Call):
        return self.resolve_in(fi, call.func)

    def ext_name_of(self, fi: FunctionInfo, expr: ast.AST) -> Optional[str]:
        """Fully qualified external name ('numpy.savez', 'builtins.len') of a callee expression, if it resolves to one."""
        r = self.resolve_in(fi, expr)
        if isinstance(r, External):
            n = r.name
            for pre in ("numpy.core.", "numpy._core."):
                if n.startswith(pre):
                    n = "numpy." + n[len(pre):].split(".", 1)[-1]
            return n
        return None

    def constructor_of(self, target) -> Optional[FunctionInfo]:
        if isinstance(target, ClassInfo):
            return target.lookup_method("__init__")
        return None

    # ------------------------------------------------------------------ call graph
    def callees(self, fi: FunctionInfo) -> Set[str]:
        return self.callgraph().get(fi.qualname, set())

    def callgraph(self) -> Dict[str, Set[str]]:
        if self._callgraph is not None:
            return self._callgraph
        cg: Dict[str, Set[str]] = {}
        for fi in self.p.all_functions():
            out: Set[str] = set()
            for n in own_nodes(fi.node):
                if isinstance(n, ast.Call):
                    r = self.resolve_call(fi, n)
                    if isinstance(r, FunctionInfo):
                        out.add(r.qualname)
                    elif isinstance(r, ClassInfo):
                        init = r.lookup_method("__init__")
                        if init is not None:
                            out.add(init.qualname)
                        call_ = None
                    # property reads are not calls; `with X:` handled by rules
            cg[fi.qualname] = out
        self._callgraph = cg
        return cg

    def reachable_functions(self, roots: List[str]) -> Set[str]:
        cg = self.callgraph()
        seen = set()
        stack = list(roots)
        while stack:
            q = stack.pop()
            if q in seen:
                continue
            seen.add(q)
            stack.extend(cg.get(q, ()))
        return seen

    # ------------------------------------------------------------------ may-raise summary
    def raises(self) -> Dict[str, bool]:
        """qualname -> function contains (transitively, via resolved repo calls) an explicit `raise`
        that is not marked '# pragma: no cover' (the repo's marker for unreachable defensive code)."""
        if self._raises is not None:
            return self._raises
        direct: Dict[str, bool] = {}
        for fi in self.p.all_functions():
            r = False
            for n in own_nodes(fi.node):
                if isinstance(n, ast.Raise):
                    if _in_no_cover(fi.module, n):
                        continue
                    r = True
                    break
            direct[fi.qualname] = r
        cg = self.callgraph()
        changed = True
        res = dict(direct)
        while changed:
            changed = False
            for q, outs in cg.items():
                if not res.get(q) and any(res.get(o) for o in outs):
                    res[q] = True
                    changed = True
        self._raises = res
        return res

    def call_may_raise(self, fi: FunctionInfo, call: ast.Call) -> bool:
        r = self.resolve_call(fi, call)
        rs = self.raises()
        if isinstance(r, FunctionInfo):
            return rs.get(r.qualname, False)
        if isinstance(r, ClassInfo):
            init = r.lookup_method("__init__")
            return bool(init and rs.get(init.qualname, False))
        return False

    # ------------------------------------------------------------------ attribute stores
    def attribute_stores(self):
        """All stores ``<recv>.<attr> = v`` / ``op=`` / ``del`` in the repo:
        list of (FunctionInfo|None, Module, stmt, target Attribute, value|None, kind)."""
        if self._stores is not None:
            return self._stores
        out = []
        for mod in self.p.modules.values():
            for st in ast.walk(mod.tree):
                tg = []
                val = None
                kind = None
                if isinstance(st, ast.Assign):
                    tg, val, kind = st.targets, st.value, "assign"
                elif isinstance(st, ast.AugAssign):
                    tg, val, kind = [st.target], st.value, "aug"
                elif isinstance(st, ast.AnnAssign):
                    if st.value is None:
                        continue
                    tg, val, kind = [st.target], st.value, "assign"
                elif isinstance(st, ast.Delete):
                    tg, val, kind = st.targets, None, "del"
                else:
                    continue
                flat = []
                for t in tg:
                    flat += _flatten_targets(t)
                for t in flat:
                    if isinstance(t, ast.Attribute):
                        out.append((self.owner_function(mod, st), mod, st, t, val, kind))
        self._stores = out
        return out

    def owner_function(self, mod: Module, node: ast.AST) -> Optional[FunctionInfo]:
        chain = []
        n = getattr(node, "_parent", None)
        while n is not None:
            if isinstance(n, (ast.FunctionDef, ast.AsyncFunctionDef, ast.ClassDef)):
                chain.append(n)
            n = getattr(n, "_parent", None)
        if not chain:
            return None
        # find FunctionInfo whose node is the innermost function
        for c in chain:
            if isinstance(c, (ast.FunctionDef, ast.AsyncFunctionDef)):
                for f in self.p.functions.values():
                    if f.node is c:
                        return f
                return None
        return None

    def functions_by_node(self):
        if not hasattr(self, "_fbn"):
            self._fbn = {id(f.node): f for f in self.p.functions.values()}
        return self._fbn


def _in_no_cover(mod: Module, node: ast.AST) -> bool:
    """raise statement itself, or the if/else header that guards it, is marked pragma: no cover."""
    if is_pragma_no_cover(mod, node):
        return True
    par = getattr(node, "_parent", None)
    while par is not None and not isinstance(par, (ast.FunctionDef, ast.AsyncFunctionDef, ast.ClassDef, ast.Module)):
        if isinstance(par, ast.If):
            # which arm are we in?
            in_body = any(_contains(b, node) for b in par.body)
            if in_body and is_pragma_no_cover(mod, par):
                return True
            if not in_body and par.orelse:
                # `else:  # pragma: no cover` -> the else line is the line before first orelse stmt
                first = par.orelse[0]
                for ln in range(first.lineno - 1, max(par.body[-1].end_lineno - 1, 0), -1):
                    if "else" in mod.lines[ln - 1] and "pragma: no cover" in mod.lines[ln - 1]:
                        return True
        if isinstance(par, ast.ExceptHandler) and is_pragma_no_cover(mod, par):
            return True
        par = getattr(par, "_parent", None)
    if isinstance(par, (ast.FunctionDef, ast.AsyncFunctionDef)):
        # def f(...):  # pragma: no cover   (possibly on the line closing the signature)
        for ln in range(par.lineno, par.body[0].lineno + 1):
            if "pragma: no cover" in mod.lines[ln - 1]:
                return True
    return False


def _contains(root: ast.AST, node: ast.AST) -> bool:
    for n in ast.walk(root):
        if n is node:
            return True
    return False


def _names(t: ast.AST) -> Set[str]:
    return {n.id for n in ast.walk(t) if isinstance(n, ast.Name)}


def _flatten_targets(t: ast.AST) -> List[ast.AST]:
    if isinstance(t, (ast.Tuple, ast.List)):
        out = []
        for e in t.elts:
            out += _flatten_targets(e)
        return out
    if isinstance(t, ast.Starred):
        return _flatten_targets(t.value)
    return [t]


def find_stmts(fn_node: ast.AST, pred) -> List[ast.AST]:
    return [n for n in own_nodes(fn_node) if pred(n)]


def calls_named(fn_node: ast.AST, suffix: str) -> List[ast.Call]:
    """Calls whose dotted callee ends with `suffix` (e.g. 'lock_arr_writeability')."""
    out = []
    for n in own_nodes(fn_node):
        if isinstance(n, ast.Call):
            d = dotted(n.func)
            if d is not None and (d == suffix or d.endswith("." + suffix)):
                out.append(n)
            elif d is None and isinstance(n.func, ast.Attribute) and n.func.attr == suffix:
                out.append(n)
    return sorted(out, key=lambda c: (c.lineno, c.col_offset))


def stmt_of(node: ast.AST) -> ast.AST:
    """Innermost enclosing statement."""
    n = node
    while n is not None and not isinstance(n, ast.stmt):
        n = getattr(n, "_parent", None)
    return n


def kw(call: ast.Call, name: str) -> Optional[ast.expr]:
    for k in call.keywords:
        if k.arg == name:
            return k.value
    return None


def is_none(e: Optional[ast.AST]) -> bool:
    return isinstance(e, ast.Constant) and e.value is None


def attr_chain_root(e: ast.AST) -> Optional[str]:
    while isinstance(e, (ast.Attribute, ast.Subscript)):
        e = e.value
    if isinstance(e, ast.Name):
        return e.id
    return None


def loc(fi_or_mod, node) -> str:
    rel = fi_or_mod.relpath if isinstance(fi_or_mod, Module) else fi_or_mod.module.relpath
    return f"{rel}:{getattr(node, 'lineno', 0)}"
