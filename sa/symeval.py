"""Symbolic (term-domain) evaluation of closed-form, loop-free function bodies.

`eval_function` walks a function body linearly, binding locals to sympy terms; `if` tests are three-valued-evaluated
under the given assumptions (index == k, NP_IS_V2 ...). Anything not understood raises Untranslatable -> "not covered".
No repository code is executed."""
from __future__ import annotations

import ast
from typing import Callable, Dict, List, Optional

import sympy as sp

from .cfg import UNKNOWN as U3, eval3
from .common import Facts
from .model import External, FunctionInfo, dotted, norm
from .terms import NP_CONSTS, NP_FUNCS, Untranslatable, _is_bool


class TensorSym:
    """A tensor-valued local: `.data` is the symbol."""

    def __init__(self, data):
        self.data = data


class Ctx:
    def __init__(self, fx: Facts, fi: FunctionInfo, assume: Dict[str, object]):
        self.fx = fx
        self.fi = fi
        self.assume = assume
        self.env: Dict[str, object] = {}
        self.self_attrs: Dict[str, object] = {}
        self.ret = None


def _num(v):
    if isinstance(v, TensorSym):
        return v.data
    return v


def ev(e: ast.AST, c: Ctx, depth: int = 0):
    t = norm(e)
    if isinstance(e, ast.Constant):
        if isinstance(e.value, bool):
            return sp.true if e.value else sp.false
        if isinstance(e.value, int):
            return sp.Integer(e.value)
        if isinstance(e.value, float):
            return sp.Rational(repr(e.value)) if len(repr(e.value)) < 12 else sp.Float(repr(e.value), 40)
        if e.value is None:
            return None
        raise Untranslatable(t)
    if isinstance(e, ast.Name):
        if e.id in c.env:
            return c.env[e.id]
        # module-level numeric constant
        r = c.fx.p.module_symbol(c.fi.module, e.id)
        if isinstance(r, tuple) and r[0] == "value" and isinstance(r[2], ast.Constant) and isinstance(r[2].value, (int, float)):
            return ev(r[2], c)
        if isinstance(r, FunctionInfo):
            return r
        raise Untranslatable(f"free name {e.id}")
    if isinstance(e, ast.Attribute):
        if norm(e.value) == "self":
            if e.attr in c.self_attrs:
                return c.self_attrs[e.attr]
            raise Untranslatable(f"self.{e.attr} not defined by the forward pass")
        d = dotted(e)
        if d and d.split(".")[0] in ("np", "numpy") and d.split(".")[-1] in NP_CONSTS and NP_CONSTS[d.split(".")[-1]] is not None:
            return NP_CONSTS[d.split(".")[-1]]
        if d and d.split(".")[0] in ("np", "numpy") and d.split(".")[-1] in NP_FUNCS:
            return NP_FUNCS[d.split(".")[-1]]
        b = ev(e.value, c, depth)
        if e.attr == "data" and isinstance(b, TensorSym):
            return b.data
        if e.attr == "data":
            return b
        if e.attr == "dtype":
            return None
        raise Untranslatable(t)
    if isinstance(e, ast.Subscript):
        if norm(e.value) == "self.variables":
            idx = ev(e.slice, c, depth)
            if idx is not None and getattr(idx, "is_Integer", False):
                return TensorSym(sp.Symbol(f"x{int(idx)}", real=True))
        raise Untranslatable(t)
    if isinstance(e, ast.UnaryOp):
        v = _num(ev(e.operand, c, depth))
        if isinstance(e.op, ast.USub):
            return -v
        if isinstance(e.op, ast.UAdd):
            return v
        if isinstance(e.op, (ast.Invert, ast.Not)):
            return sp.Not(v)
    if isinstance(e, ast.BinOp):
        a, b = _num(ev(e.left, c, depth)), _num(ev(e.right, c, depth))
        if a is None or b is None:
            raise Untranslatable(t)
        if isinstance(e.op, ast.Add):
            return _b2n(a) + _b2n(b)
        if isinstance(e.op, ast.Sub):
            return _b2n(a) - _b2n(b)
        if isinstance(e.op, ast.Mult):
            if _is_bool(a):
                return sp.Piecewise((b, a), (0, True))
            if _is_bool(b):
                return sp.Piecewise((a, b), (0, True))
            return a * b
        if isinstance(e.op, ast.Div):
            return a / b
        if isinstance(e.op, ast.Pow):
            return a ** b
        raise Untranslatable(t)
    if isinstance(e, ast.Compare) and len(e.ops) == 1 and isinstance(e.ops[0], (ast.Is, ast.IsNot)) \
            and isinstance(e.comparators[0], ast.Constant) and e.comparators[0].value is None:
        v = ev(e.left, c, depth)
        isnone = v is None
        return sp.true if (isnone == isinstance(e.ops[0], ast.Is)) else sp.false
    if isinstance(e, ast.Compare) and len(e.ops) == 1:
        a, b = _num(ev(e.left, c, depth)), _num(ev(e.comparators[0], c, depth))
        rel = {ast.Lt: sp.Lt, ast.LtE: sp.Le, ast.Gt: sp.Gt, ast.GtE: sp.Ge, ast.Eq: sp.Eq, ast.NotEq: sp.Ne}.get(type(e.ops[0]))
        if rel is None or a is None or b is None:
            raise Untranslatable(t)
        return rel(a, b)
    if isinstance(e, ast.IfExp):
        v3 = eval3(e.test, c.assume)
        if v3 is not U3:
            return ev(e.body if v3 else e.orelse, c, depth)
        tst = ev(e.test, c, depth)
        if tst is sp.true:
            return ev(e.body, c, depth)
        if tst is sp.false:
            return ev(e.orelse, c, depth)
        return sp.Piecewise((_num(ev(e.body, c, depth)), tst), (_num(ev(e.orelse, c, depth)), True))
    if isinstance(e, ast.Lambda):
        return e
    if isinstance(e, (ast.Tuple, ast.List)):
        return [ev(x, c, depth) for x in e.elts]
    if isinstance(e, ast.Call):
        return ev_call(e, c, depth)
    raise Untranslatable(t)


def _pw(a, cond, b):
    """Piecewise((a, cond), (b, True)) for numbers *or* booleans"""
    if _is_bool(a) or _is_bool(b):
        return sp.Or(sp.And(cond, a), sp.And(sp.Not(cond), b))
    return sp.Piecewise((a, cond), (b, True))


def _b2n(v):
    if _is_bool(v):
        return sp.Piecewise((1, v), (0, True))
    return v


def _apply(fn, arg, c: Ctx, depth: int):
    """apply a 'function value' (numpy callable, lambda, repo function, constant) to a term"""
    if isinstance(fn, ast.Lambda):
        if len(fn.args.args) != 1:
            raise Untranslatable("lambda arity")
        saved = dict(c.env)
        c.env[fn.args.args[0].arg] = arg
        try:
            return _num(ev(fn.body, c, depth))
        finally:
            c.env = saved
    if isinstance(fn, FunctionInfo):
        return eval_function(c.fx, fn, [arg], {}, depth=depth + 1)
    if callable(fn) and not isinstance(fn, sp.Basic):
        return fn(arg)
    return fn  # constant


def ev_call(e: ast.Call, c: Ctx, depth: int):
    t = norm(e)
    f = e.func
    name = None
    ext = c.fx.ext_name_of(c.fi, f)
    if ext and ext.startswith("numpy."):
        name = ext.split(".")[-1]
    if name is None:
        d = dotted(f)
        if d and d.split(".")[0] in ("np", "numpy"):
            name = d.split(".")[-1]
    out_kw = None
    for k in e.keywords:
        if k.arg == "out":
            out_kw = k.value
    if name is not None:
        args = e.args
        res = None
        if name == "where" and len(args) == 3:
            cnd, a, b = (_num(ev(x, c, depth)) for x in args)
            if not _is_bool(cnd):
                cnd = sp.Ne(cnd, 0)
            res = sp.Piecewise((a, cnd), (b, True))
        elif name == "select" and len(args) >= 2:
            conds, vals = ev(args[0], c, depth), ev(args[1], c, depth)
            default = _num(ev(args[2], c, depth)) if len(args) > 2 else sp.Integer(0)
            res = sp.Piecewise(*[(_num(v), cd) for cd, v in zip(conds, vals)], (default, True))
        elif name == "piecewise" and len(args) == 3:
            x = _num(ev(args[0], c, depth))
            conds, vals = ev(args[1], c, depth), ev(args[2], c, depth)
            res = sp.Piecewise(*[(_apply(v, x, c, depth), cd) for cd, v in zip(conds, vals)], (0, True))
        elif name == "isclose" and len(args) >= 2:
            a, b = _num(ev(args[0], c, depth)), _num(ev(args[1], c, depth))
            res = sp.Eq(a, b)
        elif name in ("asarray", "array", "ascontiguousarray", "copy", "float64", "float32", "nan_to_num"):
            res = _b2n(_num(ev(args[0], c, depth)))
        elif name in ("zeros_like",):
            res = sp.Integer(0)
        elif name in ("ones_like",):
            res = sp.Integer(1)
        elif name in ("logical_not",):
            res = sp.Not(_num(ev(args[0], c, depth)))
        elif name in ("logical_and",):
            res = sp.And(*[_num(ev(a, c, depth)) for a in args])
        elif name in ("logical_or",):
            res = sp.Or(*[_num(ev(a, c, depth)) for a in args])
        elif name in NP_FUNCS:
            res = NP_FUNCS[name](*[_num(ev(a, c, depth)) for a in args])
        else:
            raise Untranslatable(f"numpy.{name}")
        where_kw = None
        for k in e.keywords:
            if k.arg == "where":
                where_kw = k.value
        if out_kw is not None and isinstance(out_kw, ast.Name):
            if where_kw is not None:
                w = _num(ev(where_kw, c, depth))
                old = _num(c.env.get(out_kw.id))
                if old is None or not _is_bool(w):
                    raise Untranslatable("where= without a boolean mask / previous out value")
                res = _pw(res, w, old)
            c.env[out_kw.id] = res
        elif where_kw is not None and not (isinstance(where_kw, ast.Constant) and where_kw.value is True):
            raise Untranslatable("where= without out=")
        return res
    if isinstance(f, ast.Attribute) and f.attr in ("astype", "copy"):
        return ev(f.value, c, depth)
    if isinstance(f, ast.Attribute) and f.attr == "numpy_ufunc" and norm(f.value) == "self":
        raise Untranslatable("self.numpy_ufunc")
    if isinstance(f, ast.Attribute) and norm(f.value) == "self" and getattr(c, "self_cls", None) is not None:
        r0 = c.fx.class_attr_value(c.self_cls, f.attr)
        if isinstance(r0, External) and r0.name.startswith("numpy.") and r0.name.split(".")[-1] in NP_FUNCS:
            return NP_FUNCS[r0.name.split(".")[-1]](*[_num(ev(a, c, depth)) for a in e.args])
    r = c.fx.resolve_call(c.fi, e)
    if isinstance(r, FunctionInfo) and depth < 3:
        return eval_function(c.fx, r, [_num(ev(a, c, depth)) for a in e.args], {k.arg: _num(ev(k.value, c, depth)) for k in e.keywords if k.arg}, depth=depth + 1)
    if isinstance(f, ast.Name) and f.id in ("float", "int"):
        return _num(ev(e.args[0], c, depth))
    if isinstance(f, ast.Name) and f.id == "super":
        raise Untranslatable("super()")
    raise Untranslatable(t[:60])


def run_body(body: List[ast.stmt], c: Ctx, depth: int) -> bool:
    """returns True if a return was executed"""
    for st in body:
        if isinstance(st, ast.Expr):
            if isinstance(st.value, ast.Constant):
                continue
            ev(st.value, c, depth)  # e.g. np.exp(x, out=x)
            continue
        if isinstance(st, (ast.Assign, ast.AnnAssign)):
            if getattr(st, "value", None) is None:
                continue
            tg = st.targets if isinstance(st, ast.Assign) else [st.target]
            if any(norm(t) == "self.variables" for t in tg):
                continue
            # unpacking of self.variables
            if isinstance(tg[0], ast.Tuple):
                if norm(st.value) == "self.variables":
                    for i, el in enumerate(tg[0].elts):
                        c.env[norm(el)] = TensorSym(sp.Symbol(f"x{i}", real=True))
                    continue
                if isinstance(st.value, ast.GeneratorExp) and norm(st.value.generators[0].iter) == "self.variables" \
                        and norm(st.value.elt) == f"{norm(st.value.generators[0].target)}.data":
                    for i, el in enumerate(tg[0].elts):
                        c.env[norm(el)] = sp.Symbol(f"x{i}", real=True)
                    continue
                v = ev(st.value, c, depth)
                if isinstance(v, list) and len(v) == len(tg[0].elts):
                    for el, vv in zip(tg[0].elts, v):
                        c.env[norm(el)] = vv
                    continue
                raise Untranslatable(norm(st)[:50])
            v = ev(st.value, c, depth)
            for t in tg:
                if isinstance(t, ast.Name):
                    c.env[t.id] = v
                elif isinstance(t, ast.Attribute) and norm(t.value) == "self":
                    c.self_attrs[t.attr] = v
                else:
                    raise Untranslatable(norm(st)[:50])
            continue
        if isinstance(st, ast.AugAssign):
            if not isinstance(st.target, ast.Name):
                raise Untranslatable(norm(st)[:50])
            cur = _num(c.env.get(st.target.id))
            v = _num(ev(st.value, c, depth))
            if cur is None:
                raise Untranslatable(norm(st)[:50])
            op = st.op
            c.env[st.target.id] = cur + v if isinstance(op, ast.Add) else cur - v if isinstance(op, ast.Sub) else cur * v if isinstance(op, ast.Mult) \
                else cur / v if isinstance(op, ast.Div) else _raise(Untranslatable("augop"))
            continue
        if isinstance(st, ast.Return):
            c.ret = _num(ev(st.value, c, depth)) if st.value is not None else None
            return True
        if isinstance(st, ast.If):
            if "__rank__" in c.assume:
                # scenario supplied by the rule (arrays of rank > 0 / 0-d arrays): it answers every `<x>.ndim` / `<x>.size` truth test, also
                # inside and/or/not (`if not mask.ndim and equal:` is the normal form of `if mask.ndim: pass / elif equal:`)
                asm = dict(c.assume)
                for x_ in ast.walk(st.test):
                    if isinstance(x_, ast.Attribute) and x_.attr in ("ndim", "size"):
                        asm.setdefault(norm(x_), c.assume["__rank__"])
                v3 = eval3(st.test, asm)
                if v3 is U3 and isinstance(st.test, ast.BoolOp):
                    # drop the operands the scenario decides: the residual test is what remains symbolic
                    keep = [v_ for v_ in st.test.values if eval3(v_, asm) is U3]
                    if keep and len(keep) < len(st.test.values):
                        import copy as _cp
                        st = _cp.copy(st)
                        st.test = keep[0] if len(keep) == 1 else ast.BoolOp(op=st.test.op, values=keep)
            else:
                v3 = eval3(st.test, c.assume)
            if v3 is U3 and isinstance(st.test, ast.Attribute) and st.test.attr in ("ndim", "size") and "__rank__" in c.assume:
                v3 = c.assume["__rank__"]  # scenario supplied by the rule: arrays of rank > 0 / 0-d arrays
            if v3 is U3:
                rank_test = isinstance(st.test, ast.Attribute) and st.test.attr in ("ndim", "size")
                tst = None
                if not rank_test:
                    try:
                        tst = _num(ev(st.test, c, depth))
                    except Untranslatable:
                        raise Untranslatable(f"branch on `{norm(st.test)[:40]}`")
                    if tst is sp.true or tst is sp.false:
                        if run_body(st.body if tst is sp.true else st.orelse, c, depth):
                            return True
                        continue
                    if not _is_bool(tst):
                        raise Untranslatable(f"branch on non-boolean `{norm(st.test)[:40]}`")
                # evaluate both arms on copies and merge (if-conversion); arms must not return
                c1, c2 = _fork(c), _fork(c)
                r1, r2 = run_body(st.body, c1, depth), run_body(st.orelse, c2, depth)
                if r1 or r2:
                    raise Untranslatable(f"return inside a symbolic branch `{norm(st.test)[:40]}`")
                for store in ("env", "self_attrs"):
                    d1, d2 = getattr(c1, store), getattr(c2, store)
                    merged = {}
                    for k in set(d1) | set(d2):
                        if k not in d1 or k not in d2:
                            continue
                        a_, b_ = d1[k], d2[k]
                        if a_ is b_ or (isinstance(a_, sp.Basic) and isinstance(b_, sp.Basic) and a_ == b_):
                            merged[k] = a_
                        elif isinstance(_num(a_), sp.Basic) and isinstance(_num(b_), sp.Basic):
                            if rank_test:
                                # a test of the array's rank selects between two spellings of the same elementwise function
                                if sp.simplify(sp.Equivalent(a_, b_) if _is_bool(a_) and _is_bool(b_) else (_num(a_) - _num(b_))) in (sp.true, 0):
                                    merged[k] = a_
                                else:
                                    raise Untranslatable(f"rank-dependent value for `{k}`")
                            else:
                                merged[k] = _pw(_num(a_), tst, _num(b_))
                    setattr(c, store, merged)
                continue
            if run_body(st.body if v3 else st.orelse, c, depth):
                return True
            continue
        if isinstance(st, ast.With):
            # np.errstate(...) and similar managers do not change the mathematical value of the body
            if all((dotted(i.context_expr.func) or "").endswith("errstate") for i in st.items if isinstance(i.context_expr, ast.Call)) \
                    and all(isinstance(i.context_expr, ast.Call) for i in st.items):
                if run_body(st.body, c, depth):
                    return True
                continue
            raise Untranslatable("with-statement")
        if isinstance(st, ast.Raise):
            raise Untranslatable("raise")
        if isinstance(st, (ast.Pass, ast.Assert)):
            continue
        raise Untranslatable(type(st).__name__)
    return False


def _fork(c: Ctx) -> Ctx:
    n = Ctx(c.fx, c.fi, c.assume)
    n.env = dict(c.env)
    n.self_attrs = dict(c.self_attrs)
    return n


def _raise(e):
    raise e


def eval_function(fx: Facts, fi: FunctionInfo, args: List[object], kwargs: Dict[str, object], depth: int = 0,
                  assume: Optional[Dict[str, object]] = None, self_attrs: Optional[Dict[str, object]] = None, want_ctx=False, self_cls=None):
    c = Ctx(fx, fi, assume or {})
    c.self_cls = self_cls
    if self_attrs:
        c.self_attrs = dict(self_attrs)
    a = fi.node.args
    names = [x.arg for x in a.posonlyargs + a.args]
    if fi.cls is not None and names and names[0] in ("self", "cls"):
        names = names[1:]
    for n, v in zip(names, args):
        c.env[n] = v
    for k, v in kwargs.items():
        c.env[k] = v
    # defaults
    pos = a.posonlyargs + a.args
    for p, d in zip(pos[len(pos) - len(a.defaults):], a.defaults):
        if p.arg not in c.env and isinstance(d, ast.Constant):
            try:
                c.env[p.arg] = ev(d, c)
            except Untranslatable:
                pass
    for p, d in zip(a.kwonlyargs, a.kw_defaults):
        if p.arg not in c.env and isinstance(d, ast.Constant):
            try:
                c.env[p.arg] = ev(d, c)
            except Untranslatable:
                pass
    if not run_body(fi.node.body, c, depth):
        raise Untranslatable("no return reached")
    if want_ctx:
        return c
    return c.ret
