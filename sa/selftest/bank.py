"""Self-test bank: must-fire mutants and must-stay-silent refactors, applied to the *current* sources in memory
(overlay) -- no scratch copies.  A rule that has gone blind or noisy on today's tree is detected at check time."""
from __future__ import annotations

import ast
import os
import sys
from concurrent.futures import ProcessPoolExecutor
from typing import Dict, List, Optional, Tuple

HERE = os.path.dirname(os.path.dirname(os.path.dirname(os.path.abspath(__file__))))
if HERE not in sys.path:
    sys.path.insert(0, HERE)

from sa.selftest.cases import BENIGN, MUTANTS  # noqa: E402


def _segment(src: str, qual: Optional[str]) -> Tuple[int, int]:
    """character span of function/class `A.b` (dotted path inside the module) or the whole file"""
    if not qual:
        return 0, len(src)
    tree = ast.parse(src)
    node = tree
    for part in qual.split("."):
        found = None
        cands = [n for n in ast.iter_child_nodes(node) if isinstance(n, (ast.FunctionDef, ast.ClassDef, ast.AsyncFunctionDef)) and n.name == part]
        if part.endswith("@setter"):
            nm = part[:-7]
            cands = [n for n in ast.iter_child_nodes(node) if isinstance(n, ast.FunctionDef) and n.name == nm
                     and any(isinstance(d, ast.Attribute) and d.attr == "setter" for d in n.decorator_list)]
        if not cands:
            raise KeyError(qual)
        found = cands[-1]
        node = found
    lines = src.split("\n")
    start = sum(len(l) + 1 for l in lines[: node.lineno - 1])
    end = sum(len(l) + 1 for l in lines[: node.end_lineno])
    return start, end


def apply_edit(repo: str, rel: str, qual: Optional[str], old: str, new: str, overlay: Dict[str, str]) -> bool:
    src = overlay.get(rel)
    if src is None:
        with open(os.path.join(repo, rel), encoding="utf-8") as fh:
            src = fh.read()
    try:
        a, b = _segment(src, qual)
    except (KeyError, SyntaxError):
        return False
    seg = src[a:b]
    if old.startswith("WORD:"):
        import re
        pat = re.compile(r"(?<![\w.])" + re.escape(old[5:]) + r"(?![\w])")
        if not pat.search(seg):
            return False
        seg = pat.sub(new, seg)
        out = src[:a] + seg + src[b:]
        try:
            ast.parse(out)
        except SyntaxError:
            return False
        overlay[rel] = out
        return True
    everywhere = old.startswith("ALL:")
    if everywhere:
        old = old[4:]
    if seg.count(old) < 1:
        return False
    seg = seg.replace(old, new) if everywhere else seg.replace(old, new, 1)
    out = src[:a] + seg + src[b:]
    try:
        ast.parse(out)
    except SyntaxError:
        return False
    overlay[rel] = out
    return True


_BASE: Dict[str, Tuple[set, Optional[str]]] = {}


def _baseline(prop: str):
    if prop not in _BASE:
        _BASE[prop] = _violations(prop, None)
    return _BASE[prop]


def _violations(prop: str, overlay) -> Tuple[set, Optional[str]]:
    """the verdict of the check on this tree: keys of its unlisted violations (open known findings matched as report.finish does) and its
    analysis errors (incl. rules below their floor)"""
    from sa import check
    from sa.model import AnalysisError
    from sa.report import verdict
    try:
        run = check.run_property(prop, "quick", overlay=overlay)
        v, errs = verdict(run)
        return set(v), ("ANALYSIS-ERROR " + "; ".join(errs)[:300]) if errs else None
    except AnalysisError as e:
        return set(), f"ANALYSIS-ERROR {e}"
    except Exception as e:  # noqa
        return set(), f"CRASH {type(e).__name__}: {e}"


def _one(case) -> dict:
    from sa.model import REPO
    kind, props, cid, edits, expect = case
    overlay: Dict[str, str] = {}
    for ed in edits:
        if len(ed) == 3:  # (file, dotted path, callable(segment) -> new segment | None)
            rel, qual, fn = ed
            full = "src/mygrad/" + rel
            src = overlay.get(full)
            if src is None:
                with open(os.path.join(REPO, full), encoding="utf-8") as fh:
                    src = fh.read()
            try:
                a, b = _segment(src, qual)
                seg = fn(src[a:b])
            except Exception:
                seg = None
            if seg is None:
                return {"id": cid, "kind": kind, "status": "inapplicable", "detail": f"transformer not applicable in {rel}:{qual}"}
            out = src[:a] + seg + src[b:]
            try:
                ast.parse(out)
            except SyntaxError as e:
                return {"id": cid, "kind": kind, "status": "inapplicable", "detail": f"transformer produced invalid syntax: {e}"}
            overlay[full] = out
            continue
        rel, qual, old, new = ed
        if not apply_edit(REPO, "src/mygrad/" + rel, qual, old, new, overlay):
            return {"id": cid, "kind": kind, "status": "inapplicable", "detail": f"anchor text not found in {rel}:{qual}"}
    res = {"id": cid, "kind": kind, "status": "ok", "detail": ""}
    for prop in props:
        base, err0 = _baseline(prop)
        got, err = _violations(prop, overlay)
        new = got - base
        if kind == "mutant":
            if any(r == expect or r.startswith(expect) for r, _, _ in new):
                hit = [x for x in new if x[0].startswith(expect)][0]
                res["detail"] = f"{hit[0]} {hit[1]}: {hit[2][:80]}"
            elif err and err.startswith("CRASH"):
                res.update(status="failed", detail=f"{prop}: {err}")
            elif err:
                # an analysis error is an acceptable way to refuse a tree (exit 2), but the mutant is not *named*
                res.update(status="refused", detail=f"{prop}: {err}")
            elif not any(r == expect or r.startswith(expect) for r, _, _ in new):
                res.update(status="failed", detail=f"{prop}: expected a new {expect} violation, got {sorted(new)[:3]}")
            else:
                hit = [x for x in new if x[0].startswith(expect)][0]
                res["detail"] = f"{hit[0]} {hit[1]}: {hit[2][:80]}"
        else:
            if err:
                res.update(status="failed", detail=f"{prop}: {err}")
            elif new:
                res.update(status="failed", detail=f"{prop}: benign refactor raised {sorted(new)[:2]}")
    return res


def cases_for(prop: Optional[str]):
    out = []
    for m in MUTANTS:
        if prop is None or m[0] == prop:
            out.append(("mutant", [m[0]], m[1], m[2], m[3]))
    for b in BENIGN:
        if prop is None or prop in b[0]:
            out.append(("benign", [prop] if prop else list(b[0]), b[1], b[2], None))
    return out


def run_for_property(prop: Optional[str], jobs: int = 8) -> dict:
    cases = cases_for(prop)
    if len(cases) > 2 and jobs > 1:
        with ProcessPoolExecutor(max_workers=min(jobs, len(cases))) as ex:
            results = list(ex.map(_one, cases))
    else:
        results = [_one(c) for c in cases]
    muts = [r for r in results if r["kind"] == "mutant"]
    ben = [r for r in results if r["kind"] == "benign"]
    failed = [f"{r['id']}: {r['detail']}" for r in results if r["status"] == "failed"]
    return {
        "mutants": len(muts), "mutants_fired": sum(1 for r in muts if r["status"] == "ok"),
        "mutants_refused_exit2": [r["id"] for r in muts if r["status"] == "refused"],
        "benign": len(ben), "benign_silent": sum(1 for r in ben if r["status"] == "ok"),
        "inapplicable": [r["id"] for r in results if r["status"] == "inapplicable"],
        "failed": failed,
        "samples": [f"{r['id']} -> {r['detail']}" for r in muts if r["status"] == "ok"][:12],
    }


def _fixture_one(job):
    """(kind, id, patch path, prop) -> (kind, id, status, detail): independent seeded changes that this property's check caught when they were
    filed must still be caught; independently written behaviour-preserving changes must leave it silent"""
    kind, sid, patch, prop = job
    tools = os.path.join(HERE, "tools")
    if tools not in sys.path:
        sys.path.insert(0, tools)
    import matrix_par
    ov = matrix_par.overlay_of(patch)
    if isinstance(ov, str):
        return kind, sid, "inapplicable", ov[:80]
    base, _ = _baseline(prop)
    got, err = _violations(prop, ov)
    new = got - base
    if kind == "seed":
        return (kind, sid, "ok", sorted(new)[0][0]) if new else (kind, sid, "failed", f"{prop} no longer reports this change" + (f" ({err})" if err else ""))
    return (kind, sid, "ok", "") if not new and not err else (kind, sid, "failed", f"{prop} raised {sorted(new)[:1] or err}")


def run_fixtures_for_property(prop: str, jobs: int = 16) -> dict:
    import glob
    import json
    res_file = os.path.join(HERE, "seeded", "results.json")
    expected = {}
    if os.path.exists(res_file):
        with open(res_file) as fh:
            for sid, r in json.load(fh).items():
                if prop in r.get("fired", {}) and r["fired"][prop].get("exit") == 1:
                    expected[sid] = True
    work = [("seed", sid, os.path.join(HERE, "seeded", sid, "patch.diff"), prop) for sid in sorted(expected)
            if os.path.exists(os.path.join(HERE, "seeded", sid, "patch.diff"))]
    work += [("benign", os.path.basename(os.path.dirname(p)), p, prop) for p in sorted(glob.glob(os.path.join(HERE, "benign", "*", "patch.diff")))]
    if not work:
        return {"seeds": 0, "benign": 0, "failed": [], "inapplicable": []}
    with ProcessPoolExecutor(max_workers=min(jobs, len(work))) as ex:
        results = list(ex.map(_fixture_one, work))
    return {
        "seeds": sum(1 for r in results if r[0] == "seed"), "seeds_caught": sum(1 for r in results if r[0] == "seed" and r[2] == "ok"),
        "benign": sum(1 for r in results if r[0] == "benign"), "benign_silent": sum(1 for r in results if r[0] == "benign" and r[2] == "ok"),
        "inapplicable": [r[1] for r in results if r[2] == "inapplicable"],
        "failed": [f"{r[0]} {r[1]}: {r[3]}" for r in results if r[2] == "failed"],
    }


if __name__ == "__main__":
    import json
    p = sys.argv[1] if len(sys.argv) > 1 else None
    r = run_for_property(None if p in (None, "all") else p, jobs=16)
    print(json.dumps(r, indent=1))
    sys.exit(1 if r["failed"] else 0)
