"""Mutants (must fire the named rule) and benign refactors (must stay silent).

MUTANTS:  (property, id, [(file relative to src/mygrad, dotted path of the enclosing def/class or None, old, new), ...], expected rule prefix)
BENIGN:   ((properties...), id, [edits...])
Edits are located inside the named function (a semantic anchor), never by line number."""

TB = "tensor_base.py"
OBF = "operation_base.py"
UT = "_utils/__init__.py"
LM = "_utils/lock_management.py"
DG = "_utils/duplicating_graph.py"
GT = "_utils/graph_tracking.py"
GRU = "nnet/layers/gru.py"

MUTANTS = [
    # ---------------------------------------------------------------- C01
    ("C01", "c01-preorder", [(UT, "collect_all_tensors_and_clear_grads", "    _marked.add(id_)\n", "    _marked.add(id_)\n    topo_sorted_tensors.appendleft(t)\n"),
                             (UT, "collect_all_tensors_and_clear_grads", "    seen.add(id_)\n    topo_sorted_tensors.appendleft(t)\n", "    seen.add(id_)\n")], "R01.1"),
    ("C01", "c01-append-forward", [(UT, "collect_all_tensors_and_clear_grads", "topo_sorted_tensors.appendleft(t)", "topo_sorted_tensors.append(t)")], "R01.1"),
    ("C01", "c01-no-seen-add", [(UT, "collect_all_tensors_and_clear_grads", "    seen.add(id_)\n", "")], "R01.1"),
    ("C01", "c01-overwrite", [(OBF, "Operation.backward", "var._grad += backed_grad", "var._grad = backed_grad")], "R01.3"),
    ("C01", "c01-skip-postprocess", [(OBF, "Operation.backward", "backed_grad = self.grad_post_process_fn(backed_grad, var.shape)\n", "pass\n")], "R01.4"),
    ("C01", "c01-mask-dropped", [(OBF, "Operation.backward", "backed_grad = backed_grad * self.where", "pass")], "R01.4"),
    ("C01", "c01-seed-before-collect", [(TB, "Tensor.backward", "        collect_all_tensors_and_clear_grads(self, seen, topo_sorted_tensors)\n", ""),
                                        (TB, "Tensor.backward", "        self._grad = _grad\n", "        self._grad = _grad\n        collect_all_tensors_and_clear_grads(self, seen, topo_sorted_tensors)\n")], "R01.2"),
    ("C01", "c01-variables-dropped", [("nnet/layers/conv.py", "ConvND.__call__", "self.variables = (x, w)", "self.variables = (x,)")], "R01.5"),
    ("C01", "c01-site-extra-tensor", [("math/sequential/funcs.py", "cumsum", "Tensor._op(CumSum, a,", "Tensor._op(CumSum, a, a,")], "R01.5"),
    ("C01", "c01-wrong-index", [(OBF, "Operation.backward", "self.backward_var(grad, index, **kwargs)", "self.backward_var(grad, 0, **kwargs)")], "R01.3"),
    ("C01", "c01-gru-skips-bh", [(GRU, "GRUnit.backward", "        if not self.bh.constant:\n            _backprop(\n                self.bh,", "        if not self.bh.constant and self._dropout:\n            _backprop(\n                self.bh,")], "R01.6"),
    # ---------------------------------------------------------------- C02
    ("C02", "c02-cos-sign", [("math/trigonometric/ops.py", "Cos.backward_var", "grad * -np.sin(a.data)", "grad * np.sin(a.data)")], "R02.1"),
    ("C02", "c02-log2-const", [("math/exp_log/ops.py", "Log2.backward_var", "np.log(2)", "np.log(10)")], "R02.1"),
    ("C02", "c02-divide-b", [("math/arithmetic/ops.py", "Divide.backward_var", "-grad * a.data / (b.data**2)", "-grad * a.data / b.data")], "R02.1"),
    ("C02", "c02-arcsin-convention", [("math/trigonometric/ops.py", "Arcsin.backward_var", "np.select([np.abs(a.data) != 1], [grad / np.sqrt(1 - a.data**2)])", "grad / np.sqrt(1 - a.data**2)")], "R02.1"),
    ("C02", "c02-abs-convention", [("math/misc/ops.py", "Abs.backward_var", "(0 if self._nan_to_num else np.nan)", "(1 if self._nan_to_num else np.nan)")], "R02.1"),
    ("C02", "c02-max-tie", [("math/misc/ops.py", "_MaxMin.backward_var", "                np.logical_not(mask, out=mask, where=equal_mask)\n", "                pass\n")], "R02.1"),
    ("C02", "c02-selu-scale", [("nnet/activations/selu.py", "SELU.backward_var", "grad * _SCALE * np.where", "grad * np.where")], "R02.1"),
    ("C02", "c02-affine", [("math/hyperbolic_trig/ops.py", "Tanh.backward_var", "grad * (1 - np.tanh(a.data) ** 2)", "grad * (1 - np.tanh(a.data) ** 2) + np.tanh(a.data)")], "R02.2"),
    ("C02", "c02-gradfree", [("tensor_manip/array_shape/ops.py", "_PreservesOrder.backward_var", "np.reshape(grad, a.shape)", "np.ones(a.shape)")], "R02.2"),
    ("C02", "c02-index-hole", [("math/arithmetic/ops.py", "Multiply.backward_var", "elif index == 1:", "elif index == 2:")], "R02.3"),
    ("C02", "c02-state-missing", [(OBF, "Sequential.__call__", "        self.ddof = ddof\n", "")], "R02.4"),
    ("C02", "c02-state-conditional", [("nnet/activations/elu.py", "ELU.__call__", "        self.alpha = alpha\n", "        if alpha != 1:\n            self.alpha = alpha\n")], "R02.4"),
    # ---------------------------------------------------------------- C03
    ("C03", "c03-dtype-dropped", [(OBF, "UnaryUfunc.__call__", "out=out, where=where, dtype=dtype)", "out=out, where=where)")], "R03.1"),
    ("C03", "c03-binary-where", [(OBF, "BinaryUfunc.__call__", "if where is not True and where is not _NoValue:", "if where is not True and where is not _NoValue and out is not None:")], "R03.1"),
    ("C03", "c03-ddof-not-forwarded", [(OBF, "Sequential.__call__", '            kwargs["ddof"] = ddof\n', "            pass\n")], "R03.1"),
    ("C03", "c03-operands-swapped", [(OBF, "BinaryUfunc.__call__", "return self.numpy_ufunc(x1.data, x2.data, out=out, dtype=dtype)", "return self.numpy_ufunc(x2.data, x1.data, out=out, dtype=dtype)")], "R03.1"),
    ("C03", "c03-dead-param", [("math/sequential/funcs.py", "var", '"keepdims": keepdims, "ddof": ddof}', '"keepdims": keepdims, "ddof": 0}')], "R03.2"),
    ("C03", "c03-tracking-dependent", [("nnet/losses/multiclass_hinge.py", "MulticlassHinge.__call__", "if _tracking.TRACK_GRAPH:", "if _tracking.TRACK_GRAPH:\n            Lij *= 1.0")], "R03.3"),
    # ---------------------------------------------------------------- C04
    ("C04", "c04-reshape-flag", [("tensor_manip/array_shape/ops.py", "Reshape", "    can_return_view = True\n", "")], "R04.1"),
    ("C04", "c04-atleast-flag", [("tensor_manip/array_shape/ops.py", "_AtLeastKD", "    can_return_view = True\n", "")], "R04.1"),
    ("C04", "c04-imul-op", [(TB, "Tensor.__imul__", "self._in_place_op(Multiply, self, other)", "self._in_place_op(Add, self, other)")], "R04.2"),
    ("C04", "c04-iadd-new-object", [(TB, "Tensor.__iadd__", "        self._in_place_op(Add, self, other)\n        return self", "        return self._op(Add, self, other)")], "R04.2"),
    ("C04", "c04-mirror-shares-dict", [(DG, "mirror_tensor", "target.__dict__ = source.__dict__.copy()", "target.__dict__ = source.__dict__")], "R04.3"),
    ("C04", "c04-base-not-owner", [(TB, "Tensor._op", "                        else parent_var.base\n", "                        else parent_var\n")], "R04.4"),
    ("C04", "c04-sharing-config-dropped", [(TB, "Tensor._op", "                    or (op_out is parent_data)\n", "")], "R04.4"),
    # ---------------------------------------------------------------- C05
    ("C05", "c05-write-into-self", [(TB, "Tensor._in_place_op", "                        out=inplace_target.data,\n", "                        out=self.data,\n")], "R05.1"),
    ("C05", "c05-no-copy", [(TB, "Tensor._in_place_op", "mutant_base = graph.base.tensor.copy()", "mutant_base = graph.base.tensor")], "R05.1"),
    ("C05", "c05-no-reroute", [(DG, "make_placeholder_tensor", "    reroute_ops_through(target=placeholder, source=original)\n", "")], "R05.2"),
    ("C05", "c05-reroute-swapped", [(DG, "make_placeholder_tensor", "reroute_ops_through(target=placeholder, source=original)", "reroute_ops_through(target=original, source=placeholder)")], "R05.2"),
    ("C05", "c05-public-operands", [(TB, "Tensor._in_place_op", "*(graph.get_placeholder_if_exists(t) for t in input_vars)", "*input_vars")], "R05.1"),
    ("C05", "c05-no-restore", [(TB, "Tensor._in_place_op", "            graph.restore_old_graph()\n            raise e", "            raise e")], "R05.3"),
    # ---------------------------------------------------------------- C06
    ("C06", "c06-no-pull", [(TB, "Tensor.clear_graph", "            _ = self.grad\n", "            pass\n")], "R06.1"),
    ("C06", "c06-pull-after-drop", [(TB, "Tensor.clear_graph", "        if self._base is not None:\n            # \"pull\" on grad to force views to update their\n            # gradients from upstream before the graph info\n            # gets cleared\n            _ = self.grad\n", ""),
                                    (TB, "Tensor.clear_graph", "        for var in creator.variables:", "        if self._base is not None:\n            _ = self.grad\n        for var in creator.variables:")], "R06.1"),
    ("C06", "c06-unpaired-null", [(TB, "Tensor.null_grad", "        self._view_grad = None\n", "")], "R06.2"),
    ("C06", "c06-op-unpaired-null", [(TB, "Tensor._op", "                    v._view_grad = None\n", "")], "R06.2"),
    ("C06", "c06-grad-tracked-replay", [(TB, "Tensor.grad", "        with _track.no_autodiff:\n            self._view_grad", "        if True:\n            self._view_grad")], "R06.4"),
    # ---------------------------------------------------------------- C07
    ("C07", "c07-strong-op-ref", [(TB, "Tensor._op", "ref_f = ReferenceType(f)", "ref_f = f")], "R07.1"),
    ("C07", "c07-gru-cycle", [(GRU, "gru", "s.creator._hidden_seq = weakref.ref(s)", "s.creator._hidden_seq = lambda s=s: s")], "R07.2"),
    ("C07", "c07-finalize-strong", [(LM, "force_lock_tensor_and_creators", "tensor_refs = WeakRefIterable(unique_arrs)", "tensor_refs = list(unique_arrs)")], "R07.3"),
    ("C07", "c07-ops-not-cleared", [(TB, "Tensor.clear_graph", "        self._view_children.clear()\n        self._ops.clear()\n\n        if self._creator is None:\n            return\n", "        self._view_children.clear()\n\n        if self._creator is None:\n            return\n        self._ops.clear()\n")], "R07.4"),
    ("C07", "c07-recursion-before-drop", [(TB, "Tensor.clear_graph", "        self._creator = None  # marks tensor as \"visited\" during graph-traversal\n", ""),
                                          (TB, "Tensor.clear_graph", "            var.clear_graph()\n", "            var.clear_graph()\n        self._creator = None\n")], "R07.4"),
    ("C07", "c07-backward-no-clear", [(TB, "Tensor.backward", "            for t in topo_sorted_tensors:\n                t._backward()\n\n        self.clear_graph()", "            for t in topo_sorted_tensors:\n                t._backward()\n            self.clear_graph()")], "R07.5"),
    ("C07", "c07-no-null-on-reuse", [(TB, "Tensor._op", "                    v._grad = None\n                    v._view_grad = None\n", "                    pass\n")], "R07.6"),
    ("C07", "c07-public-replay-captured", [(TB, "Tensor._in_place_op", "f = node.placeholder._replay_op", "f = node.tensor._replay_op")], "R07.7"),
    # ---------------------------------------------------------------- C08
    ("C08", "c08-no-release-on-error", [(TB, "Tensor._op", "            if _track.TRACK_GRAPH and _mem.MEM_GUARD:\n                _mem.release_writeability_lock_on_op(_uniques_bases_then_arrs)\n            raise e", "            raise e")], "R08.1"),
    ("C08", "c08-kernel-outside-try", [(TB, "Tensor._op", "        try:\n            if out is None:\n                op_out: np.ndarray = f(*tensor_vars, *op_args, **op_kwargs)\n            else:\n                op_out: np.ndarray = f(*tensor_vars, *op_args, **op_kwargs, out=out)\n        except Exception as e:\n            if _track.TRACK_GRAPH and _mem.MEM_GUARD:\n                _mem.release_writeability_lock_on_op(_uniques_bases_then_arrs)\n            raise e\n",
                                        "        if out is None:\n            op_out: np.ndarray = f(*tensor_vars, *op_args, **op_kwargs)\n        else:\n            op_out: np.ndarray = f(*tensor_vars, *op_args, **op_kwargs, out=out)\n")], "R08.1"),
    ("C08", "c08-output-not-registered", [(TB, "Tensor._op", "            tensor_refs.append(tensor_out.data)\n", "")], "R08.2"),
    ("C08", "c08-foreign-flag-write", [(TB, "Tensor.clear_graph", "        self._view_children.clear()\n", "        self._view_children.clear()\n        self.data.flags.writeable = True\n")], "R08.3"),
    ("C08", "c08-view-before-base", [(LM, "unique_arrs_and_bases", "            seen.add(arr_id)\n            yield arr\n", ""),
                                     (LM, "unique_arrs_and_bases", "            if arr.base is not None:", "            seen.add(arr_id)\n            yield arr\n            if arr.base is not None:")], "R08.4"),
    ("C08", "c08-unlock-while-held", [(LM, "_release_lock_on_arr_writeability", "    if num_active_ops == 1:", "    if num_active_ops >= 1:")], "R08.5"),
    ("C08", "c08-output-unlocked", [(TB, "Tensor._op", "            _mem.lock_arr_writeability(tensor_out.data)\n", "")], "R08.6"),
    ("C08", "c08-waiting-set-wiped", [(LM, "_release_lock_on_arr_writeability", "if not _array_tracker and _views_waiting_for_unlock:", "if not _array_counter and _views_waiting_for_unlock:")], "R08.7"),
    ("C08", "c08-force-lock-inputs", [(LM, "force_lock_tensor_and_creators", "        lock_arr_writeability(arr)\n", "        lock_arr_writeability(arr, force_lock=True)\n")], "R08.8"),
    # ---------------------------------------------------------------- C09
    ("C09", "c09-guard-after", [(OBF, "Operation.backward", "            if not var._ops:\n", "            if not var._ops and index > 0:\n")], "R09.1"),
    ("C09", "c09-ops-survive-clear", [(TB, "Tensor.clear_graph", "        self._ops.clear()\n", "")], "R09.2"),
    ("C09", "c09-refill-elsewhere", [(DG, "reroute_ops_through", "        op.variables = tuple(", "        target._ops.add(op)\n        op.variables = tuple(")], "R09.3"),
    # ---------------------------------------------------------------- C10
    ("C10", "c10-int-nonconstant", [(TB, "Tensor.__init__", "            elif constant is False:\n                raise ValueError(\"Integer-valued tensors must be treated as constants.\")\n", "")], "R10.1"),
    ("C10", "c10-default-flag", [(TB, "Tensor.__init__", "            constant = not is_float", "            constant = False")], "R10.1"),
    ("C10", "c10-grad-on-constant", [(OBF, "Operation.backward", "            if var.constant:\n                continue\n", "")], "R10.2"),
    ("C10", "c10-gru-constant", [(GRU, "_backprop", "    if not var.constant:\n        if var._grad is None:", "    if True:\n        if var._grad is None:")], "R10.2"),
    ("C10", "c10-explicit-overridden", [(TB, "Tensor._op", "        if constant is None:\n            if any(not var.constant for var in tensor_vars):", "        if not constant:\n            if any(not var.constant for var in tensor_vars):")], "R10.3"),
    ("C10", "c10-constant-backward-walks", [(TB, "Tensor.backward", "        if self.constant:\n            self.clear_graph()\n            return\n", "        if self.constant:\n            self.clear_graph()\n")], "R10.4"),
    ("C10", "c10-wrapper-drops-constant", [("tensor_manip/transpose_like/funcs.py", "swapaxes", "op_args=(axis1, axis2), constant=constant)", "op_args=(axis1, axis2))")], "R10.5"),
    # ---------------------------------------------------------------- C11
    ("C11", "c11-rsub-order", [(TB, "Tensor.__rsub__", "self._op(Subtract, other, self)", "self._op(Subtract, self, other)")], "R11.1"),
    ("C11", "c11-truediv-op", [(TB, "Tensor.__rtruediv__", "self._op(Divide, other, self)", "self._op(Multiply, other, self)")], "R11.1"),
    ("C11", "c11-method-ddof", [(TB, "Tensor.std", '"keepdims": keepdims, "ddof": ddof}', '"keepdims": keepdims}')], "R11.2"),
    ("C11", "c11-method-default", [(TB, "Tensor.var", "ddof: int = 0,", "ddof: int = 1,")], "R11.2"),
    ("C11", "c11-registry-kernel", [("math/exp_log/ops.py", "Log10", "numpy_ufunc = np.log10", "numpy_ufunc = np.log")], "R11.3"),
    ("C11", "c11-floor-differentiable-set", [(TB, None, "    np.floor,\n", "")], "R11.4"),
    ("C11", "c11-const-only-silent-caster", [(TB, "Tensor.__array_ufunc__", "            caster = _as_constant_array", "            caster = asarray")], "R11.4"),
    ("C11", "c11-out-dropped-on-dispatch", [(TB, "Tensor.__array_ufunc__", "(*inputs, **kwargs, out=out)", "(*inputs, **kwargs)")], "R11.5"),
    # ---------------------------------------------------------------- C12
    ("C12", "c12-gru-view-of-grad", [(GRU, "GRUnit.backward", "dLds = grad[1:].astype(self.type, copy=True)", "dLds = grad[1:].astype(self.type, copy=False)")], "R12.1"),
    ("C12", "c12-prod-no-copy", [("math/sequential/ops.py", "Prod.backward_var", "            x = x.copy()\n", "            pass\n")], "R12.1"),
    ("C12", "c12-mean-inplace", [("math/sequential/ops.py", "Mean.backward_var", "return super().backward_var(grad / n, index, **kwargs)", "grad /= n\n        return super().backward_var(grad, index, **kwargs)")], "R12.1"),
    ("C12", "c12-setitem-grad", [("_tensor_core_ops/indexing.py", "SetItem.backward_var", "            grad = np.copy(grad)\n", "")], "R12.1"),
    ("C12", "c12-copy-rule-is-grad", [(OBF, "Operation.backward", "if backed_grad.base is not None or (backed_grad is grad)", "if backed_grad.base is not None")], "R12.3"),
    ("C12", "c12-copy-rule-base", [(OBF, "Operation.backward", "if backed_grad.base is not None or (backed_grad is grad)", "if backed_grad.base is grad or (backed_grad is grad)")], "R12.3"),
    ("C12", "c12-returns-input", [("math/arithmetic/ops.py", "Multiply.backward_var", "            return grad * b.data\n", "            return b.data if grad.ndim == 0 else grad * b.data\n")], "R12.3"),
    ("C12", "c12-copy-shares-grad", [(TB, "Tensor.copy", "copy._grad = np.copy(self._grad) if self._grad is not None else None", "copy._grad = self._grad")], "R12.3"),
    ("C12", "c12-seed-written", [(TB, "Tensor.backward", "            if _grad.shape != self.shape:\n                try:", "            _grad *= 1\n            if _grad.shape != self.shape:\n                try:")], "R12.2"),
    # ---------------------------------------------------------------- C13
    ("C13", "c13-null-before-construct", [(TB, "Tensor._op", "        # record graph information\n        if constant is None:", "        for v in input_vars:\n            if isinstance(v, Tensor):\n                v._grad = None\n        # record graph information\n        if constant is None:")], "R13.1"),
    ("C13", "c13-inplace-swallow", [(TB, "Tensor._in_place_op", "            graph.restore_old_graph()\n            raise e", "            graph.restore_old_graph()\n            return")], "R13.2"),
    ("C13", "c13-mirror-before-kernel", [(TB, "Tensor._in_place_op", "        mutant_base_data = mutant_base.data\n        del mutant_base\n", "        mutant_base_data = mutant_base.data\n        _dup.mirror_tensor(source=mutant_base, target=graph.base.tensor)\n        del mutant_base\n")], "R13.2"),
    ("C13", "c13-shape-no-trial", [(TB, "Tensor.shape@setter", "        self.data.shape = newshape\n        self.data.shape = old_shape\n", "")], "R13.3"),
    ("C13", "c13-handler-swallows", [(TB, "Tensor._op", "                _mem.release_writeability_lock_on_op(_uniques_bases_then_arrs)\n            raise e\n\n        if not _track.TRACK_GRAPH:", "                _mem.release_writeability_lock_on_op(_uniques_bases_then_arrs)\n            op_out = None\n\n        if not _track.TRACK_GRAPH:")], "R13.4"),
    # ---------------------------------------------------------------- C14
    ("C14", "c14-new-writer", [(TB, "Tensor.astype", "        cast_data = self.data.astype", "        self._grad = None\n        cast_data = self.data.astype")], "R14.1"),
    ("C14", "c14-seed-dtype", [(TB, "Tensor.backward", "_grad = asarray(grad, dtype=self.dtype)", "_grad = asarray(grad)")], "R14.2"),
    ("C14", "c14-seed-shape-unchecked", [(TB, "Tensor.backward", "                    if _grad.shape != self.shape:\n                        # mutual broadcasting occurred\n                        raise ValueError()\n", "")], "R14.2"),
    ("C14", "c14-no-dtype-cast", [(OBF, "Operation.backward", "                if backed_grad.dtype != var.dtype:\n                    backed_grad = backed_grad.astype(var.dtype, copy=False)\n", "")], "R14.3"),
    ("C14", "c14-no-shape-assert", [(OBF, "Operation.backward", "            assert backed_grad.shape == var.shape, (backed_grad.shape, var.shape)\n", "")], "R14.3"),
    ("C14", "c14-gru-dtype", [(GRU, "GRUnit.backward", "_backprop(self.Wr, dWr.astype(self.Wr.dtype, copy=False))", "_backprop(self.Wr, dWr)")], "R14.3"),
    ("C14", "c14-scalar-leak", [(OBF, "Operation.grad_post_process_fn", "                out = np.asarray(out)\n", "                pass\n")], "R14.4"),
    # ---------------------------------------------------------------- C15
    ("C15", "c15-set-before-save", [(UT, "ContextTracker.__enter__", "        self._depth_tracker[self._depth] = self.state\n        self._depth += 1\n        self.state = self._enter_set_value", "        self.state = self._enter_set_value\n        self._depth_tracker[self._depth] = self.state\n        self._depth += 1")], "R15.1"),
    ("C15", "c15-exit-key", [(UT, "ContextTracker.__exit__", "        self._depth -= 1\n        self.state = self._depth_tracker.pop(self._depth)", "        self.state = self._depth_tracker.pop(self._depth)\n        self._depth -= 1")], "R15.1"),
    ("C15", "c15-exit-swallows", [(UT, "ContextTracker.__exit__", "        self.state = self._depth_tracker.pop(self._depth)", "        self.state = self._depth_tracker.pop(self._depth)\n        return True")], "R15.1"),
    ("C15", "c15-manual-enter", [(UT, "ContextTracker.__call__", "            with self:\n                return func(*args, **kwargs)", "            self.__enter__()\n            out = func(*args, **kwargs)\n            self.__exit__(None, None, None)\n            return out")], "R15.2"),
    ("C15", "c15-switch-written-elsewhere", [(TB, "Tensor.grad", "        with _track.no_autodiff:\n            self._view_grad = self._replay_op(grad).data if grad is not None else None", "        _track.TRACK_GRAPH = False\n        try:\n            self._view_grad = self._replay_op(grad).data if grad is not None else None\n        finally:\n            _track.TRACK_GRAPH = True")], "R15.3"),
    ("C15", "c15-untracked-nulls-grad", [(TB, "Tensor._op", "        if not _track.TRACK_GRAPH:\n            # execute operation", "        for v in input_vars:\n            if isinstance(v, Tensor):\n                v._grad = None\n        if not _track.TRACK_GRAPH:\n            # execute operation")], "R15.4"),
    ("C15", "c15-constant-before-track", [(TB, "Tensor.backward", "        if not _track.TRACK_GRAPH:\n            return\n\n        if self.constant:\n            self.clear_graph()\n            return\n", "        if self.constant:\n            self.clear_graph()\n            return\n\n        if not _track.TRACK_GRAPH:\n            return\n")], "R15.4"),
    ("C15", "c15-stale-import-decides", [("tensor_manip/tensor_joining/ops.py", "Concatenate.__call__", "        if TRACK_GRAPH:\n            self.axis = axis", "        if not TRACK_GRAPH:\n            return out\n        if TRACK_GRAPH:\n            self.axis = axis")], "R15.5"),
    # ---------------------------------------------------------------- C16
    ("C16", "c16-writeable-view", [("nnet/layers/utils.py", "sliding_window_view", "strides=stride, writeable=False)", "strides=stride)")], "R16.1"),
    ("C16", "c16-validate-after", [("nnet/layers/utils.py", "sliding_window_view", "    return as_strided(arr, shape=out_shape, strides=stride, writeable=False)",
                                    "    view = as_strided(arr, shape=out_shape, strides=stride, writeable=False)\n    if any(i <= 0 for i in out_shape):\n        raise ValueError(\"no window placement fits\")\n    return view")], "R16.2"),
    ("C16", "c16-strides-before-contiguous", [("nnet/layers/utils.py", "sliding_window_view", "    if not arr.flags[\"C_CONTIGUOUS\"]:\n        arr = np.ascontiguousarray(arr)\n", ""),
                                               ("nnet/layers/utils.py", "sliding_window_view", "    # per-byte strides required to fill a window\n", "    if not arr.flags[\"C_CONTIGUOUS\"]:\n        arr = np.ascontiguousarray(arr)\n    # per-byte strides required to fill a window\n")], "R16.2"),
    ("C16", "c16-pool-check-late", [("nnet/layers/pooling.py", "MaxPoolND.__call__", "        if not all(i.is_integer() and i > 0 for i in out_shape):", "        if False:")], "R16.2"),
    ("C16", "c16-guard-weaker-than-formula", [("nnet/layers/utils.py", "sliding_window_view", "            w * d > s\n", "            (w - 1) * d > s\n")], "R16.3"),
    # ---------------------------------------------------------------- C17
    ("C17", "c17-copy-default", [(TB, "tensor", "    copy: bool = True,\n", "    copy: bool = False,\n")], "R17.1"),
    ("C17", "c17-astensor-copies", [(TB, "astensor", "constant=constant, copy=False, ndmin=0)", "constant=constant, copy=True, ndmin=0)")], "R17.1"),
    ("C17", "c17-passthrough-ignores-dtype", [(TB, "tensor", "        if (constant is None or arr_like.constant is constant) and (\n            dtype is None or (arr_like.dtype == np.dtype(dtype))\n        ):", "        if (constant is None or arr_like.constant is constant):")], "R17.2"),
    ("C17", "c17-linspace-endpoint", [("tensor_creation/funcs.py", "linspace", "            endpoint=endpoint,\n", "")], "R17.3"),
    ("C17", "c17-zeros-default", [("tensor_creation/funcs.py", "zeros", "dtype: DTypeLikeReals = np.float32", "dtype: DTypeLikeReals = np.float64")], "R17.3"),
    ("C17", "c17-copy-attached", [(TB, "Tensor.copy", "            np.copy(self.data),\n", "            self.data,\n")], "R17.4"),
    # ---------------------------------------------------------------- C18
    ("C18", "c18-key-renamed", [("_io.py", "save", "np.savez(file, data=tensor.data, grad=tensor.grad)", "np.savez(file, data=tensor.data, gradient=tensor.grad)")], "R18.1"),
    ("C18", "c18-grad-never-written", [("_io.py", "save", "    if tensor.grad is not None:", "    if tensor.grad is not None and tensor.base is None:")], "R18"),
    ("C18", "c18-save-clears", [("_io.py", "save", "    if tensor.grad is not None:", "    tensor.clear_graph()\n    if tensor.grad is not None:")], "R18.2"),
    ("C18", "c18-load-dtype", [("_io.py", "load", 'tb.tensor(loaded["data"])', 'tb.tensor(loaded["data"], dtype=float)')], "R18.3"),
    ("C18", "c18-load-returns-copy", [("_io.py", "load", "    return loaded_tensor", "    return loaded_tensor.copy()")], "R18.3"),
]

ALL = ("C01", "C02", "C03", "C04", "C05", "C06", "C07", "C08", "C09", "C10", "C11", "C12", "C13", "C14", "C15", "C16", "C17", "C18")

BENIGN = [
    (("C01", "C09", "C10", "C12", "C14", "C06"), "b-rename-backed-grad", [(OBF, "Operation.backward", "ALL:backed_grad", "contribution_")]),
    (("C01", "C12", "C14"), "b-accumulate-spelling", [(OBF, "Operation.backward", "var._grad += backed_grad", "var._grad = (var._grad + backed_grad).astype(var.dtype, copy=False)")]),
    (("C07", "C06", "C14", "C10", "C13", "C15"), "b-null-grad-call", [(TB, "Tensor._op", "                    v._grad = None\n                    v._view_grad = None\n", "                    v.null_grad()\n")]),
    (("C08", "C13", "C07"), "b-rename-collection", [(TB, "Tensor._op", "ALL:_uniques_bases_then_arrs", "_locked")]),
    (("C12", "C02"), "b-prod-copy-spelling", [("math/sequential/ops.py", "Prod.backward_var", "x = x.copy()", "x = np.array(x)")]),
    (("C01", "C02", "C03", "C04", "C10", "C11", "C12"), "b-new-op", [("math/exp_log/ops.py", None, "class Log1p(UnaryUfunc):",
      "class Log1pTwin(UnaryUfunc):\n    numpy_ufunc = np.log1p\n\n    def backward_var(self, grad, index, **kwargs):\n        return grad / (1 + self.variables[index].data)\n\n\nclass Log1p(UnaryUfunc):")]),
    (ALL, "b-logging", [(TB, "Tensor._op", "        f = Op()\n", "        f = Op()\n        _debug_name = getattr(Op, \"__name__\", \"?\")\n")]),
    (("C15",), "b-exit-spelling", [(UT, "ContextTracker.__exit__", "        self._depth -= 1\n", "        self._depth = self._depth - 1\n")]),
    (("C08",), "b-release-loop-rename", [(LM, "release_writeability_lock_on_op", "for arr in arr_refs:\n        _release_lock_on_arr_writeability(arr)", "for a_ in arr_refs:\n        _release_lock_on_arr_writeability(a_)")]),
    (("C18",), "b-save-rename-param", [("_io.py", "save", "ALL:tensor", "t_")]),
    (("C17",), "b-linspace-kw", [("tensor_creation/funcs.py", "linspace", "            num,\n            endpoint=endpoint,", "            num=num,\n            endpoint=endpoint,")]),
    (("C02", "C12"), "b-cos-spelling", [("math/trigonometric/ops.py", "Cos.backward_var", "grad * -np.sin(a.data)", "-grad * np.sin(a.data)")]),
    (("C02",), "b-tanh-spelling", [("math/hyperbolic_trig/ops.py", "Tanh.backward_var", "grad * (1 - np.tanh(a.data) ** 2)", "grad / np.cosh(a.data) ** 2")]),
    (("C13", "C08"), "b-handler-bare-raise", [(TB, "Tensor._op", "                _mem.release_writeability_lock_on_op(_uniques_bases_then_arrs)\n            raise e\n\n        if not _track.TRACK_GRAPH:", "                _mem.release_writeability_lock_on_op(_uniques_bases_then_arrs)\n            raise\n\n        if not _track.TRACK_GRAPH:")]),
    (("C07", "C09"), "b-clear-order", [(TB, "Tensor.clear_graph", "        self._view_children.clear()\n        self._ops.clear()\n", "        self._ops.clear()\n        self._view_children.clear()\n")]),
    (("C16",), "b-window-guard-spelling", [("nnet/layers/utils.py", "sliding_window_view", "            w * d > s\n", "            d * w > s\n")]),
    (("C03",), "b-unary-kwargs-order", [(OBF, "UnaryUfunc.__call__", "out=out, where=where, dtype=dtype)", "dtype=dtype, out=out, where=where)")]),
    (("C11", "C04"), "b-iadd-local", [(TB, "Tensor.__iadd__", "        self._in_place_op(Add, self, other)\n        return self", "        op = Add\n        self._in_place_op(op, self, other)\n        return self")]),
]
