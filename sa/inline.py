"""Normal form: private helper functions that the rules have never heard of are inlined into their callers.

Every path / pattern rule analyses a handful of engine functions (Tensor._op, Operation.backward, the lock routines ...).  The most common
behaviour-preserving edit of such a function is *extract helper*: a block moves into a new private function (or method) and is replaced by a
call.  A rule that looks at the caller alone then loses sight of the mechanism it checks and raises a false alarm.  Instead of teaching every
rule to follow calls, the project model undoes the extraction once, for all rules: a call to a helper

  * whose name is private (`_x`, not a dunder) and does **not** occur anywhere in the rule sources (a helper the rules name -- `_op`,
    `_release_lock_on_arr_writeability`, `_softmax`, ... -- is an anchor and stays a call),
  * that is a plain function / static method / method of the caller's own class, without *args/**kwargs, decorators, generators, nested
    scopes or recursion,

is replaced by the helper's body:

  * **expression helpers** (`return <expr>` only, parameters never re-bound) are substituted at expression level, arguments in place of
    parameters, wherever the call occurs (conditions, comprehensions, arguments);
  * **statement helpers** are spliced in at statement-level call sites (`f(..)`, `x = f(..)`, `return f(..)`, `if f(..):`), after their
    `return`s were eliminated structurally (tail returns of if/else chains; a search loop `for ..: if ..: return a` + `return b` becomes
    for/else with break).  Parameters bound to simple arguments are substituted, the others are bound to fresh locals; the helper's own
    locals are renamed apart; when every `return` hands back one local and the call assigns to a plain name, that local *is* the target.

Inlining is an equivalence transformation on the source (same statements, same order, same evaluation points for everything that is not a
pure name / attribute / constant), so a rule that holds on the normal form holds on the program, and a defect hidden inside a new helper is
exposed to the rules that would have seen it in the caller.  Anything outside the supported shapes is left as a call (the rules then see
what they see today).
"""
from __future__ import annotations

import ast
import copy
import glob
import itertools
import os
import re
from typing import Dict, List, Optional, Set, Tuple

_HERE = os.path.dirname(os.path.abspath(__file__))
_VOCAB: Optional[Set[str]] = None
_counter = itertools.count(1)


def rule_vocab() -> Set[str]:
    global _VOCAB
    if _VOCAB is None:
        v: Set[str] = set()
        files = glob.glob(os.path.join(_HERE, "rules", "*.py")) + [os.path.join(_HERE, f) for f in ("canon.py", "absint.py", "common.py", "symeval.py", "terms.py")]
        for f in files:
            try:
                v |= set(re.findall(r"[A-Za-z_][A-Za-z0-9_]*", open(f, encoding="utf-8").read()))
            except OSError:
                pass
        _VOCAB = v
    return _VOCAB


class NotInlinable(Exception):
    pass


def clone(n):
    """structural copy of an AST (sub)tree; unlike copy.deepcopy it does not follow the `_parent` back links the model attaches to nodes"""
    if isinstance(n, list):
        return [clone(x) for x in n]
    if isinstance(n, ast.AST):
        new = type(n)()
        for f in n._fields:
            if hasattr(n, f):
                setattr(new, f, clone(getattr(n, f)))
        for a in ("lineno", "col_offset", "end_lineno", "end_col_offset"):
            if hasattr(n, a):
                setattr(new, a, getattr(n, a))
        if getattr(n, "_caller_name", False):
            new._caller_name = True  # type: ignore[attr-defined]
        return new
    return n


def _own(fn: ast.AST):
    """nodes of a function body without nested function / class scopes (comprehensions are included)"""
    stack = list(ast.iter_child_nodes(fn))
    while stack:
        n = stack.pop()
        yield n
        if isinstance(n, (ast.FunctionDef, ast.AsyncFunctionDef, ast.ClassDef)):
            continue
        stack.extend(ast.iter_child_nodes(n))


def _body_wo_doc(fn: ast.FunctionDef) -> List[ast.stmt]:
    b = list(fn.body)
    if b and isinstance(b[0], ast.Expr) and isinstance(b[0].value, ast.Constant) and isinstance(b[0].value.value, str):
        b = b[1:]
    return b


def _stored_names(fn: ast.FunctionDef):
    """(names bound at function scope, names bound only as comprehension targets)"""
    out: Set[str] = set()
    comp_targets: Set[str] = set()

    def walk(n, in_comp):
        for ch in ast.iter_child_nodes(n):
            if isinstance(ch, (ast.FunctionDef, ast.AsyncFunctionDef, ast.ClassDef)):
                continue
            if isinstance(ch, (ast.ListComp, ast.SetComp, ast.DictComp, ast.GeneratorExp)):
                for g in ch.generators:
                    comp_targets.update(x.id for x in ast.walk(g.target) if isinstance(x, ast.Name))
                walk(ch, True)
                continue
            if isinstance(ch, ast.Name) and isinstance(ch.ctx, (ast.Store, ast.Del)):
                if not (in_comp and ch.id in comp_targets):
                    out.add(ch.id)
            elif isinstance(ch, ast.ExceptHandler) and ch.name:
                out.add(ch.name)
            elif isinstance(ch, (ast.Import, ast.ImportFrom)):
                for a in ch.names:
                    out.add((a.asname or a.name).split(".")[0])
            walk(ch, in_comp)
    walk(fn, False)
    return out, comp_targets - out


def _params(fn: ast.FunctionDef) -> List[ast.arg]:
    return fn.args.posonlyargs + fn.args.args + fn.args.kwonlyargs


def _internal_name(g) -> bool:
    """private by name, or a function of an internal module (a `_x` component in its path) that the module does not export"""
    nm = g.node.name
    if nm.startswith("__"):
        return False
    if nm.startswith("_"):
        return True
    if g.cls is None and any(part.startswith("_") for part in g.module.name.split(".")[1:]):
        exported = set()
        for st in g.module.tree.body:
            if isinstance(st, ast.Assign) and any(isinstance(t, ast.Name) and t.id == "__all__" for t in st.targets) and isinstance(st.value, (ast.List, ast.Tuple)):
                exported |= {e.value for e in st.value.elts if isinstance(e, ast.Constant)}
        return bool(exported) and nm not in exported
    return False


def eligible(g, vocab: Set[str], force: Set[str] = frozenset(), allow_try: bool = False) -> bool:
    fn = g.node
    nm = fn.name
    if (not _internal_name(g) or nm in vocab) and nm not in force:
        return False
    if isinstance(fn, ast.AsyncFunctionDef) or fn.args.vararg or fn.args.kwarg:
        return False
    for d in fn.decorator_list:
        if not (isinstance(d, ast.Name) and d.id == "staticmethod"):
            return False
    for n in _own(fn):
        if isinstance(n, (ast.Yield, ast.YieldFrom, ast.Await, ast.Global, ast.Nonlocal, ast.FunctionDef, ast.AsyncFunctionDef, ast.ClassDef,
                          ast.Lambda, ast.NamedExpr)):
            return False
        if isinstance(n, ast.Try) and not allow_try:
            return False
        if isinstance(n, ast.Call) and isinstance(n.func, ast.Name) and n.func.id in (nm, "locals", "vars", "globals", "super", "eval", "exec"):
            return False
        if isinstance(n, ast.Call) and isinstance(n.func, ast.Attribute) and n.func.attr == nm:
            return False
    stored, comp = _stored_names(fn)
    pnames = {a.arg for a in _params(fn)}
    if comp & pnames:
        return False  # a comprehension variable shadows a parameter: substitution would capture it
    return True


def _is_simple(e: ast.AST) -> bool:
    """an argument that may be substituted for a parameter at every use: evaluating it is pure, cheap and gives the same object each time
    (as long as the names it reads are not re-bound in between, which the caller-side check ensures)"""
    if isinstance(e, ast.Constant):
        return True
    if isinstance(e, ast.Name):
        return True
    if isinstance(e, ast.Attribute):
        return _is_simple(e.value)
    if isinstance(e, (ast.Tuple, ast.List)):
        return all(_is_simple(x) for x in e.elts)  # an argument pack written out at the call site
    if isinstance(e, ast.Dict):
        return all((k is None or isinstance(k, ast.Constant)) and _is_simple(v) for k, v in zip(e.keys, e.values))
    return False


def _is_pure(e: ast.AST) -> bool:
    """pure expression (may be substituted into an expression helper whose parameter is used at most where evaluation order cannot matter)"""
    if _is_simple(e):
        return True
    if isinstance(e, ast.Compare):
        return _is_pure(e.left) and all(_is_pure(c) for c in e.comparators) and all(isinstance(o, (ast.Is, ast.IsNot, ast.Eq, ast.NotEq)) for o in e.ops)
    if isinstance(e, ast.Tuple):
        return all(_is_pure(x) for x in e.elts)
    if isinstance(e, ast.UnaryOp) and isinstance(e.op, ast.Not):
        return _is_pure(e.operand)
    if isinstance(e, ast.Subscript):
        return _is_pure(e.value) and _is_pure(e.slice)
    return False


def _bind(fn: ast.FunctionDef, call: ast.Call, implicit_self: Optional[ast.expr]) -> Dict[str, ast.expr]:
    if any(isinstance(a, ast.Starred) for a in call.args) or any(k.arg is None for k in call.keywords):
        raise NotInlinable("star arguments")
    a = fn.args
    pos = [x.arg for x in a.posonlyargs + a.args]
    out: Dict[str, ast.expr] = {}
    actual = list(call.args)
    if implicit_self is not None:
        actual = [implicit_self] + actual
    if len(actual) > len(pos):
        raise NotInlinable("too many positional arguments")
    for p, e in zip(pos, actual):
        out[p] = e
    for k in call.keywords:
        if k.arg in out or k.arg not in pos + [x.arg for x in a.kwonlyargs]:
            raise NotInlinable("keyword binding")
        out[k.arg] = k.value
    defaults = dict(zip(pos[len(pos) - len(a.defaults):], a.defaults))
    for x, d in zip(a.kwonlyargs, a.kw_defaults):
        if d is not None:
            defaults[x.arg] = d
    for p in pos + [x.arg for x in a.kwonlyargs]:
        if p not in out:
            if p not in defaults:
                raise NotInlinable(f"parameter {p} unbound")
            out[p] = defaults[p]
    return out


class _Subst(ast.NodeTransformer):
    def __init__(self, expr_map: Dict[str, ast.expr], rename: Dict[str, str]):
        self.expr_map, self.rename = expr_map, rename

    def visit_Name(self, node: ast.Name):
        if getattr(node, "_caller_name", False):
            return node
        if node.id in self.expr_map and isinstance(node.ctx, ast.Load):
            return clone(self.expr_map[node.id])
        if node.id in self.rename:
            return ast.copy_location(ast.Name(id=self.rename[node.id], ctx=node.ctx), node)
        return node

    def visit_Call(self, node: ast.Call):
        self.generic_visit(node)
        # f(*(<a>, <b>)) -> f(<a>, <b>) ;  f(**{"k": v}) -> f(k=v): what a literal argument pack turns into once it is substituted for a parameter
        args = []
        for a_ in node.args:
            if isinstance(a_, ast.Starred) and isinstance(a_.value, (ast.Tuple, ast.List)) and not any(isinstance(e_, ast.Starred) for e_ in a_.value.elts):
                args.extend(a_.value.elts)
            else:
                args.append(a_)
        kws = []
        for k_ in node.keywords:
            if k_.arg is None and isinstance(k_.value, ast.Dict) and all(isinstance(kk, ast.Constant) and isinstance(kk.value, str) for kk in k_.value.keys):
                kws.extend(ast.keyword(arg=kk.value, value=vv) for kk, vv in zip(k_.value.keys, k_.value.values))
            else:
                kws.append(k_)
        node.args, node.keywords = args, kws
        return node

    def visit_ExceptHandler(self, node):
        self.generic_visit(node)
        if node.name in self.rename:
            node.name = self.rename[node.name]
        return node


def _eliminate_returns(stmts: List[ast.stmt], ret: Optional[str], in_loop: bool = False) -> Tuple[List[ast.stmt], bool]:
    """-> (statements without Return, falls_through).  `ret`: name receiving the returned value (None: value discarded)."""
    out: List[ast.stmt] = []
    for i, st in enumerate(stmts):
        rest = stmts[i + 1:]
        if isinstance(st, ast.Return):
            if ret is not None:
                out.append(ast.Assign(targets=[ast.Name(id=ret, ctx=ast.Store())], value=st.value if st.value is not None else ast.Constant(None), type_comment=None))
            elif st.value is not None and not isinstance(st.value, (ast.Constant, ast.Name)):
                out.append(ast.Expr(value=st.value))
            if in_loop:
                out.append(ast.Break())
            return out, False
        if isinstance(st, ast.Raise):
            out.append(st)
            return out, False
        has_ret = any(isinstance(x, ast.Return) for x in ast.walk(st))
        if not has_ret:
            out.append(st)
            continue
        if isinstance(st, ast.If):
            # some path through this `if` returns: whatever follows it runs only on the paths that fall out of it -- move the continuation into
            # both arms (duplicating it) and eliminate there; exact for every nesting of partial returns
            b1, f1 = _eliminate_returns(list(st.body) + clone(rest), ret, in_loop)
            b2, f2 = _eliminate_returns(list(st.orelse) + rest, ret, in_loop)
            out.append(ast.If(test=st.test, body=b1 or [ast.Pass()], orelse=b2))
            return out, f1 or f2
        if isinstance(st, (ast.For, ast.While)) and not in_loop:
            if st.orelse or any(isinstance(x, ast.Break) for x in ast.walk(st)):
                raise NotInlinable("return inside a loop that also breaks / has an else clause")
            for x in ast.walk(st):
                if x is not st and isinstance(x, (ast.For, ast.While)) and any(isinstance(y, ast.Return) for y in ast.walk(x)):
                    raise NotInlinable("return inside a nested loop")
            body, _ = _eliminate_returns(st.body, ret, in_loop=True)
            r, fr = _eliminate_returns(rest, ret, in_loop)
            new = copy.copy(st)
            new.body = body or [ast.Pass()]
            new.orelse = r
            out.append(new)
            return out, fr
        if isinstance(st, ast.With) and not rest and not in_loop:
            body, f = _eliminate_returns(st.body, ret, in_loop)
            new = copy.copy(st)
            new.body = body or [ast.Pass()]
            out.append(new)
            return out, f
        raise NotInlinable(f"return inside {type(st).__name__}")
    return out, True


def _names_read(e: ast.AST) -> Set[str]:
    return {x.id for x in ast.walk(e) if isinstance(x, ast.Name)}


class Inliner:
    def __init__(self, project, force: Optional[Set[str]] = None):
        self.p = project
        self.vocab = rule_vocab() - (force or set())
        self.force = force or set()
        self.log: List[str] = []
        self.edges: Set[Tuple[str, str]] = set()

    # -- resolution ------------------------------------------------------------------------------------------------------------
    def resolve(self, fi, call: ast.Call, allow_try: bool = False):
        """-> (helper FunctionInfo, implicit self expr | None) or None"""
        f = call.func
        g = None
        implicit = None
        if isinstance(f, ast.Name):
            if (f.id.startswith("__") or f.id in self.vocab) and f.id not in self.force:
                return None
            r = self.p.module_symbol(fi.module, f.id)
            g = r if hasattr(r, "node") and hasattr(r, "qualname") and not hasattr(r, "methods") else None
            if g is not None and g.cls is not None:
                g = None
        elif isinstance(f, ast.Attribute):
            if (f.attr.startswith("__") or f.attr in self.vocab) and f.attr not in self.force:
                return None
            if isinstance(f.value, ast.Name) and f.value.id in ("self", "cls") and fi.cls is not None:
                g = fi.cls.lookup_method(f.attr)
                if g is not None and any(c is not fi.cls and c.is_subclass_of(fi.cls) and f.attr in c.methods and c.methods[f.attr] is not g
                                         for c in self.p.classes.values()):
                    return None  # virtual dispatch: a subclass overrides the method (StdDev._grad_preprocess), the call is not this body
                if g is not None:
                    static = any(isinstance(d, ast.Name) and d.id == "staticmethod" for d in g.node.decorator_list)
                    if not static:
                        if f.value.id != "self":
                            return None
                        implicit = ast.Name(id="self", ctx=ast.Load())
            else:
                r = self.p.resolve(fi.module, f)
                if hasattr(r, "node") and hasattr(r, "qualname") and not hasattr(r, "methods"):
                    g = r
                    if g.cls is not None and not any(isinstance(d, ast.Name) and d.id == "staticmethod" for d in g.node.decorator_list):
                        return None
        if g is None or g.qualname == fi.qualname or not eligible(g, self.vocab, self.force, allow_try=allow_try):
            return None
        return g, implicit

    # -- free names of the helper must mean the same thing in the caller's module ------------------------------------------------
    def _import_globals(self, g, fi, body_nodes: List[ast.AST], local: Set[str]) -> None:
        if g.module is fi.module:
            return
        import builtins
        for n in body_nodes:
            for x in ast.walk(n):
                if isinstance(x, ast.Name) and isinstance(x.ctx, ast.Load) and x.id not in local and not hasattr(builtins, x.id):
                    src = g.module.symbols.get(x.id)
                    dst = fi.module.symbols.get(x.id)
                    if src is None:
                        continue
                    if dst is None:
                        fi.module.symbols[x.id] = src
                        if src.kind == "func" and x.id in g.module.functions:
                            fi.module.functions.setdefault(x.id, g.module.functions[x.id])
                        if src.kind == "class" and x.id in g.module.classes:
                            fi.module.classes.setdefault(x.id, g.module.classes[x.id])
                    elif (dst.kind, getattr(dst, "target", None)) != (src.kind, getattr(src, "target", None)) and not (dst.kind == src.kind == "module"):
                        ra, rb = self.p.module_symbol(g.module, x.id), self.p.module_symbol(fi.module, x.id)
                        if ra is not rb and getattr(ra, "name", ra) != getattr(rb, "name", rb):
                            raise NotInlinable(f"global `{x.id}` means different things in {g.module.name} and {fi.module.name}")

    # -- expression helpers ------------------------------------------------------------------------------------------------------
    def expr_body(self, g) -> Optional[ast.expr]:
        b = _body_wo_doc(g.node)
        if len(b) == 1 and isinstance(b[0], ast.Return) and b[0].value is not None:
            stored, _ = _stored_names(g.node)
            if not stored:
                return b[0].value
        return None

    def inline_expr(self, fi, call: ast.Call) -> Optional[ast.expr]:
        r = self.resolve(fi, call)
        if r is None:
            return None
        g, implicit = r
        e = self.expr_body(g)
        if e is None:
            return None
        try:
            bind = _bind(g.node, call, implicit)
            uses: Dict[str, int] = {}
            for x in ast.walk(e):
                if isinstance(x, ast.Name) and x.id in bind:
                    uses[x.id] = uses.get(x.id, 0) + 1
            for pnm, arg in bind.items():
                if uses.get(pnm, 0) == 0 and not _is_pure(arg):
                    raise NotInlinable("an impure argument would be dropped")
                if not (_is_pure(arg) or uses.get(pnm, 0) == 1 and self._first_evaluated(e, pnm, bind)):
                    raise NotInlinable("impure argument")
            self._import_globals(g, fi, [e], set(bind))
        except NotInlinable:
            return None
        new = _Subst(bind, {}).visit(clone(e))
        for x in ast.walk(new):
            ast.copy_location(x, call)
        self.log.append(f"{fi.short}: inlined expression helper {g.short}")
        self.edges.add((fi.qualname, g.qualname))
        return new

    @staticmethod
    def _first_evaluated(e: ast.expr, pnm: str, bind) -> bool:
        # an impure argument used exactly once may be substituted only if all other arguments are pure (their order then cannot matter)
        return all(_is_pure(a) for k, a in bind.items() if k != pnm)

    # -- statement helpers -------------------------------------------------------------------------------------------------------
    def inline_stmt(self, fi, st: ast.stmt, caller_names: Set[str]) -> Optional[List[ast.stmt]]:
        call, kind = None, None
        if isinstance(st, ast.Expr) and isinstance(st.value, ast.Call):
            call, kind = st.value, "expr"
        elif isinstance(st, ast.Assign) and isinstance(st.value, ast.Call) and len(st.targets) == 1:
            call, kind = st.value, "assign"
        elif isinstance(st, ast.Return) and isinstance(st.value, ast.Call):
            call, kind = st.value, "return"
        elif isinstance(st, ast.If) and isinstance(st.test, ast.Call):
            call, kind = st.test, "if"
        elif isinstance(st, ast.If) and isinstance(st.test, ast.UnaryOp) and isinstance(st.test.op, ast.Not) and isinstance(st.test.operand, ast.Call):
            call, kind = st.test.operand, "ifnot"
        if call is None:
            return None
        r = self.resolve(fi, call)
        if r is None and kind == "return":
            # tail position: `return helper(...)` may be replaced by the helper's body as it stands (its returns become the caller's), whatever
            # control flow it contains (try/except, loops) -- no return elimination is needed
            rt = self.resolve(fi, call, allow_try=True)
            if rt is not None:
                tail = self._inline_tail(fi, st, call, rt[0], rt[1], caller_names)
                if tail is not None:
                    return tail
        if r is None:
            return None
        g, implicit = r
        if self.expr_body(g) is not None:
            return None  # handled at expression level
        k = next(_counter)
        pre = f"_il{k}_"
        try:
            bind = _bind(g.node, call, implicit)
            body = clone(_body_wo_doc(g.node))
            stored, _ = _stored_names(g.node)
            pnames = [a.arg for a in _params(g.node)]
            returns = [x for b_ in body for x in ast.walk(b_) if isinstance(x, ast.Return)]
            # ---- targets of the call's value
            targets: List[str] = []
            if kind == "assign":
                t = st.targets[0]
                if isinstance(t, ast.Name):
                    targets = [t.id]
                elif isinstance(t, ast.Tuple) and all(isinstance(x, ast.Name) for x in t.elts):
                    targets = [x.id for x in t.elts]
            n = len(targets)
            ret_elems: Optional[List[List[ast.expr]]] = None
            if n == 1:
                ret_elems = [[x.value if x.value is not None else ast.Constant(None)] for x in returns]
            elif n > 1 and returns and all(isinstance(x.value, ast.Tuple) and len(x.value.elts) == n for x in returns):
                ret_elems = [list(x.value.elts) for x in returns]
            # ---- parameters
            expr_map: Dict[str, ast.expr] = {}
            rename: Dict[str, str] = {}
            prologue: List[ast.stmt] = []
            arg_reads: Set[str] = set()
            for pnm in pnames:
                arg = bind[pnm]
                if pnm not in stored and _is_simple(arg) and not (_names_read(arg) & stored):
                    expr_map[pnm] = arg
                    arg_reads |= _names_read(arg)
                elif pnm in stored and isinstance(arg, ast.Name) and ret_elems is not None and arg.id in targets \
                        and all(isinstance(e_[targets.index(arg.id)], ast.Name) and e_[targets.index(arg.id)].id == pnm for e_ in ret_elems):
                    rename[pnm] = arg.id  # x = helper(x, ...): the helper re-binds its parameter and hands it back -- the parameter *is* x
                elif pnm in stored and isinstance(arg, ast.Name) and arg.id not in {rename.get(q) for q in rename} \
                        and not any(isinstance(bind[q], ast.Name) and bind[q].id == arg.id for q in pnames if q != pnm) \
                        and self._dead_after_call(fi, st, arg.id):
                    # the helper re-binds its parameter and the caller never reads its own local again: the parameter *is* that local
                    rename[pnm] = arg.id
                else:
                    rename[pnm] = pre + pnm
                    prologue.append(ast.Assign(targets=[ast.Name(id=pre + pnm, ctx=ast.Store())], value=clone(arg), type_comment=None))
            impure = [pnm for pnm in pnames if pnm not in expr_map and not _is_pure(bind[pnm])]
            if len(impure) > 1:
                raise NotInlinable("several impure arguments")
            # ---- result positions served by one helper local: that local becomes the caller's target
            same_pos: Set[int] = set()
            if ret_elems is not None:
                for i_, tname in enumerate(targets):
                    locs = {e_[i_].id for e_ in ret_elems if isinstance(e_[i_], ast.Name)}
                    others = [e_[i_] for e_ in ret_elems if not isinstance(e_[i_], ast.Name)]
                    if len(locs) == 1 and all(isinstance(o, ast.Constant) for o in others):
                        L = next(iter(locs))
                        if L in rename and rename[L] == tname:
                            same_pos.add(i_)
                        elif L in stored and L not in pnames and L not in rename and tname not in arg_reads and (tname not in stored or tname == L) \
                                and not any(rename.get(q) == tname for q in rename):
                            rename[L] = tname
                            same_pos.add(i_)
            for nm in stored:
                if nm not in rename and nm not in expr_map:
                    rename[nm] = (pre + nm) if nm in caller_names else nm
            # ---- eliminate returns
            ret_var = pre + "ret" if (kind in ("return", "if", "ifnot") or (kind == "assign" and ret_elems is None)) else None
            if ret_elems is not None:
                marker = {id(x): e_ for x, e_ in zip(returns, ret_elems)}

                def ret_assign(value_expr_list):
                    outl = []
                    for i_, (tname, ve) in enumerate(zip(targets, value_expr_list)):
                        if i_ in same_pos and isinstance(ve, ast.Name):
                            continue
                        if _names_read(ve) & set(targets[:i_]) - {tname}:
                            # a later element reads an earlier target: keep the simultaneous assignment
                            raise NotInlinable("tuple return reads its own targets")
                        tn = ast.Name(id=tname, ctx=ast.Store())
                        tn._caller_name = True  # type: ignore[attr-defined]
                        outl.append(ast.Assign(targets=[tn], value=ve, type_comment=None))
                    return outl
                # replace each Return by a marker statement carrying its element list, then expand after structural elimination
                for x in returns:
                    x.value = ast.Tuple(elts=marker[id(x)], ctx=ast.Load())
                new_body, falls = _eliminate_returns(body, "__ret__")
                if falls and kind == "assign":
                    # the helper can fall off its end: the call's value is None
                    new_body = new_body + [ast.Assign(targets=[ast.Name(id="__ret__", ctx=ast.Store())],
                                                      value=ast.Tuple(elts=[ast.Constant(None)] * n, ctx=ast.Load()), type_comment=None)] if n == 1 else new_body
                    if n > 1:
                        raise NotInlinable("tuple-valued helper may fall through")

                def expand(lst):
                    res = []
                    for s_ in lst:
                        if isinstance(s_, ast.Assign) and isinstance(s_.targets[0], ast.Name) and s_.targets[0].id == "__ret__":
                            res.extend(ret_assign(list(s_.value.elts)))
                            continue
                        for fld in ("body", "orelse"):
                            if hasattr(s_, fld) and isinstance(getattr(s_, fld), list):
                                sub = expand(getattr(s_, fld))
                                setattr(s_, fld, sub if (sub or fld == "orelse") else [ast.Pass()])
                        res.append(s_)
                    return res
                new_body = expand(new_body)
            else:
                new_body, falls = _eliminate_returns(body, ret_var)
                if falls and ret_var is not None:
                    new_body = [ast.Assign(targets=[ast.Name(id=ret_var, ctx=ast.Store())], value=ast.Constant(None), type_comment=None)] + new_body
            self._import_globals(g, fi, new_body, set(pnames) | stored)
            new_body = [_Subst(expr_map, rename).visit(b_) for b_ in new_body]
        except NotInlinable as e:
            self.log.append(f"{fi.short}: call to {g.short} left as is ({e})")
            return None
        out = prologue + new_body
        if kind == "assign" and ret_var is not None:
            out.append(ast.Assign(targets=st.targets, value=ast.Name(id=ret_var, ctx=ast.Load()), type_comment=None))
        elif kind == "return":
            out.append(ast.Return(value=ast.Name(id=ret_var, ctx=ast.Load())))
        elif kind in ("if", "ifnot"):
            test = ast.Name(id=ret_var, ctx=ast.Load())
            new_if = copy.copy(st)
            new_if.test = test if kind == "if" else ast.UnaryOp(op=ast.Not(), operand=test)
            out.append(new_if)
        if not out:
            out = [ast.Pass()]
        for s_ in out:
            for x in ast.walk(s_):
                ast.copy_location(x, st)
        self.log.append(f"{fi.short}: inlined helper {g.short}")
        self.edges.add((fi.qualname, g.qualname))
        return out

    def _inline_tail(self, fi, st, call, g, implicit, caller_names) -> Optional[List[ast.stmt]]:
        k = next(_counter)
        pre = f"_il{k}_"
        try:
            bind = _bind(g.node, call, implicit)
            body = clone(_body_wo_doc(g.node))
            stored, _ = _stored_names(g.node)
            pnames = [a.arg for a in _params(g.node)]
            expr_map: Dict[str, ast.expr] = {}
            rename: Dict[str, str] = {}
            prologue: List[ast.stmt] = []
            for pnm in pnames:
                arg = bind[pnm]
                if pnm not in stored and _is_simple(arg) and not (_names_read(arg) & stored):
                    expr_map[pnm] = arg
                elif isinstance(arg, ast.Name) and arg.id == pnm:
                    rename[pnm] = pnm   # the caller's local of the same name is dead after a tail call
                else:
                    rename[pnm] = pre + pnm
                    prologue.append(ast.Assign(targets=[ast.Name(id=pre + pnm, ctx=ast.Store())], value=clone(arg), type_comment=None))
            if len([p_ for p_ in pnames if p_ not in expr_map and not _is_pure(bind[p_])]) > 1:
                raise NotInlinable("several impure arguments")
            for nm in stored:
                if nm not in rename and nm not in expr_map:
                    rename[nm] = (pre + nm) if nm in caller_names else nm
            self._import_globals(g, fi, body, set(pnames) | stored)
            body = [_Subst(expr_map, rename).visit(b_) for b_ in body]
        except NotInlinable as e:
            self.log.append(f"{fi.short}: tail call to {g.short} left as is ({e})")
            return None
        out = prologue + body
        last = out[-1] if out else None
        if not isinstance(last, (ast.Return, ast.Raise)):
            out.append(ast.Return(value=ast.Constant(None)))
        for s_ in out:
            for x in ast.walk(s_):
                ast.copy_location(x, st)
        self.log.append(f"{fi.short}: inlined helper {g.short} (tail call)")
        self.edges.add((fi.qualname, g.qualname))
        return out

    def _dead_after_call(self, fi, st: ast.stmt, name: str) -> bool:
        """the caller's local `name` is not read after statement `st` before being re-bound (CFG liveness on the caller as it stands)"""
        try:
            from .cfg import CFG, dead_after
            if any(isinstance(n, (ast.Global, ast.Nonlocal)) and name in n.names for n in ast.walk(fi.node)):
                return False
            for n in ast.walk(fi.node):
                if n is not fi.node and isinstance(n, (ast.FunctionDef, ast.AsyncFunctionDef, ast.Lambda, ast.ClassDef)):
                    if any(isinstance(x, ast.Name) and x.id == name for x in ast.walk(n)):
                        return False
            cfg = CFG(fi.node)
            nd = cfg.node_for(st)
            if nd is None:
                nd = cfg.stmt_node_containing(st)
            if nd is None:
                return False
            return dead_after(cfg, nd, name)
        except Exception:  # noqa
            return False

    # -- driver ------------------------------------------------------------------------------------------------------------------
    def run(self):
        funcs = sorted(self.p.functions.values(), key=lambda f: f.qualname)
        for _round in range(3):
            any_change = False
            for fi in funcs:
                try:
                    if self._process(fi):
                        any_change = True
                except RecursionError:
                    raise
                except Exception as e:  # noqa -- an unforeseen construct: leave this function as written
                    self.log.append(f"{fi.short}: inlining skipped ({type(e).__name__}: {e})")
            if not any_change:
                break
        return self.log

    def _process(self, fi) -> bool:
        changed = False
        fn = fi.node
        # expression-level substitution
        class ET(ast.NodeTransformer):
            def visit_FunctionDef(s, node):
                return node if node is not fn else s.generic_visit(node)
            visit_AsyncFunctionDef = visit_FunctionDef

            def visit_ClassDef(s, node):
                return node

            def visit_Call(s, node):
                s.generic_visit(node)
                new = self.inline_expr(fi, node)
                if new is not None:
                    nonlocal changed
                    changed = True
                    return new
                return node
        ET().visit(fn)
        caller_names = {x.id for x in ast.walk(fn) if isinstance(x, ast.Name)} | {a.arg for a in _params(fn)}

        def walk_list(lst: List[ast.stmt]) -> List[ast.stmt]:
            nonlocal changed
            out: List[ast.stmt] = []
            for st in lst:
                if isinstance(st, (ast.FunctionDef, ast.AsyncFunctionDef, ast.ClassDef)):
                    out.append(st)
                    continue
                rep = self.inline_stmt(fi, st, caller_names)
                if rep is not None:
                    changed = True
                    out.extend(rep)
                    continue
                for fld in ("body", "orelse", "finalbody"):
                    if hasattr(st, fld) and isinstance(getattr(st, fld), list) and getattr(st, fld) and isinstance(getattr(st, fld)[0], ast.stmt):
                        setattr(st, fld, walk_list(getattr(st, fld)))
                if isinstance(st, ast.Try):
                    for h in st.handlers:
                        h.body = walk_list(h.body)
                out.append(st)
            return out
        fn.body = walk_list(fn.body)
        if changed:
            if os.environ.get("SA_NO_NORMAL") != "1":
                from .normal import renormalise_function
                renormalise_function(fn)
            ast.fix_missing_locations(fn)
            for n in ast.walk(fn):
                for ch in ast.iter_child_nodes(n):
                    ch._parent = n  # type: ignore[attr-defined]
        return changed


def inline_helpers(project) -> List[str]:
    inl = Inliner(project)
    log = inl.run()
    project.inlined_edges = inl.edges  # (caller, helper) pairs whose call was replaced by the helper's body
    # helpers every call of which was replaced: their own bodies add nothing a rule has not already seen in the callers
    helpers = {h for _, h in inl.edges}
    remaining: Set[str] = set()
    for f in project.functions.values():
        for c in _own(f.node):
            if isinstance(c, (ast.Name, ast.Attribute)) and isinstance(getattr(c, "ctx", None), ast.Load):
                nm = c.id if isinstance(c, ast.Name) else c.attr
                remaining.add(nm)
    project.absorbed = {h for h in helpers if h.rsplit(".", 1)[-1] not in remaining}
    return log


def force_inline(project, fi, callee_names: Set[str]):
    """A deep copy of `fi` in which calls to the named repo functions are inlined whatever their names (for rules whose obligation may be
    discharged on either side of one specific call).  Returns a FunctionInfo-like shallow copy with the new node; the project is untouched."""
    import copy as _copy
    twin = _copy.copy(fi)
    twin.node = clone(fi.node)
    for n in ast.walk(twin.node):
        for ch in ast.iter_child_nodes(n):
            ch._parent = n  # type: ignore[attr-defined]
    inl = Inliner(project, force=set(callee_names))
    for _ in range(2):
        if not inl._process(twin):
            break
    return twin
