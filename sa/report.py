"""Obligations, findings, known-findings matching, evidence writing, exit codes."""
from __future__ import annotations

import json
import os
import time
from dataclasses import dataclass, field, asdict
from typing import Dict, List, Optional

VERIF = os.path.dirname(os.path.dirname(os.path.abspath(__file__)))
KNOWN_FILE = os.path.join(VERIF, "known_findings.json")


@dataclass
class Obligation:
    rule: str          # e.g. R12.1
    where: str         # file:line
    function: str      # qualname (short) of the construct's owner
    construct: str     # normalised, line-independent description of the instance
    ok: bool
    fact: str          # the fact that discharged it / what is wrong
    nontrivial: bool = True
    path: Optional[List[str]] = None   # witness path for path rules
    note: Optional[str] = None         # 'unverified' etc. (not a violation)

    def key(self):
        return (self.rule, self.function, self.construct)


class Run:
    def __init__(self, prop: str, tier: str, project):
        self.prop = prop
        self.tier = tier
        self.project = project
        self.obligations: List[Obligation] = []
        self.unresolved: List[str] = []
        self.notes: List[str] = []
        self.counters: Dict[str, int] = {}
        self.rules_text: Dict[str, str] = {}
        self.floors: Dict[str, int] = {}
        self.t0 = time.time()
        self.assumptions: List[str] = []
        self.analysis_errors: List[str] = []

    # ------------------------------------------------------------------ recording
    def rule(self, rid: str, text: str, floor: int = 1):
        self.rules_text[rid] = text
        self.floors[rid] = floor

    def ob(self, rule, where, function, construct, ok, fact, nontrivial=True, path=None, note=None):
        o = Obligation(rule, where, function, construct, bool(ok), fact, nontrivial, path, note)
        if not o.ok:
            for prev in self.obligations:
                if not prev.ok and prev.key() == o.key():
                    return prev  # the same construct reported under another specialisation
        self.obligations.append(o)
        return o

    def do(self, fn, *args, **kw):
        """run one rule; an AnalysisError (vanished anchor, unexpected shape) is recorded and the remaining rules still run, so that a
        violation found by another rule is reported (exit 1) rather than hidden behind a refusal (exit 2)"""
        from .model import AnalysisError
        try:
            return fn(self, *args, **kw)
        except AnalysisError as e:
            self.analysis_errors.append(f"{getattr(fn, '__name__', fn)}: {e}")
            return None

    def control(self, rid: str, fn, edits, what: str):
        """positive control for a rule whose expected number of violations (or of instances) on a healthy tree is zero: apply a small in-memory
        edit that breaks exactly this rule to the *current* sources and require the rule to report it.  A rule that cannot see its own
        counter-example has gone blind -> analysis error, never a silent pass."""
        from .model import AnalysisError, Project, REPO
        from .selftest.bank import apply_edit
        overlay: Dict[str, str] = dict(getattr(self.project, "overlay", None) or {})
        for rel, qual, old, new in edits:
            if old is None:
                # append a synthetic construct to the module: independent of any existing source text
                import os as _os
                full = "src/mygrad/" + rel
                src = overlay.get(full)
                if src is None:
                    fp = _os.path.join(REPO, full)
                    if not _os.path.exists(fp):
                        self.analysis_errors.append(f"positive control for {rid} ({what}): module {rel} is gone")
                        return
                    with open(fp, encoding="utf-8") as fh:
                        src = fh.read()
                overlay[full] = src.rstrip("\n") + "\n\n\n" + new + "\n"
                continue
            if not apply_edit(REPO, "src/mygrad/" + rel, qual, old, new, overlay):
                self.analysis_errors.append(f"positive control for {rid} ({what}): its anchor `{old[:40]}` in {rel}:{qual} is gone")
                return
        try:
            sub = Run(self.prop, self.tier, Project(overlay=overlay))
            fn(sub)
            fired = [o for o in sub.obligations if not o.ok and o.rule == rid]
        except AnalysisError as e:
            fired = [e]
        if not fired:
            self.analysis_errors.append(f"positive control for {rid} ({what}) was not reported: the rule has gone blind")
        else:
            self.count("positive controls reported", 1)

    def count(self, key: str, n: int = 1):
        self.counters[key] = self.counters.get(key, 0) + n

    def unresolved_item(self, text: str):
        if text not in self.unresolved:
            self.unresolved.append(text)

    def assume(self, text: str):
        if text not in self.assumptions:
            self.assumptions.append(text)


def load_known() -> List[dict]:
    if not os.path.exists(KNOWN_FILE):
        return []
    with open(KNOWN_FILE) as fh:
        return json.load(fh).get("findings", [])


def _local_names(run: Run, short: str):
    import ast as _ast
    try:
        for f in run.project.all_functions():
            if f.short == short:
                out = set()
                for n in _ast.walk(f.node):
                    if isinstance(n, _ast.Name) and isinstance(n.ctx, _ast.Store):
                        out.add(n.id)
                    elif isinstance(n, _ast.arg) and n.arg not in ("self", "cls"):
                        out.add(n.arg)
                return out
    except Exception:  # noqa
        return set()
    return set()


_IDENT = __import__("re").compile(r"(?<![\w.])([A-Za-z_]\w*)(?=\.)")


def _abstract(construct: str, names) -> str:
    """replace receiver identifiers (`name.` at the start of an attribute chain) that are locals of the function by `$`"""
    return _IDENT.sub(lambda m: "$" if m.group(1) in names else m.group(1), construct)


def _abstract_any(construct: str) -> str:
    """... and the same with *every* receiver identifier abstracted (the listed spelling's local may no longer exist in the function)"""
    return _IDENT.sub(lambda m: "$" if m.group(1) not in ("self", "cls", "np", "numpy", "Tensor") else m.group(1), construct)


def _shape(construct: str) -> int:
    return len(_IDENT.findall(construct))


def triage(run: Run):
    """(listed, unlisted): violations matched against the open known findings of the property / the rest"""
    known = [k for k in load_known() if k.get("property") == run.prop and str(k.get("status", "")).startswith("open")]
    violations = [o for o in run.obligations if not o.ok]
    listed, unlisted = [], []
    used_known = set()
    for v in violations:
        m = None
        for i, k in enumerate(known):
            if k.get("rule") == v.rule and k.get("function") == v.function and k.get("construct") == v.construct:
                m = i
                break
        if m is None:
            # a finding is identified by (rule, function, construct); constructs may spell a *local variable* of that function
            # (`copy._grad`, `var._ops.add`), which a behaviour-preserving rename changes.  Second chance: compare with the function's
            # local names abstracted away.  Each listed finding absorbs at most one violation this way, so a second, different store of
            # the same shape in the same function is still reported.
            names = _local_names(run, v.function)
            if names:
                av = _abstract(v.construct, names)
                for i, k in enumerate(known):
                    if i in used_known or k.get("rule") != v.rule or k.get("function") != v.function:
                        continue
                    if any(o.construct == k.get("construct") for o in violations):
                        continue  # that finding is present under its own spelling
                    if _abstract_any(k.get("construct", "")) == _abstract_any(av) and _shape(k.get("construct", "")) == _shape(v.construct):
                        m = i
                        break
        if m is None:
            unlisted.append(v)
        else:
            used_known.add(m)
            listed.append((v, known[m]))

    return listed, unlisted


def blind_rules(run: Run) -> List[str]:
    """rules that matched fewer instances than their floor (and do not already report a violation)"""
    per_rule: Dict[str, int] = {}
    for o in run.obligations:
        per_rule[o.rule] = per_rule.get(o.rule, 0) + 1
    failing_rules = {o.rule for o in run.obligations if not o.ok}
    out = []
    for rid, fl in run.floors.items():
        if per_rule.get(rid, 0) < fl and rid not in failing_rules and not any(rid.replace("R", "r").replace(".", "_") in e for e in run.analysis_errors):
            out.append(f"rule {rid} matched {per_rule.get(rid, 0)} instance(s), below its floor {fl}: "
                       f"the rule has gone blind on this tree (anchors moved?)")
    return out


def verdict(run: Run):
    """what the check would say about this tree: (set of unlisted violation keys, list of analysis errors incl. blind rules)"""
    listed, unlisted = triage(run)
    return {(o.rule, o.function, o.construct): o.fact for o in unlisted}, list(run.analysis_errors) + blind_rules(run)


def finish(run: Run, seed: int = 0, selftest: Optional[dict] = None) -> int:
    """Match violations against known findings, write evidence, print the verdict lines.
    Returns the process exit code."""
    from .model import AnalysisError

    prop = run.prop
    known = [k for k in load_known() if k.get("property") == prop and str(k.get("status", "")).startswith("open")]
    # floors: a rule that matches fewer instances than its floor is blind -> analysis error
    per_rule: Dict[str, int] = {}
    for o in run.obligations:
        per_rule[o.rule] = per_rule.get(o.rule, 0) + 1
    failing_rules = {o.rule for o in run.obligations if not o.ok}
    for rid, fl in run.floors.items():
        # a rule that already reports an undischarged obligation has not gone blind: it stopped early at the violation
        if per_rule.get(rid, 0) < fl and rid not in failing_rules and not any(rid.replace("R", "r").replace(".", "_") in e for e in run.analysis_errors):
            run.analysis_errors.append(f"rule {rid} matched {per_rule.get(rid, 0)} instance(s), below its floor {fl}: "
                                       f"the rule has gone blind on this tree (anchors moved?)")

    listed, unlisted = triage(run)
    violations = [o for o in run.obligations if not o.ok]
    ev_dir = os.path.join(VERIF, "evidence")
    os.makedirs(os.path.join(ev_dir, "replay"), exist_ok=True)
    lines = []
    for v, k in listed:
        lines.append(f"KNOWN-FINDING: property={prop} {k.get('id', '?')} {v.rule} {v.function}: {v.construct} -- {k.get('summary', v.fact)}")
    replay_paths = []
    for i, v in enumerate(unlisted):
        rp = os.path.join(ev_dir, "replay", f"{prop}_{v.rule}_{i}.json")
        with open(rp, "w") as fh:
            json.dump({"property": prop, **asdict(v)}, fh, indent=1)
        replay_paths.append(rp)
        lines.append(f"VIOLATION property={prop} replay={rp}")
        lines.append(f"  {v.rule} at {v.where} in {v.function}: {v.construct}")
        lines.append(f"  reason: {v.fact}")
        if v.path:
            lines.append("  path: " + " -> ".join(v.path[:14]))

    distinct = len({o.key() for o in run.obligations if o.nontrivial})
    samples = []
    seen_rules = set()
    for o in run.obligations:
        if o.rule not in seen_rules or len(samples) < 12:
            if o.rule in seen_rules and len([s for s in samples if s["rule"] == o.rule]) >= 3:
                continue
            seen_rules.add(o.rule)
            samples.append({"rule": o.rule, "where": o.where, "function": o.function, "construct": o.construct,
                            "ok": o.ok, "fact": o.fact})
    samples = samples[:40]
    cov = {
        "explanation": " | ".join(f"{r}: {t}" for r, t in sorted(run.rules_text.items())),
        "obligations": len(run.obligations),
        "discharged": sum(1 for o in run.obligations if o.ok),
        "evaluations": len(run.obligations),
        "distinct_nontrivial": distinct,
        "rule": "one obligation per (rule, construct) instance enumerated from the current source; non-trivial = "
                "its verdict needed at least one dataflow fact, dominance/path query or resolved call "
                "(counted by the engine); distinct = distinct (rule, function, construct) keys",
        "samples": samples,
        "per_rule": per_rule,
        "counters": run.counters,
        "unresolved": run.unresolved[:60],
        "unverified": [f"{o.rule} {o.function}: {o.construct} ({o.note})" for o in run.obligations if o.note][:60],
        "known_findings": [k.get("id") for _, k in listed],
        "exhaustive": True,
        "source_digest": run.project.digest,
        "modules_parsed": len(run.project.modules),
        "functions_indexed": len(run.project.functions),
        "classes_indexed": len(run.project.classes),
        "normal_form": "every module analysed in the source normal form of sa/normal.py (equivalence transformations N1-N18)",
        "helpers_inlined": len(getattr(run.project, "inline_log", []) or []),
        "benign_drift_recognised": list(getattr(run.project, "drift_log", []) or [])[:20],
    }
    if selftest is not None:
        cov["selftest"] = selftest
    ev = {
        "property_id": prop,
        "tier": run.tier,
        "seed": seed,
        "level": "other",
        "coverage": cov,
        "assumptions": run.assumptions + [
            "name/MRO based resolution: calls through values of unknown type are listed under 'unresolved', never judged",
            "rules are structural necessary conditions of the property; exit 0 does not establish the behaviour",
            "the passes of sa/normal.py and sa/drift.py are equivalence transformations of Python source under their stated side conditions "
            "(NumPy calls do not rebind attributes of repository objects; argument expressions of the repository are free of side effects)",
        ],
        "wall_s": round(time.time() - run.t0, 3),
        "violations": len(unlisted),
        "analysis_errors": run.analysis_errors,
    }
    with open(os.path.join(ev_dir, f"{prop}.json"), "w") as fh:
        json.dump(ev, fh, indent=1)

    print(f"[{prop}] tier={run.tier} obligations={len(run.obligations)} discharged={cov['discharged']} "
          f"known={len(listed)} violations={len(unlisted)} distinct_nontrivial={distinct} "
          f"rules={','.join(sorted(per_rule))} wall={ev['wall_s']}s")
    for k, c in sorted(run.counters.items()):
        print(f"  analysed {k}: {c}")
    for ln in lines:
        print(ln)
    for e in run.analysis_errors:
        print(f"ANALYSIS-ERROR property={prop} {e}")
    return 1 if unlisted else (2 if run.analysis_errors else 0)
