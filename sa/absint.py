"""Ownership / alias abstract interpreter (domain A of DESIGN §3.3a).

An array-valued expression is abstracted to a set of (origin, relation):
    origin   P:<param>           object handed in by the caller (P:<t>.data for the array of a tensor parameter)
             IN                  the `.data` array of one of the op's input tensors (self.variables[...])
             S:<attr>            array cached on `self` by some method of the class
             N:<line>            allocated by this function (fresh)
             U                   unknown (reported, never alarmed on)
    relation SAME (may be the identical object) | VIEW (a distinct object that may share memory)

Forward, flow-sensitive structured walk with joins at branches, loop bodies iterated to a fixpoint (bounded),
guard refinement for the repo's idioms, interprocedural summaries (returns / mutated parameters) for repo functions.
Never imports or executes repository code."""
from __future__ import annotations

import ast
from dataclasses import dataclass, field
from typing import Dict, FrozenSet, List, Optional, Set, Tuple

from .common import Facts, dotted, kw, norm
from .model import ClassInfo, External, FunctionInfo, own_nodes

SAME, VIEW = "SAME", "VIEW"

NP_FRESH = {
    "copy", "zeros", "ones", "full", "empty", "zeros_like", "ones_like", "full_like", "empty_like", "arange", "linspace", "logspace",
    "geomspace", "eye", "identity", "indices", "select", "piecewise", "concatenate", "stack", "vstack", "hstack", "dstack", "repeat", "tile",
    "roll", "tensordot", "matmul", "dot", "vdot", "inner", "outer", "kron", "sum", "mean", "var", "std", "prod", "cumsum", "cumprod",
    "max", "min", "amax", "amin", "argmax", "argmin", "any", "all", "pad", "unique", "sort", "argsort", "clip", "norm", "isclose", "allclose",
    "nonzero", "flatnonzero", "count_nonzero", "searchsorted", "bincount", "meshgrid", "unravel_index", "ravel_multi_index", "triu", "tril",
    "diag", "trace", "cross", "average", "median", "ptp", "round", "around", "rint", "floor", "ceil", "trunc", "fix", "take", "choose", "compress",
    "delete", "insert", "append", "argwhere", "lexsort", "diff", "ediff1d", "gradient", "convolve", "correlate", "interp", "issubdtype", "prod",
    "binomial", "rand", "randn", "randint", "random", "uniform", "normal", "permutation", "choice", "isscalar", "ndim", "shape", "size",
    "result_type", "can_cast", "promote_types", "dtype", "finfo", "iinfo", "float32", "float64", "int64", "int32", "bool_", "log", "exp",
    "cumulative_sum", "nansum", "nanmax", "nanmin", "nanmean", "logsumexp",
}
NP_VIEW = {"transpose", "swapaxes", "moveaxis", "rollaxis", "reshape", "ravel", "squeeze", "expand_dims", "broadcast_to", "flip", "fliplr",
           "flipud", "diagonal", "as_strided", "einsum", "real", "imag", "rot90", "split", "array_split", "hsplit", "vsplit", "broadcast_arrays",
           "sliding_window_view", "atleast_1d", "atleast_2d", "atleast_3d"}
NP_SAME = {"asarray", "asanyarray", "ascontiguousarray", "asfortranarray", "require"}
# numpy callables that mutate their first argument
NP_MUT_FIRST = {"copyto", "put", "place", "putmask", "fill_diagonal", "put_along_axis", "shuffle"}
ARR_FRESH_METHODS = {"copy", "sum", "mean", "std", "var", "prod", "max", "min", "argmax", "argmin", "cumsum", "cumprod", "flatten", "round",
                     "clip", "dot", "any", "all", "nonzero", "tolist", "item", "repeat", "take", "compress", "tobytes", "conj", "trace", "ptp",
                     "argsort", "searchsorted", "is_integer", "keys", "values", "items", "format", "join", "index", "count", "get"}
ARR_VIEW_METHODS = {"reshape", "transpose", "swapaxes", "squeeze", "ravel", "view", "diagonal"}
ARR_MUT_METHODS = {"fill", "sort", "put", "resize", "partition", "itemset", "byteswap"}
CONT_MUT_METHODS = {"append", "extend", "insert", "pop", "remove", "reverse", "update", "clear", "setdefault", "popitem", "add", "discard"}
VIEW_ATTRS = {"T", "flat", "real", "imag", "mT"}
SCALAR_ATTRS = {"shape", "ndim", "dtype", "size", "strides", "itemsize", "nbytes", "flags", "constant", "creator", "grad"}


@dataclass(frozen=True)
class AV:
    origins: FrozenSet[Tuple[str, str]] = frozenset()
    kind: str = "arr"        # arr | tensor | cont | other | unknown
    elem: Optional["AV"] = None     # joined element value for containers

    def is_fresh(self) -> bool:
        return bool(self.origins) and all(o.startswith("N:") for o, _ in self.origins)

    def with_rel(self, rel: str) -> "AV":
        return AV(frozenset((o, VIEW if (rel == VIEW or r == VIEW) else SAME) for o, r in self.origins), "arr" if self.kind != "cont" else "cont", self.elem)

    def origin_names(self) -> Set[str]:
        return {o for o, _ in self.origins}

    def has(self, pred) -> List[Tuple[str, str]]:
        return [(o, r) for o, r in self.origins if pred(o, r)]


UNKNOWN = AV(frozenset({("U", SAME)}), "unknown")
OTHER = AV(frozenset(), "other")


def fresh(node: ast.AST, kind="arr") -> AV:
    return AV(frozenset({(f"N:{getattr(node, 'lineno', 0)}", SAME)}), kind)


def join(a: Optional[AV], b: Optional[AV]) -> AV:
    if a is None:
        return b
    if b is None:
        return a
    kind = a.kind if a.kind == b.kind else ("arr" if "arr" in (a.kind, b.kind) else ("unknown" if "unknown" in (a.kind, b.kind) else a.kind))
    if "other" in (a.kind, b.kind) and a.kind != b.kind:
        kind = b.kind if a.kind == "other" else a.kind
    elem = join(a.elem, b.elem) if (a.elem is not None or b.elem is not None) else None
    return AV(a.origins | b.origins, kind, elem)


def join_env(a: Dict[str, AV], b: Dict[str, AV]) -> Dict[str, AV]:
    out = {}
    for k in set(a) | set(b):
        if k.startswith("@lit:"):
            out[k] = a.get(k) if a.get(k) == b.get(k) else "U"
            continue
        if k.startswith("@ver:"):
            # binding stamps: equal on both sides -> kept; different -> the name was (re)bound on one path only: a fresh, unmatched stamp
            if a.get(k) == b.get(k):
                out[k] = a.get(k)
            else:
                atoms = set()
                for v in (a.get(k), b.get(k)):
                    atoms |= set(v[1]) if isinstance(v, tuple) and v and v[0] == "join" else {v}
                out[k] = ("join", frozenset(atoms))
            continue
        if k in a and k in b:
            out[k] = join(a[k], b[k])
        else:
            out[k] = a.get(k) or b.get(k)
    return out


@dataclass
class Write:
    node: ast.AST
    target: AV
    how: str          # description of the sink
    expr: str         # normalised target expression
    via: Optional[str] = None  # callee for interprocedural writes


@dataclass
class Summary:
    returns: AV
    mutated: Dict[int, str] = field(default_factory=dict)   # param index -> how
    writes: List[Write] = field(default_factory=list)
    stores: List[Tuple[ast.AST, str, str, AV]] = field(default_factory=list)  # (node, receiver text, attr, value)
    unknown_calls: List[str] = field(default_factory=list)
    env_at: Dict[int, Dict[str, AV]] = field(default_factory=dict)
    calls: List = field(default_factory=list)


class Interp:
    def __init__(self, facts: Facts, depth: int = 4):
        self.fx = facts
        self.p = facts.p
        self.depth = depth
        self._summaries: Dict[str, Summary] = {}
        self._in_progress: Set[str] = set()
        self._self_attr_cache: Dict[Tuple[str, str], AV] = {}
        self.dynamic_backward_var: Optional[AV] = None  # join over all ops (set by caller)
        self.dynamic_call: Optional[AV] = None

    # ------------------------------------------------------------------ entry points
    def analyse(self, fi: FunctionInfo, param_vals: Optional[Dict[str, AV]] = None, tensor_params: Set[str] = frozenset(),
                depth: Optional[int] = None, self_cls: Optional[ClassInfo] = None) -> Summary:
        st = _State(self, fi, tensor_params, self.depth if depth is None else depth)
        st.self_cls = self_cls or fi.cls
        env: Dict[str, AV] = {}
        a = fi.node.args
        allp = a.posonlyargs + a.args + a.kwonlyargs
        for i, x in enumerate(allp):
            nm = x.arg
            if param_vals and nm in param_vals:
                env[nm] = param_vals[nm]
            elif nm in ("self", "cls") and i == 0 and fi.cls is not None:
                env[nm] = AV(frozenset({("SELF", SAME)}), "other")
            elif nm in tensor_params:
                env[nm] = AV(frozenset({(f"P:{nm}", SAME)}), "tensor")
            elif x.annotation is not None and self._immutable_annotation(fi, x.annotation):
                env[nm] = OTHER  # ints / floats / bools / tuples of ints / strings: cannot be mutated in place
            else:
                env[nm] = AV(frozenset({(f"P:{nm}", SAME)}), "arr")
        if a.vararg:
            nm = a.vararg.arg
            el = AV(frozenset({(f"P:*{nm}", SAME)}), "tensor" if ("*" + nm) in tensor_params or nm in tensor_params else "arr")
            env[nm] = (param_vals or {}).get(nm) or AV(frozenset({(f"N:{fi.node.lineno}", SAME)}), "cont", el)
        if a.kwarg:
            env[a.kwarg.arg] = AV(frozenset({(f"N:{fi.node.lineno}", SAME)}), "cont", UNKNOWN)
        st.block(fi.node.body, env)
        if st.ret is not None:
            ret = st.ret
        elif any(isinstance(n, ast.Raise) for n in own_nodes(fi.node)) and not any(isinstance(n, ast.Return) for n in own_nodes(fi.node)):
            ret = UNKNOWN  # abstract / always-raising body: the concrete override decides
        else:
            ret = OTHER
        sm = Summary(ret, st.mutated, st.writes, st.stores, st.unknown_calls, st.env_at)
        sm.calls = st.calls
        return sm

    IMMUTABLE_TYPE_NAMES = {"int", "float", "bool", "str", "Tuple", "tuple", "Optional", "Union", "Real", "Number", "Integral", "None",
                            "Literal", "complex", "bytes", "type", "Type", "Callable"}

    def _immutable_annotation(self, fi: FunctionInfo, ann: ast.AST, depth: int = 0) -> bool:
        if depth > 3:
            return False
        for x in ast.walk(ann):
            if isinstance(x, ast.Name):
                if x.id in self.IMMUTABLE_TYPE_NAMES:
                    continue
                b = fi.module.symbols.get(x.id)
                if b is not None and b.kind == "assign" and b.value is not None and self._immutable_annotation(fi, b.value, depth + 1):
                    continue  # a module-level alias such as  Axis = Optional[Union[int, Tuple[int, ...]]]
                return False
            if isinstance(x, ast.Constant) and isinstance(x.value, str):
                return False  # string annotation ("Tensor")
            if isinstance(x, ast.Attribute):
                return False
        return True

    def analyse_ctx(self, fi: FunctionInfo, binding: Dict[str, AV], depth: int) -> Optional[Summary]:
        """Analyse `fi` with its parameters bound to the caller's abstract values (unbound parameters: fresh placeholders that
        are *not* caller-owned)."""
        key = (fi.qualname, tuple(sorted((k, v.origins, v.kind) for k, v in binding.items())))
        if not hasattr(self, "_ctx_cache"):
            self._ctx_cache = {}
        if key in self._ctx_cache:
            return self._ctx_cache[key]
        if fi.qualname in self._in_progress or depth <= 0:
            return None
        self._in_progress.add(fi.qualname)
        try:
            pv = dict(binding)
            a = fi.node.args
            for x in a.posonlyargs + a.args + a.kwonlyargs:
                if x.arg not in pv and x.arg not in ("self", "cls"):
                    pv[x.arg] = OTHER  # defaulted parameter: a constant
            s = self.analyse(fi, param_vals=pv, depth=depth - 1)
        finally:
            self._in_progress.discard(fi.qualname)
        self._ctx_cache[key] = s
        return s

    def summary(self, fi: FunctionInfo, depth: int) -> Optional[Summary]:
        """Context-insensitive summary with parameters as placeholders P:<name>."""
        key = fi.qualname
        if key in self._summaries:
            return self._summaries[key]
        if key in self._in_progress or depth <= 0:
            return None
        self._in_progress.add(key)
        try:
            s = self.analyse(fi, depth=depth - 1)
        finally:
            self._in_progress.discard(key)
        self._summaries[key] = s
        return s

    # ------------------------------------------------------------------ class-level view of self.<attr>
    def self_attr(self, cls: ClassInfo, attr: str, tensor_params_of) -> AV:
        key = (cls.qualname, attr)
        if key in self._self_attr_cache:
            return self._self_attr_cache[key]
        self._self_attr_cache[key] = AV(frozenset({(f"S:{attr}", SAME)}), "arr")  # recursion guard
        val: Optional[AV] = None
        for c in cls.mro():
            for m in c.methods.values():
                has = any(isinstance(n, ast.Attribute) and n.attr == attr and isinstance(n.ctx, ast.Store) and norm(n.value) == "self"
                          for n in ast.walk(m.node))
                if not has:
                    continue
                tp = tensor_params_of(cls, m)
                s = self.analyse(m, tensor_params=tp, depth=1)
                for node, recv, a2, v in s.stores:
                    if recv == "self" and a2 == attr:
                        val = join(val, v)
        if val is None:
            out = AV(frozenset({(f"S:{attr}", SAME)}), "unknown")
        else:
            # cached state: fresh allocations become S:attr; aliases of caller objects keep their origin too
            keep = frozenset((o, r) for o, r in val.origins if not o.startswith("N:"))
            out = AV(keep | frozenset({(f"S:{attr}", SAME)}), val.kind if val.kind != "other" else "other", val.elem)
            if val.kind == "other" and not keep:
                out = AV(frozenset(), "other")
            if val.kind == "unknown":
                out = AV(frozenset((o, r) for o, r in out.origins if o != "U"), "arr", val.elem)  # may be an array cached on self
        self._self_attr_cache[key] = out
        return out


class _State:
    def __init__(self, interp: Interp, fi: FunctionInfo, tensor_params, depth: int):
        self.I = interp
        self.fx = interp.fx
        self.fi = fi
        self.tensor_params = set(tensor_params)
        self.depth = depth
        self.ret: Optional[AV] = None
        self.writes: List[Write] = []
        self.mutated: Dict[int, str] = {}
        self.stores: List[Tuple[ast.AST, str, str, AV]] = []
        self.unknown_calls: List[str] = []
        self.env_at: Dict[int, Dict[str, AV]] = {}
        self.calls: List[Tuple[ast.Call, FunctionInfo, Dict[str, AV]]] = []
        a = fi.node.args
        self.param_index = {x.arg: i for i, x in enumerate(a.posonlyargs + a.args + a.kwonlyargs)}
        if a.vararg:
            self.param_index["*" + a.vararg.arg] = len(self.param_index)

    # ------------------------------------------------------------------ statements
    def block(self, body, env: Dict[str, AV]) -> Optional[Dict[str, AV]]:
        """Returns the environment after the block, or None if every path left (return/raise/continue/break)."""
        for st in body:
            if env is None:
                return None
            env = self.stmt(st, env)
        return env

    def stmt(self, st: ast.stmt, env: Dict[str, AV]) -> Optional[Dict[str, AV]]:
        self.env_at[id(st)] = env
        if isinstance(st, ast.Assign):
            v = self.ev(st.value, env)
            if len(st.targets) == 1 and isinstance(st.targets[0], ast.Name) and isinstance(st.value, (ast.Compare, ast.BoolOp, ast.UnaryOp)):
                # a boolean local (`may_alias = g is grad`): remember what it stands for, together with the abstract values of the names it reads,
                # so that a later guard spelled through the local refines like the expression itself -- as long as none of them was re-bound
                if not hasattr(self, "_bool_defs"):
                    self._bool_defs = {}
                self._bool_defs[st.targets[0].id] = (st.value, {x.id: env.get("@ver:" + x.id) for x in ast.walk(st.value) if isinstance(x, ast.Name)})
            env = dict(env)
            for t in st.targets:
                self.assign(t, v, env, st)
            if len(st.targets) == 1 and isinstance(st.targets[0], ast.Name):
                # literal flags (`found = False`): lets `if found:` continue with the states in which the flag can be true
                env["@lit:" + st.targets[0].id] = ("F" if not st.value.value else "T") if isinstance(st.value, ast.Constant) else "U"
            return env
        if isinstance(st, ast.AnnAssign):
            if st.value is None:
                return env
            v = self.ev(st.value, env)
            env = dict(env)
            self.assign(st.target, v, env, st)
            return env
        if isinstance(st, ast.AugAssign):
            v = self.ev(st.value, env)
            t = st.target
            tv = self.ev(t if isinstance(t, (ast.Name, ast.Attribute)) else t.value, env)
            if isinstance(t, ast.Name):
                if tv.kind in ("arr", "unknown", "tensor") and tv.origins:
                    self.write(st, tv, f"augmented assignment `{norm(st)[:50]}`", norm(t))
                    return env
                env = dict(env)
                env[t.id] = fresh(st, tv.kind if tv.kind != "unknown" else "arr") if tv.kind != "other" else OTHER
                return env
            if isinstance(t, ast.Attribute):
                if tv.origins:
                    self.write(st, tv, f"augmented assignment `{norm(st)[:50]}`", norm(t))
                self.stores.append((st, norm(t.value), t.attr, tv))
                return env
            if isinstance(t, ast.Subscript):
                if tv.kind != "cont" or any(o.startswith("P:") for o, _ in tv.origins):
                    self.write(st, tv, f"item update `{norm(st)[:50]}`", norm(t.value))
                return env
            return env
        if isinstance(st, ast.Expr):
            self.ev(st.value, env)
            return env
        if isinstance(st, ast.Return):
            if st.value is not None:
                self.ret = join(self.ret, self.ev(st.value, env))
            else:
                self.ret = join(self.ret, OTHER)
            return None
        if isinstance(st, ast.Raise):
            if st.exc is not None:
                self.ev(st.exc, env)
            return None
        if isinstance(st, ast.If):
            self.ev(st.test, env)
            if not hasattr(self, "_truthy"):
                self._truthy = {}
            base_true, base_false = self.refine(env, st.test, True), self.refine(env, st.test, False)
            # a flag computed by the preceding if/elif chain: continue each branch with the states under which the flag has that truth value
            flag = st.test if isinstance(st.test, ast.Name) else (st.test.operand if isinstance(st.test, ast.UnaryOp) and isinstance(st.test.op, ast.Not)
                                                                    and isinstance(st.test.operand, ast.Name) else None)
            if flag is not None:
                rec = self._truthy.get((flag.id, env.get("@ver:" + flag.id)))
                if rec is not None and rec[0] is env:
                    t_env, f_env = rec[1], rec[2]
                    neg = not isinstance(st.test, ast.Name)
                    if t_env is not None:
                        if neg:
                            base_false = dict(t_env)
                        else:
                            base_true = dict(t_env)
                    if f_env is not None:
                        if neg:
                            base_true = dict(f_env)
                        else:
                            base_false = dict(f_env)
            e1 = self.block(st.body, base_true)
            e2 = self.block(st.orelse, base_false) if st.orelse else base_false
            if e1 is None:
                return e2
            if e2 is None:
                return e1
            joined = join_env(e1, e2)
            for k in list(joined):
                if not k.startswith("@ver:"):
                    continue
                nm = k[5:]
                if e1.get(k) == e2.get(k):
                    continue

                def side(sv):
                    """(states of this side in which nm may be truthy, ... may be falsy)"""
                    r = self._truthy.get((nm, sv.get(k)))
                    if r is not None and r[0] is sv:
                        return r[1], r[2]
                    lit = sv.get("@lit:" + nm, "U")
                    return (None if lit == "F" else sv), (None if lit == "T" else sv)
                t1, f1 = side(e1)
                t2, f2 = side(e2)
                tj = t1 if t2 is None else (t2 if t1 is None else join_env(t1, t2))
                fj = f1 if f2 is None else (f2 if f1 is None else join_env(f1, f2))
                self._truthy[(nm, joined.get(k))] = (joined, tj, fj)
            return joined
        if isinstance(st, (ast.For, ast.AsyncFor)):
            it = self.ev(st.iter, env)
            elem = self.element_of(it, st.iter, env)
            cur = dict(env)
            for _ in range(3):
                e = dict(cur)
                self.assign(st.target, elem, e, st)
                out = self.block(st.body, e)
                nxt = join_env(cur, out) if out is not None else cur
                if nxt == cur:
                    break
                cur = nxt
            if st.orelse:
                r = self.block(st.orelse, cur)
                return r if r is not None else cur
            return cur
        if isinstance(st, ast.While):
            cur = dict(env)
            for _ in range(3):
                self.ev(st.test, cur)
                out = self.block(st.body, self.refine(cur, st.test, True))
                nxt = join_env(cur, out) if out is not None else cur
                if nxt == cur:
                    break
                cur = nxt
            return cur
        if isinstance(st, (ast.With, ast.AsyncWith)):
            env = dict(env)
            for it in st.items:
                v = self.ev(it.context_expr, env)
                if it.optional_vars is not None:
                    self.assign(it.optional_vars, v, env, st)
            return self.block(st.body, env)
        if isinstance(st, ast.Try):
            e1 = self.block(st.body, env)
            outs = [e1] if e1 is not None else []
            for h in st.handlers:
                he = dict(env if e1 is None else join_env(env, e1))
                if h.name:
                    he[h.name] = OTHER
                r = self.block(h.body, he)
                if r is not None:
                    outs.append(r)
            if st.orelse and e1 is not None:
                r = self.block(st.orelse, e1)
                outs = [o for o in outs if o is not e1] + ([r] if r is not None else [])
            res = None
            for o in outs:
                res = o if res is None else join_env(res, o)
            if st.finalbody:
                res = self.block(st.finalbody, res if res is not None else env)
            return res
        if isinstance(st, ast.Assert):
            self.ev(st.test, env)
            return self.refine(env, st.test, True)
        if isinstance(st, ast.Delete):
            env = dict(env)
            for t in st.targets:
                if isinstance(t, ast.Name):
                    env.pop(t.id, None)
            return env
        if isinstance(st, (ast.Break, ast.Continue)):
            return None
        if isinstance(st, (ast.FunctionDef, ast.AsyncFunctionDef, ast.ClassDef)):
            env = dict(env)
            env[st.name] = OTHER
            return env
        return env

    def assign(self, t: ast.AST, v: AV, env: Dict[str, AV], st: ast.AST):
        if isinstance(t, ast.Name):
            env[t.id] = v
            env["@ver:" + t.id] = id(st)  # which statement bound the name last (guards spelled through boolean locals check it)
        elif isinstance(t, (ast.Tuple, ast.List)):
            el = v.elem if v.kind == "cont" and v.elem is not None else (v.with_rel(VIEW) if v.kind in ("arr", "unknown") else UNKNOWN)
            # unpacking a tuple literal elementwise is handled in ev() via elem join; precise per-element when RHS is a literal:
            for e in t.elts:
                self.assign(e.value if isinstance(e, ast.Starred) else e, el, env, st)
        elif isinstance(t, ast.Attribute):
            recv = self.ev(t.value, env)
            self.stores.append((st, norm(t.value), t.attr, v))
            if isinstance(t.value, ast.Name) and ("SELF", SAME) in env.get(t.value.id, OTHER).origins:
                # from now on the object is (also) state cached on self
                env[f"self.{t.attr}"] = AV(v.origins | frozenset({(f"S:{t.attr}", SAME)}), v.kind, v.elem) if v.kind in ("arr", "unknown") else v
            if t.attr == "shape" and recv.origins and recv.kind in ("arr", "unknown"):
                self.write(st, AV(frozenset((o, r) for o, r in recv.origins if r == SAME), recv.kind), f"shape assignment `{norm(st)[:50]}`", norm(t.value))
        elif isinstance(t, ast.Subscript):
            base = self.ev(t.value, env)
            if base.kind == "cont" and not any(o.startswith("P:") for o, _ in base.origins):
                # store into an own container: element join
                if isinstance(t.value, ast.Name) and t.value.id in env:
                    env[t.value.id] = AV(base.origins, "cont", join(base.elem, v))
                return
            if base.kind == "other":
                return
            self.write(st, base, f"item assignment `{norm(st)[:50]}`", norm(t.value))
        elif isinstance(t, ast.Starred):
            self.assign(t.value, v, env, st)

    # ------------------------------------------------------------------ sinks
    def write(self, node, target: AV, how: str, expr: str, via: Optional[str] = None):
        if not target.origins:
            return
        self.writes.append(Write(node, target, how, expr, via))
        for o, r in target.origins:
            if o.startswith("P:"):
                nm = o[2:].split(".")[0]
                if nm in self.param_index:
                    self.mutated.setdefault(self.param_index[nm], how)

    # ------------------------------------------------------------------ refinement
    def refine(self, env: Dict[str, AV], test: ast.AST, truth: bool) -> Dict[str, AV]:
        if isinstance(test, ast.Name) and test.id in getattr(self, "_bool_defs", {}):
            expr, snap = self._bool_defs[test.id]
            if all(env.get("@ver:" + k) == v for k, v in snap.items()):
                return self.refine(env, expr, truth)
            return env
        if isinstance(test, ast.UnaryOp) and isinstance(test.op, ast.Not):
            return self.refine(env, test.operand, not truth)
        if isinstance(test, ast.BoolOp):
            if (isinstance(test.op, ast.And) and truth) or (isinstance(test.op, ast.Or) and not truth):
                for v in test.values:
                    env = self.refine(env, v, truth)
                return env
            # disjunctive information: at least one operand has the required truth value -> join of the individual refinements
            out = None
            for v in test.values:
                r = self.refine(env, v, truth)
                out = r if out is None else join_env(out, r)
            return out if out is not None else env
        if isinstance(test, ast.Compare) and len(test.ops) == 1:
            op = test.ops[0]
            l, r = test.left, test.comparators[0]
            # X.base is None  /  X.base is not None
            if isinstance(l, ast.Attribute) and l.attr == "base" and isinstance(l.value, ast.Name) and isinstance(r, ast.Constant) and r.value is None:
                owns = (isinstance(op, ast.Is) and truth) or (isinstance(op, ast.IsNot) and not truth)
                if owns and l.value.id in env:
                    v = env[l.value.id]
                    env = dict(env)
                    env[l.value.id] = AV(frozenset((o, rel) for o, rel in v.origins if rel == SAME), v.kind, v.elem)
                return env
            # X is Y / X is not Y
            if isinstance(op, (ast.Is, ast.IsNot)) and isinstance(l, ast.Name) and isinstance(r, ast.Name) and l.id in env and r.id in env:
                distinct = (isinstance(op, ast.IsNot) and truth) or (isinstance(op, ast.Is) and not truth)
                if distinct:
                    rv = env[r.id]
                    if len(rv.origins) == 1:
                        (ro, rr), = rv.origins
                        if rr == SAME:
                            lv = env[l.id]
                            env = dict(env)
                            env[l.id] = AV(frozenset((o, rel) for o, rel in lv.origins if not (o == ro and rel == SAME)), lv.kind, lv.elem)
                return env
        if isinstance(test, ast.Call):
            d = dotted(test.func) or ""
            if d.split(".")[-1] in ("shares_memory", "may_share_memory") and len(test.args) == 2 and not truth:
                a, b = test.args
                if isinstance(a, ast.Name) and a.id in env:
                    bv = self.ev(b, env)
                    av = env[a.id]
                    env = dict(env)
                    env[a.id] = AV(frozenset((o, rel) for o, rel in av.origins if o not in bv.origin_names()), av.kind, av.elem)
                return env
        return env

    # ------------------------------------------------------------------ expressions
    def element_of(self, it: AV, expr: ast.AST, env) -> AV:
        if it.kind == "cont" and it.elem is not None:
            return it.elem
        if isinstance(expr, ast.Call) and dotted(expr.func) in ("enumerate", "zip", "reversed", "range", "sorted"):
            if dotted(expr.func) == "range":
                return OTHER
            parts = [self.element_of(self.ev(a, env), a, env) for a in expr.args]
            if dotted(expr.func) in ("reversed", "sorted"):
                return parts[0] if parts else UNKNOWN
            if dotted(expr.func) == "enumerate":
                return AV(frozenset(), "cont", parts[0] if parts else UNKNOWN)
            j = None
            for p in parts:
                j = join(j, p)
            return AV(frozenset(), "cont", j)
        if it.kind == "other":
            return OTHER
        if it.kind in ("arr", "unknown"):
            return it.with_rel(VIEW)
        return UNKNOWN

    def ev(self, e: ast.AST, env: Dict[str, AV]) -> AV:
        if e is None:
            return OTHER
        if isinstance(e, ast.Constant):
            return OTHER
        if isinstance(e, ast.Name):
            if e.id in env:
                return env[e.id]
            return OTHER if e.id in ("True", "False", "None") else AV(frozenset(), "other")
        if isinstance(e, (ast.Tuple, ast.List, ast.Set)):
            el = None
            for x in e.elts:
                v = self.ev(x.value if isinstance(x, ast.Starred) else x, env)
                if isinstance(x, ast.Starred):
                    v = v.elem if v.kind == "cont" and v.elem is not None else v
                el = join(el, v)
            return AV(frozenset({(f"N:{e.lineno}", SAME)}), "cont", el if el is not None else OTHER)
        if isinstance(e, ast.Dict):
            el = None
            for x in e.values:
                el = join(el, self.ev(x, env))
            return AV(frozenset({(f"N:{e.lineno}", SAME)}), "cont", el if el is not None else OTHER)
        if isinstance(e, (ast.ListComp, ast.GeneratorExp, ast.SetComp, ast.DictComp)):
            env2 = dict(env)
            for g in e.generators:
                it = self.ev(g.iter, env2)
                self.assign(g.target, self.element_of(it, g.iter, env2), env2, e)
                for c in g.ifs:
                    self.ev(c, env2)
                    env2 = self.refine(env2, c, True)
            el = self.ev(e.value if isinstance(e, ast.DictComp) else e.elt, env2)
            return AV(frozenset({(f"N:{e.lineno}", SAME)}), "cont", el)
        if isinstance(e, ast.Attribute):
            return self.ev_attr(e, env)
        if isinstance(e, ast.Subscript):
            b = self.ev(e.value, env)
            self.ev(e.slice, env)
            if b.kind == "cont":
                return b.elem if b.elem is not None else UNKNOWN
            if b.kind == "other":
                return OTHER
            if b.kind == "tensor":
                return AV(b.origins, "tensor")
            # array indexing: basic -> view, advanced -> copy  => VIEW-or-fresh
            return AV(frozenset((o, VIEW) for o, _ in b.origins) | frozenset({(f"N:{e.lineno}", SAME)}), b.kind)
        if isinstance(e, (ast.BinOp,)):
            l, r = self.ev(e.left, env), self.ev(e.right, env)
            if l.kind == "cont" and r.kind == "cont" and isinstance(e.op, ast.Add):
                return AV(frozenset({(f"N:{e.lineno}", SAME)}), "cont", join(l.elem, r.elem))
            if l.kind == "cont" and isinstance(e.op, ast.Mult):
                return AV(frozenset({(f"N:{e.lineno}", SAME)}), "cont", l.elem)
            if l.kind == "other" and r.kind == "other":
                return OTHER
            return fresh(e)
        if isinstance(e, ast.UnaryOp):
            v = self.ev(e.operand, env)
            return OTHER if v.kind == "other" or isinstance(e.op, ast.Not) else fresh(e)
        if isinstance(e, ast.BoolOp):
            out = None
            for v in e.values:
                out = join(out, self.ev(v, env))
            return out
        if isinstance(e, ast.Compare):
            self.ev(e.left, env)
            for c in e.comparators:
                self.ev(c, env)
            return fresh(e) if any(self.ev(x, env).kind in ("arr", "unknown") for x in [e.left] + e.comparators) else OTHER
        if isinstance(e, ast.IfExp):
            self.ev(e.test, env)
            a = self.ev(e.body, self.refine(env, e.test, True))
            b = self.ev(e.orelse, self.refine(env, e.test, False))
            return join(a, b)
        if isinstance(e, ast.Call):
            return self.ev_call(e, env)
        if isinstance(e, ast.Starred):
            return self.ev(e.value, env)
        if isinstance(e, ast.Lambda):
            return OTHER
        if isinstance(e, ast.JoinedStr):
            return OTHER
        if isinstance(e, ast.Slice):
            for x in (e.lower, e.upper, e.step):
                if x is not None:
                    self.ev(x, env)
            return OTHER
        if isinstance(e, ast.NamedExpr):
            v = self.ev(e.value, env)
            if isinstance(e.target, ast.Name):
                env[e.target.id] = v
            return v
        return UNKNOWN

    def ev_attr(self, e: ast.Attribute, env) -> AV:
        # self.<attr>
        if isinstance(e.value, ast.Name) and e.value.id in env and ("SELF", SAME) in env[e.value.id].origins:
            if e.attr == "variables":
                return AV(frozenset(), "cont", AV(frozenset({("INVAR", SAME)}), "tensor"))
            if self.fi.cls is not None:
                # flow-sensitive: an attribute assigned earlier in this very function
                key = f"self.{e.attr}"
                if key in env:
                    return env[key]
                return self.I.self_attr(self.fi.cls, e.attr, _tensor_params_of_factory(self.I))
            return UNKNOWN
        d = dotted(e)
        if d and d.split(".")[0] not in env:
            r = self.fx.resolve_in(self.fi, e)
            if isinstance(r, External) or r is not None:
                return OTHER
        b = self.ev(e.value, env)
        if e.attr == "data":
            if b.kind == "tensor":
                outs = set()
                for o, r in b.origins:
                    if o == "INVAR":
                        outs.add(("IN", SAME))
                    elif o.startswith("P:"):
                        outs.add((o + ".data", SAME))
                    else:
                        outs.add((o, r))
                return AV(frozenset(outs), "arr")
            if b.kind in ("arr", "unknown"):
                # `.data` of something that may be a tensor or an array (ArrayLike parameter)
                return AV(frozenset((o + ".data" if o.startswith("P:") and not o.endswith(".data") else o, r) for o, r in b.origins), "arr")
            return b
        if e.attr in VIEW_ATTRS:
            return b.with_rel(VIEW) if b.kind != "other" else OTHER
        if e.attr == "base":
            return AV(frozenset((o, VIEW) for o, _ in b.origins), "arr")
        if e.attr in SCALAR_ATTRS:
            return OTHER
        if b.kind == "other":
            return OTHER
        return UNKNOWN

    def np_name(self, func: ast.AST) -> Optional[str]:
        ext = self.fx.ext_name_of(self.fi, func)
        if ext and (ext.startswith("numpy.") or ext.startswith("scipy.")):
            return ext
        return None

    def ev_call(self, e: ast.Call, env) -> AV:
        args = [self.ev(a.value if isinstance(a, ast.Starred) else a, env) for a in e.args]
        kws = {k.arg: self.ev(k.value, env) for k in e.keywords}
        out_kw = kw(e, "out")
        f = e.func
        d = dotted(f)
        # builtins / container constructors
        if isinstance(f, ast.Name) and f.id not in env:
            if f.id in ("tuple", "list", "set", "frozenset", "sorted", "reversed"):
                if args:
                    el = self.element_of(args[0], e.args[0], env)
                    return AV(frozenset({(f"N:{e.lineno}", SAME)}), "cont", el)
                return AV(frozenset({(f"N:{e.lineno}", SAME)}), "cont", OTHER)
            if f.id == "dict":
                el = None
                for v in kws.values():
                    el = join(el, v)
                return AV(frozenset({(f"N:{e.lineno}", SAME)}), "cont", el if el is not None else OTHER)
            if f.id in ("len", "int", "float", "bool", "str", "isinstance", "hasattr", "id", "range", "any", "all", "type", "repr",
                        "issubclass", "callable", "print", "abs", "round", "divmod", "pow", "getattr", "slice", "iter"):
                return OTHER
            if f.id in ("sum", "max", "min"):
                if args and (args[0].kind == "cont") and args[0].elem is not None and args[0].elem.kind in ("arr", "unknown", "tensor"):
                    return fresh(e) if f.id == "sum" else args[0].elem
                return fresh(e) if args and args[0].kind in ("arr", "unknown") else OTHER
            if f.id in ("zip", "enumerate", "map", "filter"):
                el = None
                for i, a in enumerate(args):
                    if f.id in ("map", "filter") and i == 0:
                        continue
                    el = join(el, self.element_of(a, e.args[i], env))
                return AV(frozenset({(f"N:{e.lineno}", SAME)}), "cont", AV(frozenset(), "cont", el) if f.id in ("zip", "enumerate") else el)
            if f.id == "next" and args:
                return self.element_of(args[0], e.args[0], env)
            if f.id == "reduce" and len(args) >= 2:
                # functools.reduce(<binary lambda/op>, it): the lambda's result type; for arithmetic lambdas a fresh array
                if isinstance(e.args[0], ast.Lambda) and isinstance(e.args[0].body, ast.BinOp):
                    return fresh(e)
                return UNKNOWN
        # numpy
        npn = self.np_name(f)
        if npn is None and isinstance(f, ast.Attribute) and f.attr in ("numpy_ufunc", "numpy_func") and isinstance(f.value, ast.Name) \
                and ("SELF", SAME) in env.get(f.value.id, OTHER).origins and getattr(self, "self_cls", None) is not None:
            r = self.fx.class_attr_value(self.self_cls, f.attr)
            if isinstance(r, External) and r.name.startswith("numpy."):
                npn = r.name  # the concrete class's wrapped NumPy kernel
        if npn is not None:
            short = npn.split(".")[-1]
            if out_kw is not None and not (isinstance(out_kw, ast.Constant) and out_kw.value is None):
                ov = kws.get("out", UNKNOWN)
                self.write(e, ov, f"`out=` target of {npn}", norm(out_kw))
                return ov
            # ufunc methods:  np.add.at(X, idx, v)
            if short == "at" and args:
                self.write(e, args[0], f"{npn}(...) in-place scatter", norm(e.args[0]))
                return OTHER
            if short in NP_MUT_FIRST and args:
                self.write(e, args[0], f"{npn}(...) mutates its first argument", norm(e.args[0]))
                return OTHER
            if short == "nan_to_num":
                c = kw(e, "copy")
                if c is not None and isinstance(c, ast.Constant) and c.value is False and args:
                    self.write(e, args[0], "np.nan_to_num(copy=False)", norm(e.args[0]))
                    return args[0]
                return fresh(e)
            if short == "array":
                c = kw(e, "copy")
                if c is not None and not (isinstance(c, ast.Constant) and c.value is True) and args:
                    return join(args[0].with_rel(SAME) if args[0].kind != "other" else fresh(e), fresh(e))
                return fresh(e)
            if short == "where":
                return fresh(e) if len(e.args) == 3 else AV(frozenset({(f"N:{e.lineno}", SAME)}), "cont", fresh(e))
            if short in ("atleast_1d", "atleast_2d", "atleast_3d") and args and args[0].origins:
                return join(join(args[0], args[0].with_rel(VIEW)), fresh(e))
            if short in NP_SAME and args:
                return join(args[0] if args[0].kind != "other" else fresh(e), fresh(e)) if args[0].origins else fresh(e)
            if short in NP_VIEW:
                srcs = None
                for a in args:
                    if a.kind in ("arr", "unknown"):
                        srcs = join(srcs, a.with_rel(VIEW))
                    elif a.kind == "cont" and a.elem is not None and a.elem.kind in ("arr", "unknown"):
                        srcs = join(srcs, a.elem.with_rel(VIEW))
                r = join(srcs, fresh(e)) if srcs is not None else fresh(e)
                if short in ("split", "array_split", "hsplit", "vsplit", "broadcast_arrays"):
                    return AV(frozenset({(f"N:{e.lineno}", SAME)}), "cont", r)
                return r
            if short in NP_FRESH or npn.startswith("numpy.random") or npn.startswith("numpy.linalg"):
                return fresh(e)
            # any other numpy callable: ufuncs etc. -> fresh result
            if npn.startswith("numpy."):
                return fresh(e)
        # method call on a value
        if isinstance(f, ast.Attribute):
            recv = self.ev(f.value, env)
            m = f.attr
            is_self = isinstance(f.value, ast.Name) and f.value.id in env and ("SELF", SAME) in env[f.value.id].origins
            if not is_self and recv.kind in ("arr", "unknown") and recv.origins:
                if out_kw is not None and not (isinstance(out_kw, ast.Constant) and out_kw.value is None):
                    ov = kws.get("out", UNKNOWN)
                    self.write(e, ov, f"`out=` target of .{m}()", norm(out_kw))
                    return ov
                if m == "astype":
                    c = kw(e, "copy")
                    if c is not None and not (isinstance(c, ast.Constant) and c.value is True):
                        return join(recv, fresh(e))
                    return fresh(e)
                if m in ARR_FRESH_METHODS:
                    return fresh(e)
                if m in ARR_VIEW_METHODS:
                    return join(recv.with_rel(VIEW), fresh(e))
                if m in ARR_MUT_METHODS:
                    self.write(e, recv, f".{m}() mutates the array in place", norm(f.value))
                    return OTHER
            if not is_self and recv.kind == "cont":
                if m in CONT_MUT_METHODS:
                    if any(o.startswith("P:") for o, _ in recv.origins):
                        self.write(e, recv, f".{m}() mutates a caller-owned container", norm(f.value))
                    elif m in ("append", "add", "insert", "extend") and isinstance(f.value, ast.Name) and f.value.id in env and args:
                        v = args[-1]
                        if m == "extend":
                            v = self.element_of(v, e.args[-1], env)
                        env[f.value.id] = AV(recv.origins, "cont", join(recv.elem, v))
                    return OTHER
                if m in ("copy",):
                    return AV(frozenset({(f"N:{e.lineno}", SAME)}), "cont", recv.elem)
                if m in ("get", "pop"):
                    return recv.elem if recv.elem is not None else UNKNOWN
                if m in ("items", "values", "keys"):
                    return AV(frozenset(), "cont", recv.elem)
                return OTHER
        # the wrapped NumPy kernel of the ufunc / sequential base classes
        if isinstance(f, ast.Attribute) and f.attr in ("numpy_ufunc", "numpy_func") and isinstance(f.value, ast.Name) \
                and ("SELF", SAME) in env.get(f.value.id, OTHER).origins:
            if out_kw is not None and not (isinstance(out_kw, ast.Constant) and out_kw.value is None):
                ov = kws.get("out", UNKNOWN)
                # out may be None at run time (default): result is the out array or a fresh one
                self.write(e, ov, f"`out=` target of self.{f.attr}", norm(out_kw))
                return join(ov, fresh(e))
            return fresh(e)
        # dynamic dispatch over every Operation's backward_var (worst case supplied by the rule)
        if isinstance(f, ast.Attribute) and f.attr == "backward_var" and self.I.dynamic_backward_var is not None \
                and isinstance(f.value, ast.Name) and ("SELF", SAME) in env.get(f.value.id, OTHER).origins:
            return self._instantiate(self.I.dynamic_backward_var, {"grad": args[0] if args else UNKNOWN})
        # repo callee
        r = self.fx.resolve_call(self.fi, e)
        if isinstance(r, FunctionInfo):
            return self.call_repo(r, e, args, kws, env)
        if isinstance(r, ClassInfo):
            return AV(frozenset({(f"N:{e.lineno}", SAME)}), "other")
        if isinstance(r, External):
            return OTHER if not r.name.startswith("numpy") else fresh(e)
        # dynamic dispatch hooks
        if isinstance(f, ast.Attribute) and f.attr == "backward_var" and self.I.dynamic_backward_var is not None:
            return self._instantiate(self.I.dynamic_backward_var, {"grad": args[0] if args else UNKNOWN})
        self.unknown_calls.append(f"{self.fi.short}:{e.lineno} {norm(f)[:50]}")
        return UNKNOWN

    def _instantiate(self, av: AV, binding: Dict[str, AV]) -> AV:
        outs = set()
        kind = av.kind
        for o, r in av.origins:
            if o.startswith("P:"):
                base = o[2:].split(".")[0].lstrip("*")
                if base in binding:
                    for o2, r2 in binding[base].origins:
                        outs.add((o2 + (".data" if o.endswith(".data") and o2.startswith("P:") and not o2.endswith(".data") else ""),
                                  VIEW if VIEW in (r, r2) else SAME))
                    continue
                outs.add(("U", r))
            elif o.startswith("N:"):
                outs.add(o and (o, r))
            else:
                outs.add((o, r))
        return AV(frozenset(outs), kind, av.elem)

    def call_repo(self, callee: FunctionInfo, e: ast.Call, args: List[AV], kws: Dict[str, AV], env) -> AV:
        a = callee.node.args
        names = [x.arg for x in a.posonlyargs + a.args]
        offset = 1 if (callee.cls is not None and names and names[0] in ("self", "cls") and not callee.has_decorator("staticmethod")
                       and isinstance(e.func, ast.Attribute)) else 0
        binding: Dict[str, AV] = {}
        exprs: Dict[str, ast.AST] = {}
        pos = names[offset:]
        i = 0
        for arg_node, av in zip(e.args, args):
            if isinstance(arg_node, ast.Starred):
                if a.vararg:
                    binding[a.vararg.arg] = join(binding.get(a.vararg.arg), av.elem if av.kind == "cont" and av.elem is not None else av)
                continue
            if i < len(pos):
                binding[pos[i]] = av
                exprs[pos[i]] = arg_node
            elif a.vararg:
                binding[a.vararg.arg] = join(binding.get(a.vararg.arg), av)
            i += 1
        for k in e.keywords:
            if k.arg is not None:
                binding[k.arg] = kws[k.arg]
                exprs[k.arg] = k.value
        self.calls.append((e, callee, binding))
        # context-sensitive analysis of the callee with the actual argument values (keeps guard refinements made inside helpers)
        s = self.I.analyse_ctx(callee, binding, self.depth)
        if s is None:
            self.unknown_calls.append(f"{self.fi.short}:{e.lineno} {callee.short} (recursion / depth bound)")
            return UNKNOWN
        allp = [x.arg for x in a.posonlyargs + a.args + a.kwonlyargs]
        reported = set()
        for w in s.writes:
            # a write inside the callee that reaches one of *our* values
            hit = None
            for nm in allp:
                if nm in binding and binding[nm].origins and (w.target.origins & binding[nm].origins):
                    hit = nm
                    break
            if hit is None or hit in reported:
                continue
            reported.add(hit)
            self.write(e, AV(w.target.origins, w.target.kind), f"call {callee.short} mutates its parameter `{hit}` ({w.how})",
                       norm(exprs[hit]) if hit in exprs else hit, via=callee.short)
        for node, recv, attr, val in s.stores:
            if attr in ("_grad",):
                self.stores.append((e, f"<{callee.short}>{recv}", attr, val))
        return s.returns


def _tensor_params_of_factory(interp: Interp):
    def f(cls: ClassInfo, m: FunctionInfo) -> Set[str]:
        return tensor_params_of(interp.fx, cls, m)
    return f


def tensor_params_of(fx: Facts, cls: Optional[ClassInfo], m: FunctionInfo) -> Set[str]:
    """Parameters of an op's __call__ that are tensors (= the elements of self.variables)."""
    if cls is None or m.name != "__call__":
        return set()
    out = set()
    for n in own_nodes(m.node):
        if isinstance(n, (ast.Assign, ast.AnnAssign)):
            tg = n.targets if isinstance(n, ast.Assign) else [n.target]
            if any(norm(t) == "self.variables" for t in tg) and getattr(n, "value", None) is not None:
                for x in ast.walk(n.value):
                    if isinstance(x, ast.Name):
                        out.add(x.id)
    a = m.node.args
    params = {x.arg for x in a.posonlyargs + a.args + a.kwonlyargs}
    if a.vararg:
        params.add(a.vararg.arg)
    res = out & params
    # aliases  self.X = X ; variables = (self.X, ...)
    for n in own_nodes(m.node):
        if isinstance(n, ast.Assign) and len(n.targets) == 1 and isinstance(n.targets[0], ast.Attribute) \
                and norm(n.targets[0].value) == "self" and isinstance(n.value, ast.Name) and n.value.id in params:
            for s in own_nodes(m.node):
                if isinstance(s, ast.Assign) and any(norm(t) == "self.variables" for t in s.targets) and norm(n.targets[0]) in norm(s.value):
                    res.add(n.value.id)
    return res
