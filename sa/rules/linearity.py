"""Linearity-in-grad abstract domain (DESIGN §3.3b) and rule R02.2.

Lattice values:  Z (zero)  L (homogeneous linear in grad)  C (independent of grad)  A (affine: L + C)  N (non-linear)  U (unknown)
A VJP is linear in the incoming gradient; tests that seed with ones cannot see an affine or grad-free rule."""
from __future__ import annotations

import ast
from typing import Dict, List, Optional, Set

from ..common import dotted, kw, loc, norm
from ..model import ClassInfo, External, FunctionInfo, own_nodes
from .util import facts
from . import opcontract

Z, L, C, A, N, U, BOT = "Z", "L", "C", "A", "N", "U", "BOT"


def is_cont(v):
    return isinstance(v, tuple)


def cont(n_lin: int, other: str):
    """a Python tuple/list of arrays: number of grad-dependent (L/A) elements (capped at 2) and the join of the others"""
    return ("T", min(n_lin, 2), other)


def cont_flat(v) -> str:
    if not is_cont(v):
        return v
    if v[2] == BOT:
        return L if v[1] else C
    return join(L, v[2]) if v[1] else v[2]

LINEAR_FUNCS = {  # linear in their first array argument (other arguments must be C)
    "reshape", "ravel", "transpose", "swapaxes", "moveaxis", "squeeze", "expand_dims", "broadcast_to", "flip", "roll", "sum", "cumsum",
    "asarray", "array", "ascontiguousarray", "copy", "negative", "positive", "diagonal", "trace", "repeat", "tile", "pad", "mean",
    "atleast_1d", "atleast_2d", "atleast_3d", "rollaxis", "take", "nan_to_num", "float64", "float32", "stack", "concatenate", "real",
    "as_strided", "sliding_window_view", "reduce_broadcast", "flatten", "astype", "view", "conj", "fliplr", "flipud", "rot90", "triu", "tril",
}
BILINEAR_FUNCS = {"multiply", "tensordot", "matmul", "dot", "einsum", "inner", "outer", "kron", "divide", "true_divide"}
ZERO_FUNCS = {"zeros", "zeros_like"}
CONST_FUNCS = {"ones", "ones_like", "full_like", "arange", "eye", "identity", "empty", "empty_like", "indices", "isclose", "isnan", "logical_not",
               "logical_and", "logical_or", "any", "all", "argmax", "argmin", "unique", "where1", "shape", "ndim", "prod_shape", "errstate",
               "unravel_index", "nonzero", "sort", "argsort", "cumprod_c", "issubdtype", "finfo"}
LINEAR_METHODS = {"reshape", "ravel", "transpose", "swapaxes", "squeeze", "sum", "cumsum", "astype", "copy", "flatten", "view", "mean", "repeat",
                  "take", "diagonal", "trace", "conj", "dot", "T"}


def join(a, b):
    if a == b:
        return a
    if a == BOT:
        return b
    if b == BOT:
        return a
    if is_cont(a) or is_cont(b):
        if is_cont(a) and is_cont(b):
            return cont(max(a[1], b[1]), join(a[2], b[2]))
        return join(cont_flat(a), cont_flat(b))
    if N in (a, b):
        return N
    if U in (a, b):
        return U
    s = {a, b}
    if s == {Z, L}:
        return L
    if s == {Z, C}:
        return C  # may be zero or a constant: still grad-free
    return A


def mul(a, b):
    a, b = cont_flat(a), cont_flat(b)
    if BOT in (a, b):
        return BOT
    if Z in (a, b):
        return Z
    if N in (a, b):
        return N
    if U in (a, b):
        return U
    if a == C and b == C:
        return C
    if {a, b} == {L, C}:
        return L
    if {a, b} == {A, C}:
        return A
    return N  # L*L, L*A, A*A


def add(a, b):
    if is_cont(a) and is_cont(b):
        return cont(a[1] + b[1], join(a[2], b[2]))  # tuple concatenation
    a, b = cont_flat(a), cont_flat(b)
    if BOT in (a, b):
        return a if b == BOT else b
    if a == Z:
        return b
    if b == Z:
        return a
    if N in (a, b):
        return N
    if U in (a, b):
        return U
    if a == b and a in (L, C):
        return a
    return A


class LinState:
    def __init__(self, run, fi: FunctionInfo, depth: int = 0):
        self.run = run
        self.fx = facts(run)
        self.fi = fi
        self.depth = depth
        self.ret: Optional[str] = None
        self.notes: List[str] = []

    def block(self, body, env):
        for st in body:
            if env is None:
                return None
            env = self.stmt(st, env)
        return env

    def _join_env(self, a, b):
        if a is None:
            return b
        if b is None:
            return a
        out = {}
        for k in set(a) | set(b):
            out[k] = join(a[k], b[k]) if k in a and k in b else (a.get(k) or b.get(k))
        return out

    def stmt(self, st, env):
        if isinstance(st, (ast.Assign, ast.AnnAssign)):
            if getattr(st, "value", None) is None:
                return env
            v = self.ev(st.value, env)
            env = dict(env)
            for t in (st.targets if isinstance(st, ast.Assign) else [st.target]):
                self.assign(t, v, env)
            return env
        if isinstance(st, ast.AugAssign):
            v = self.ev(st.value, env)
            env = dict(env)
            t = st.target
            base = t
            while isinstance(base, ast.Subscript):
                base = base.value
            key = norm(base)
            cur = cont_flat(env.get(key, self.ev(base, env)))
            v = cont_flat(v)
            if isinstance(st.op, (ast.Add, ast.Sub)):
                new = add(cur, v)
            elif isinstance(st.op, ast.Mult):
                if isinstance(t, ast.Subscript) and cur == C and v == L:
                    # part of a grad-free buffer is scaled by grad: linear iff the untouched remainder is zero -- not tracked
                    new = U
                    self.notes.append(f"line {st.lineno}: partial in-place scaling of a grad-free buffer by grad")
                else:
                    new = mul(cur, v) if not isinstance(t, ast.Subscript) else join(cur, mul(cur, v))
            elif isinstance(st.op, ast.Div):
                new = (cur if v == C else (N if v in (L, A, N) else U)) if cur != Z else Z
            else:
                new = U
            env[key] = new
            return env
        if isinstance(st, ast.Expr):
            v = st.value
            # np.add.at(out, idx, val): scatter-add
            if isinstance(v, ast.Call) and (dotted(v.func) or "").endswith(".at") and len(v.args) >= 3:
                key = norm(v.args[0])
                env = dict(env)
                env[key] = add(env.get(key, self.ev(v.args[0], env)), self.ev(v.args[2], env))
                return env
            if isinstance(v, ast.Call):
                o = kw(v, "out")
                if isinstance(o, ast.Name):
                    env = dict(env)
                    env[o.id] = self.ev(ast.Call(func=v.func, args=v.args, keywords=[k for k in v.keywords if k.arg != "out"]), env)
                    return env
            self.ev(v, env)
            return env
        if isinstance(st, ast.Return):
            self.ret = join(self.ret, self.ev(st.value, env)) if self.ret is not None else self.ev(st.value, env)
            return None
        if isinstance(st, ast.Raise):
            return None
        if isinstance(st, ast.If):
            e1 = self.block(st.body, env)
            e2 = self.block(st.orelse, env) if st.orelse else env
            return self._join_env(e1, e2)
        if isinstance(st, (ast.For, ast.While)):
            cur = env
            for _ in range(3):
                e = dict(cur)
                if isinstance(st, ast.For):
                    self.assign(st.target, self.ev(st.iter, cur), e)
                out = self.block(st.body, e)
                nxt = self._join_env(cur, out)
                if nxt == cur:
                    break
                cur = nxt
            return cur
        if isinstance(st, ast.With):
            return self.block(st.body, env)
        if isinstance(st, ast.Try):
            e1 = self.block(st.body, env)
            for h in st.handlers:
                e1 = self._join_env(e1, self.block(h.body, env))
            return e1
        return env

    def assign(self, t, v, env):
        if isinstance(t, ast.Name):
            env[t.id] = v
        elif isinstance(t, (ast.Tuple, ast.List)):
            for e in t.elts:
                self.assign(e, v, env)
        elif isinstance(t, ast.Subscript):
            base = t.value
            while isinstance(base, ast.Subscript):
                base = base.value
            key = norm(base)
            cur = env.get(key, self.ev(base, env))
            # storing 0 / nan markers into an L array keeps it L; storing an L into Z gives L
            if v == C and cur in (L, Z):
                env[key] = cur  # constant markers (0, 1, nan) written into a gradient buffer -- accepted (DESIGN: undefined-derivative marker)
                self.notes.append(f"line {t.lineno}: constant stored into a {cur} array")
            else:
                env[key] = join(cur, v) if cur != Z else v
        elif isinstance(t, ast.Attribute):
            env[norm(t)] = v

    def ev(self, e, env) -> str:
        if e is None:
            return C
        if isinstance(e, ast.Constant):
            if e.value is None:
                return BOT
            if isinstance(e.value, (int, float)) and e.value == 0 and not isinstance(e.value, bool):
                return Z
            return C
        if isinstance(e, ast.Name):
            return env.get(e.id, C)
        if isinstance(e, ast.Attribute):
            k = norm(e)
            if k in env:
                return env[k]
            if k in ("np.nan", "numpy.nan", "np.NaN"):
                return Z  # the repo's marker for "derivative undefined here": accepted wherever a zero is
            if e.attr in ("shape", "ndim", "dtype", "size", "base", "flags", "strides"):
                return C
            b = self.ev(e.value, env)
            if e.attr in ("T", "real", "flat", "data"):
                return b
            return C if b == C else b
        if isinstance(e, ast.Subscript):
            b = self.ev(e.value, env)
            i = cont_flat(self.ev(e.slice, env))
            if is_cont(b):
                return b if isinstance(e.slice, ast.Slice) else cont_flat(b)
            if i not in (C, Z, BOT):
                return N if i in (L, A, N) else U
            return b
        if isinstance(e, ast.Slice):
            return C
        if isinstance(e, (ast.Tuple, ast.List)):
            nl, other = 0, BOT
            for x in e.elts:
                v = self.ev(x.value if isinstance(x, ast.Starred) else x, env)
                if is_cont(v):
                    nl += v[1]
                    other = join(other, v[2])
                elif v in (L, A):
                    nl += 1
                    if v == A:
                        other = join(other, C)
                else:
                    other = join(other, v)
            return cont(nl, other)
        if isinstance(e, ast.Dict):
            return C
        if isinstance(e, (ast.ListComp, ast.GeneratorExp, ast.SetComp)):
            env2 = dict(env)
            for g in e.generators:
                self.assign(g.target, self.ev(g.iter, env2), env2)
            return self.ev(e.elt, env2)
        if isinstance(e, ast.UnaryOp):
            v = self.ev(e.operand, env)
            if isinstance(e.op, (ast.USub, ast.UAdd)):
                return v
            return C if v in (C, Z) else (N if v in (L, A, N) else U)
        if isinstance(e, ast.BinOp):
            a, b = self.ev(e.left, env), self.ev(e.right, env)
            if isinstance(e.op, (ast.Add, ast.Sub)):
                return add(a, b)
            if isinstance(e.op, (ast.Mult, ast.MatMult)):
                return mul(a, b)
            if isinstance(e.op, (ast.Div, ast.FloorDiv)):
                if a == Z:
                    return Z
                if b in (C,):
                    return a
                if b == Z:
                    return U
                return N if b in (L, A, N) else U
            if isinstance(e.op, ast.Pow):
                if a in (C, Z) and b in (C, Z):
                    return C
                return N if N in (a, b) or L in (a, b) or A in (a, b) else U
            if isinstance(e.op, ast.Mod):
                return C if a in (C, Z) and b in (C, Z) else N
            return U
        if isinstance(e, ast.Compare):
            vals = [cont_flat(self.ev(e.left, env))] + [cont_flat(self.ev(c, env)) for c in e.comparators]
            if isinstance(e.ops[0], (ast.Is, ast.IsNot, ast.In, ast.NotIn)):
                return C  # identity / membership tests do not look at array values
            return C if all(v in (C, Z, BOT) for v in vals) else (N if any(v in (L, A, N) for v in vals) else U)
        if isinstance(e, ast.BoolOp):
            vals = [cont_flat(self.ev(v, env)) for v in e.values]
            return C if all(v in (C, Z, BOT) for v in vals) else U
        if isinstance(e, ast.IfExp):
            t = cont_flat(self.ev(e.test, env))
            if t not in (C, Z, BOT):
                return N if t in (L, A, N) else U
            return join(self.ev(e.body, env), self.ev(e.orelse, env))
        if isinstance(e, ast.Lambda):
            return C
        if isinstance(e, ast.Call):
            return self.ev_call(e, env)
        if isinstance(e, ast.Starred):
            return self.ev(e.value, env)
        if isinstance(e, ast.JoinedStr):
            return C
        return U

    def ev_call(self, e: ast.Call, env) -> str:
        raw_args = [self.ev(a.value if isinstance(a, ast.Starred) else a, env) for a in e.args]
        fname = (self.fx.ext_name_of(self.fi, e.func) or "").split(".")[-1]
        if fname in BILINEAR_FUNCS and any(is_cont(v) for v in raw_args):
            nl, others = 0, []
            for v in raw_args:
                if is_cont(v):
                    nl += v[1]
                    others.append(v[2])
                elif v in (L, A):
                    nl += 1
                    if v == A:
                        return A
                else:
                    others.append(v)
            if N in others:
                return N
            if U in others:
                return U
            return C if nl == 0 else (L if nl == 1 else N)
        args = [cont_flat(v) for v in raw_args]
        kws = {k.arg: cont_flat(self.ev(k.value, env)) for k in e.keywords}
        args = [C if v == BOT else v for v in args]
        kws = {k: (C if v == BOT else v) for k, v in kws.items()}
        allv = args + list(kws.values())
        f = e.func
        ext = self.fx.ext_name_of(self.fi, f)
        name = ext.split(".")[-1] if ext and (ext.startswith("numpy") or ext.startswith("scipy")) else None
        if name is None and isinstance(f, ast.Name) and f.id in ("sum", "tuple", "list", "float", "reduce", "max", "min", "len", "range", "zip",
                                                                  "enumerate", "isinstance", "hasattr", "int", "slice", "set", "sorted", "reversed", "all", "any", "id", "next", "iter", "type", "dict"):
            if f.id in ("tuple", "list") and args:
                return cont(1 if args[0] in (L, A) else 0, args[0] if args[0] not in (L, A) else C)
            if f.id in ("sum", "tuple", "list", "float", "sorted", "reversed", "next", "iter"):
                return args[0] if args else C
            if f.id in ("zip", "enumerate"):
                r = None
                for a in args:
                    r = a if r is None else join(r, a)
                return r or C
            if f.id == "reduce":
                # reduce(lambda x, y: x * y, seq): product of the elements
                return args[1] if len(args) > 1 and args[1] in (C, Z) else (N if len(args) > 1 and args[1] in (L, A, N) else U)
            return C if all(v in (C, Z) for v in allv) else (C if f.id in ("len", "isinstance", "hasattr", "id", "type", "range", "slice") else U)
        if all(v in (C, Z) for v in allv):
            # grad-free call
            if name in ZERO_FUNCS:
                return Z
            if isinstance(f, ast.Attribute) and self.ev(f.value, env) not in (C, Z):
                pass
            else:
                return C
        if name is not None:
            if name in ZERO_FUNCS:
                return Z
            if name == "where" and len(args) == 3:
                if args[0] not in (C, Z):
                    return N
                return join(args[1], args[2]) if {args[1], args[2]} != {L, C} else A
            if name == "select" and len(e.args) >= 2:
                if args[0] not in (C, Z):
                    return N
                d = args[2] if len(args) > 2 else Z
                return join(args[1], d) if {args[1], d} != {L, C} else A
            if name == "piecewise":
                if args[0] not in (C, Z) or (len(args) > 1 and args[1] not in (C, Z)):
                    return N
                return args[2] if len(args) > 2 else U
            if name == "full" and len(args) >= 2:
                return args[1]
            if name in ("full_like",) and len(args) >= 2:
                return args[1]
            if name in BILINEAR_FUNCS:
                arr = [v for v in args if True]
                if name in ("divide", "true_divide"):
                    return arr[0] if len(arr) == 2 and arr[1] == C else (N if len(arr) == 2 and arr[1] in (L, A, N) else U)
                r = Z if Z in arr and name != "einsum" else None
                if r == Z:
                    return Z
                nl = sum(1 for v in arr if v in (L, A))
                if N in arr:
                    return N
                if U in arr:
                    return U
                if nl == 0:
                    return C
                if nl == 1:
                    return A if A in arr else L
                return N
            if name in LINEAR_FUNCS:
                first = args[0] if args else C
                rest = args[1:] + [v for k, v in kws.items() if k not in ("out",)]
                if any(v in (L, A, N) for v in rest):
                    return N
                if name in ("stack", "concatenate"):
                    return first
                return first
            if name in ("add", "subtract"):
                return add(args[0], args[1]) if len(args) == 2 else U
            if name in ("clip", "maximum", "minimum", "abs", "absolute", "sign", "sqrt", "exp", "log", "square", "power", "reciprocal", "sin", "cos",
                        "tanh", "cumprod", "prod", "max", "min", "amax", "amin", "std", "var", "linalg.norm", "norm", "sort", "log1p", "expm1", "isclose",
                        "isnan", "logical_not", "any", "all", "argmax", "argmin", "copysign", "fabs", "hypot", "arctan2", "floor", "ceil", "rint",
                        "trunc", "fmax", "fmin", "heaviside", "nan_to_num", "sinh", "cosh", "tan", "arcsin", "arccos", "arctan", "exp2", "log2",
                        "log10", "cbrt", "logaddexp", "logaddexp2", "float_power", "mod", "remainder", "fmod", "floor_divide", "isfinite", "isinf"):
                # a non-linear function of a grad-dependent value is non-linear in grad; of grad-free values it is grad-free
                if any(v in (L, A, N) for v in allv):
                    return N
                return C if allv and all(v in (C, Z) for v in allv) else U
            if allv and all(v in (C, Z) for v in allv):
                return C  # NumPy functions are pure: grad-free arguments give a grad-free value
            return U
        # method calls
        if isinstance(f, ast.Attribute):
            recv = self.ev(f.value, env)
            if f.attr in LINEAR_METHODS:
                if any(v in (L, A, N) for v in allv) and f.attr != "dot":
                    return N
                if f.attr == "dot":
                    return mul(recv, args[0]) if args else U
                return recv
            if f.attr in ("max", "min", "prod", "cumprod", "std", "var", "clip", "argmax", "argmin", "any", "all", "round"):
                return N if recv in (L, A, N) else (C if recv in (C, Z) else U)
            if f.attr in ("fill",):
                return C
            if f.attr in ("pop", "get", "items", "keys", "values", "index", "count", "join", "format", "insert", "append", "is_integer"):
                return recv if f.attr in ("pop", "get") else C
        # repo callee
        r = self.fx.resolve_call(self.fi, e)
        if isinstance(r, FunctionInfo) and self.depth < 3:
            return analyse_function(self.run, r, args, {k: v for k, v in kws.items() if k}, self.depth + 1, call=e, caller=self.fi)
        if isinstance(r, ClassInfo):
            return C
        return U


def analyse_function(run, fi: FunctionInfo, args: List[str], kwargs: Dict[str, str], depth: int, call=None, caller=None) -> str:
    st = LinState(run, fi, depth)
    env: Dict[str, str] = {}
    a = fi.node.args
    names = [x.arg for x in a.posonlyargs + a.args]
    if fi.cls is not None and names and names[0] in ("self", "cls") and not fi.has_decorator("staticmethod"):
        if call is not None and isinstance(call.func, ast.Attribute):
            names = names[1:]
    for n, v in zip(names, args):
        env[n] = v
    if a.vararg and len(args) > len(names):
        r = None
        for v in args[len(names):]:
            r = v if r is None else join(r, v)
        env[a.vararg.arg] = r or C
    for k, v in kwargs.items():
        env[k] = v
    st.block(fi.node.body, env)
    return st.ret if st.ret is not None else C


def r02_2(run):
    seen: Set[str] = set()
    n = 0
    for c in run.project.concrete_ops():
        bv = c.lookup_method("backward_var")
        if bv is None or bv.qualname in seen:
            continue
        seen.add(bv.qualname)
        a = bv.node.args.args
        if len(a) < 3:
            continue
        st = LinState(run, bv, 0)
        env = {a[1].arg: L, a[2].arg: C}
        bo = c.methods.get("backward") or (bv.cls.methods.get("backward") if bv.cls else None)
        if bo is not None and not bo.qualname.endswith("operation_base.Operation.backward"):
            pre = LinState(run, bo, 0)
            out0 = pre.block(bo.node.body, {bo.node.args.args[1].arg: L})
            for k2, v2 in (out0 or {}).items():
                if k2.startswith("self."):
                    env[k2] = v2
        st.block(bv.node.body, env)
        v = cont_flat(st.ret) if st.ret is not None else None
        if v == BOT:
            v = None
        n += 1
        if v is None:
            # never returns (GRUnit raises SkipGradient): nothing to judge
            run.ob("R02.2", loc(bv, bv.node), bv.short, "backward_var returns no value (gradient produced elsewhere)", True,
                   "raises on every path", nontrivial=False)
            continue
        ok = v in (Z, L, U)
        run.ob("R02.2", loc(bv, bv.node), bv.short, "result of backward_var is homogeneous-linear in grad", ok,
               {Z: "identically zero", L: "abstract value L: built from grad by linear maps and grad-free factors only",
                U: "abstract value unknown (a callee or construct outside the linearity table)"}.get(v, "") if ok else
               {C: "the result does not depend on the incoming gradient at all: seeding with anything but ones gives wrong gradients",
                A: "the result is affine (grad-dependent part plus a grad-free term): wrong for every seed except the one the tests use",
                N: "the result is non-linear in grad (grad multiplied/divided by itself or passed through a non-linear function)"}[v],
               note="linearity not established (unknown)" if v == U else None)
    run.count("backward_var bodies classified in the linearity domain", n)
    # MultiplySequence.backward precomputes self._product from grad
    for c in run.project.operation_classes():
        bo = c.methods.get("backward")
        if bo is None or c.qualname.endswith("operation_base.Operation"):
            continue
        a = bo.node.args.args
        st = LinState(run, bo, 0)
        env = {a[1].arg: L}
        out = st.block(bo.node.body, env)
        bad = {k: cont_flat(v) for k, v in (out or {}).items() if k.startswith("self.") and cont_flat(v) in (A, N)}
        # values handed to hand-written accumulation helpers
        run.ob("R02.2", loc(bo, bo.node), bo.short, "state precomputed from grad in a backward() override stays linear in grad", not bad,
               f"{sorted(k for k in (out or {}) if k.startswith('self.'))[:4]} are L / C / unknown" if not bad else f"{bad}")
