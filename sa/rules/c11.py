"""C11 -- every public entry point behaves identically: operator table, method<->function siblings, registry agreement,
refusal family, dispatch order."""
from __future__ import annotations

import ast
from typing import Dict, List, Optional

from ..cfg import ENTRY, EXIT, RAISE
from ..common import calls_named, dotted, kw, loc, norm
from ..model import AnalysisError, ClassInfo, External, FunctionInfo, own_nodes
from .util import anchor_func, assigned_name, build_cfg, facts
from . import opcontract

TB = "mygrad.tensor_base"
TENSOR = f"{TB}.Tensor"

OPERATORS = {  # dunder -> (numpy ufunc, form)
    "__add__": ("numpy.add", "fwd"), "__radd__": ("numpy.add", "rev"), "__iadd__": ("numpy.add", "inplace"),
    "__sub__": ("numpy.subtract", "fwd"), "__rsub__": ("numpy.subtract", "rev"), "__isub__": ("numpy.subtract", "inplace"),
    "__mul__": ("numpy.multiply", "fwd"), "__rmul__": ("numpy.multiply", "rev"), "__imul__": ("numpy.multiply", "inplace"),
    "__truediv__": ("numpy.divide", "fwd"), "__rtruediv__": ("numpy.divide", "rev"), "__itruediv__": ("numpy.divide", "inplace"),
    "__matmul__": ("numpy.matmul", "fwd"), "__rmatmul__": ("numpy.matmul", "rev"),
    "__pow__": ("numpy.power", "fwd"), "__rpow__": ("numpy.power", "rev"), "__ipow__": ("numpy.power", "inplace"),
    "__neg__": ("numpy.negative", "unary"), "__pos__": ("numpy.positive", "unary"),
}
POW_SHORTCUTS = {"1": "numpy.positive", "2": "numpy.square"}
UFUNC_ALIASES = {"numpy.true_divide": "numpy.divide", "numpy.abs": "numpy.absolute"}
FUNC_ALIASES = {"numpy.amax": "numpy.max", "numpy.amin": "numpy.min"}
REFUSAL = {"numpy.floor_divide", "numpy.remainder", "numpy.mod", "numpy.fmod", "numpy.divmod", "numpy.rint", "numpy.floor",
           "numpy.ceil", "numpy.trunc",
           "numpy.sign"}  # piecewise-constant like the rounding family; the repo lists it with them ("users might mistake [it] for differentiable")


def _ufunc_of(run, cls: ClassInfo) -> Optional[str]:
    r = facts(run).class_attr_value(cls, "numpy_ufunc")
    if isinstance(r, External):
        return UFUNC_ALIASES.get(r.name, r.name)
    return None


def _exponent_known_at(cfg, node, other, extra=None) -> Optional[str]:
    """the constant k such that `<other> == k` is known to hold whenever `node` executes (text of the constant), else None"""
    for c_ in list(extra or []) + cfg.conds_true_at(node):
        if isinstance(c_, ast.Compare) and len(c_.ops) == 1 and isinstance(c_.ops[0], ast.Eq):
            if norm(c_.left) == other and isinstance(c_.comparators[0], ast.Constant):
                return norm(c_.comparators[0])
            if norm(c_.comparators[0]) == other and isinstance(c_.left, ast.Constant):
                return norm(c_.left)
    return None


def r11_1(run):
    T = run.project.cls(TENSOR)
    sites = [s for s in opcontract.op_sites(run) if s.fi.cls is not None and s.fi.cls.qualname == TENSOR]
    by_fn: Dict[str, List[opcontract.OpSite]] = {}
    for s in sites:
        by_fn.setdefault(s.fi.name, []).append(s)
    for name, (uf, form) in sorted(OPERATORS.items()):
        m = T.methods.get(name)
        if m is None:
            run.ob("R11.1", loc(T.module, T.node), TENSOR[7:], f"operator {name} defined", False, f"{name} missing: Python falls back / raises")
            continue
        ss = by_fn.get(name, [])
        if not ss:
            run.ob("R11.1", loc(m, m.node), m.short, f"{name} routes to an Operation", False, "no _op/_in_place_op call in the operator method")
            continue
        other = m.node.args.args[1].arg if len(m.node.args.args) > 1 else None
        cfg = build_cfg(run, m)
        for s in ss:
            if name in ("__pow__", "__ipow__") and s.op_cls is None and isinstance(s.op_expr, ast.Name):
                # the shortcut op is chosen into a local first (`unary_op = Positive` under `other == 1`, ...): judge every definition that
                # reaches the call -- a class must be the documented shortcut for the exponent its guard tests; None must be excluded by a guard
                from ..cfg import reaching_defs as _rd
                nn = cfg.stmt_node_containing(s.call)
                okv, why = True, []
                for d_ in _rd(cfg, s.op_expr.id, nn):
                    v_ = getattr(cfg.stmt[d_], "value", None) if d_ != ENTRY else None
                    if isinstance(v_, ast.Constant) and v_.value is None:
                        guarded = any(cfg.label[t] == "If" and norm(st) == f"{s.op_expr.id} is not None" and cfg.edge_dominates(t, "true", nn) for t, st in cfg.stmt.items())
                        okv = okv and guarded
                        why.append("None excluded by guard" if guarded else "None can reach the call")
                        continue
                    cls_ = facts(run).resolve_in(m, v_) if v_ is not None else None
                    k_ = _exponent_known_at(cfg, d_, other)
                    g_ = _ufunc_of(run, cls_) if isinstance(cls_, ClassInfo) else None
                    good = k_ is not None and g_ is not None and POW_SHORTCUTS.get(k_) == g_
                    okv = okv and good
                    why.append(f"{norm(v_) if v_ is not None else '?'} under {other} == {k_}")
                okv = okv and [norm(a) for a in s.tensors] == ["self"] and ((s.kind == "_in_place_op") == (form == "inplace"))
                run.ob("R11.1", loc(m, s.call), m.short, f"{name}: shortcut operation chosen through `{s.op_expr.id}`", okv,
                       "; ".join(why) if okv else f"the locally chosen shortcut op is not the documented one for its exponent ({'; '.join(why)})")
                continue
            got = _ufunc_of(run, s.op_cls) if s.op_cls else None
            want = uf
            # the documented power shortcuts
            if name in ("__pow__", "__ipow__") and got != uf:
                nn = cfg.stmt_node_containing(s.call)
                short = POW_SHORTCUTS.get(_exponent_known_at(cfg, nn, other, s.conds) or "")
                want = short or uf
            kind_ok = (s.kind == "_in_place_op") == (form == "inplace")
            ops = [norm(a) for a in s.tensors]
            if form in ("fwd", "inplace"):
                arg_ok = ops == (["self", other] if want in (uf,) or len(ops) == 2 else ["self"])
                if want != uf:
                    arg_ok = ops == ["self"]
            elif form == "rev":
                arg_ok = ops == [other, "self"]
            else:
                arg_ok = ops == ["self"]
            ok = got == want and kind_ok and arg_ok
            run.ob("R11.1", loc(m, s.call), m.short, f"{name}: {s.kind}({s.op_cls.name if s.op_cls else '?'}, {', '.join(ops)})", ok,
                   f"kernel {got} with operands in {'reflected' if form == 'rev' else 'written'} order" if ok else
                   f"expected {want} via {'_in_place_op' if form == 'inplace' else '_op'} with "
                   f"{'(other, self)' if form == 'rev' else '(self, other)' if form != 'unary' else '(self)'}; got {got}, {s.kind}, {ops}")
        if form == "inplace":
            rets = [r for r in own_nodes(m.node) if isinstance(r, ast.Return)]
            w = cfg.all_paths_hit(ENTRY, {cfg.node_for(r) for r in rets if r.value is not None and norm(r.value) == "self"}, exits=(EXIT,))
            ok = bool(rets) and all(r.value is not None and norm(r.value) == "self" for r in rets) and w is None
            run.ob("R11.1", loc(m, m.node), m.short, f"{name} returns self on every path (object identity kept)", ok,
                   "return self" if ok else "augmented assignment rebinds the name to a different object")
        if name in ("__pow__", "__ipow__"):
            short = [s for s in ss if s.op_cls and _ufunc_of(run, s.op_cls) != uf]
            for s in short:
                nn = cfg.stmt_node_containing(s.call)
                # every condition known to hold at the call (conjuncts of the dominating tests, whichever way they are nested or joined)
                guards = [c_ for c_ in list(s.conds or []) + cfg.conds_true_at(nn) if "isinstance(" in norm(c_)]
                okg = False
                SCALARS = {"Number", "Real", "Integral", "int", "float", "numbers.Number", "np.number"}
                for tst in guards:
                    disj = tst.values if isinstance(tst, ast.BoolOp) and isinstance(tst.op, ast.Or) else [tst]
                    good = True
                    for dj in disj:
                        conj = dj.values if isinstance(dj, ast.BoolOp) and isinstance(dj.op, ast.And) else [dj]
                        kinds = set()
                        zero_d = False
                        for cj in conj:
                            if isinstance(cj, ast.Call) and dotted(cj.func) == "isinstance" and len(cj.args) == 2 and norm(cj.args[0]) == other:
                                cl = cj.args[1]
                                kinds |= {norm(e) for e in (cl.elts if isinstance(cl, ast.Tuple) else [cl])}
                            if norm(cj).replace(" ", "") == f"{other}.ndim==0":
                                zero_d = True
                        # every way of entering the shortcut must prove: a Python/NumPy scalar, or a 0-d ndarray
                        if kinds and kinds <= SCALARS:
                            continue
                        if kinds and kinds <= (SCALARS | {"np.ndarray"}) and zero_d:
                            continue
                        good = False
                    if good:
                        okg = True
                run.ob("R11.1", loc(m, s.call), m.short, f"{name}: the exponent is dropped from the op's inputs only when it is provably not a Tensor", okg,
                       "every disjunct of the guard proves a scalar or a 0-d ndarray" if okg else
                       "the x**1 / x**2 shortcut can be entered with a Tensor exponent (it silently leaves the graph) or with an exponent that is "
                       "not 0-d (the result loses the broadcast shape)")
        # the general kernel is reachable (a shortcut must not shadow it)
        if name in ("__pow__", "__ipow__"):
            gen = [s for s in ss if s.op_cls and _ufunc_of(run, s.op_cls) == uf]
            run.ob("R11.1", loc(m, m.node), m.short, f"{name}: general np.power kernel present", bool(gen), "Power site found" if gen else "no general power path")
    # __setitem__ / __getitem__
    for nm, opn in (("__setitem__", "SetItem"), ("__getitem__", "GetItem")):
        ss = by_fn.get(nm, [])
        ok = len(ss) == 1 and ss[0].op_cls is not None and ss[0].op_cls.name == opn and \
            ss[0].kind == ("_in_place_op" if nm == "__setitem__" else "_op")
        run.ob("R11.1", loc(ss[0].fi, ss[0].call) if ss else loc(T.module, T.node), f"{TENSOR[7:]}.{nm}", f"{nm} routes to {opn}", ok,
               f"{ss[0].kind}({opn}, ...)" if ok else "indexing does not route through the differentiable op")
    # floor-division dunders defer to numpy.floor_divide (refusal family)
    for nm in ("__floordiv__", "__rfloordiv__"):
        m = T.methods.get(nm)
        if m is None:
            continue
        calls = [c for c in own_nodes(m.node) if isinstance(c, ast.Call) and facts(run).ext_name_of(m, c.func) == "numpy.floor_divide"]
        run.ob("R11.1", loc(m, m.node), m.short, f"{nm} defers to np.floor_divide applied to the tensor (refusal family)", bool(calls),
               "dispatches through __array_ufunc__" if calls else "floor division bypasses the const-only check")


def _site_of(sites, fi: FunctionInfo):
    return [s for s in sites if s.fi.qualname == fi.qualname]


def r11_2(run):
    fx = facts(run)
    T = run.project.cls(TENSOR)
    mg = run.project.module("mygrad")
    sites = opcontract.op_sites(run)
    pairs = 0
    for name, m in sorted(T.methods.items()):
        if name.startswith("_"):
            continue
        f = run.project.module_symbol(mg, name)
        if not isinstance(f, FunctionInfo):
            continue
        ms, fs = _site_of(sites, m), _site_of(sites, f)
        if not ms:
            continue
        if not fs:
            continue
        pairs += 1
        a, b = ms[-1], fs[-1]
        problems = []
        if (a.op_cls and a.op_cls.qualname) != (b.op_cls and b.op_cls.qualname):
            problems.append(f"method uses {a.op_cls.name if a.op_cls else '?'}, function uses {b.op_cls.name if b.op_cls else '?'}")
        la = None if a.op_args is None else len(a.op_args)
        lb = None if b.op_args is None else len(b.op_args)
        if la != lb:
            problems.append(f"op_args arity {la} vs {lb}")
        ka, kb = set(a.op_kwargs or {}), set(b.op_kwargs or {})
        if ka != kb:
            problems.append(f"op_kwargs keys {sorted(ka)} vs {sorted(kb)}")
        mparams, fparams = set(m.params()), set(f.params())
        for side, s, params in (("method", a, mparams), ("function", b, fparams)):
            for k, v in (s.op_kwargs or {}).items():
                t = norm(v)
                if t != k and not (t in ("_NoValue",) or isinstance(v, ast.Constant)):
                    problems.append(f"{side}: op_kwargs[{k!r}] is fed from `{t}`")
        # constants fed must agree too
        for k in ka & kb:
            va, vb = a.op_kwargs[k], b.op_kwargs[k]
            if (norm(va) == k) != (norm(vb) == k) or (norm(va) != k and norm(va) != norm(vb)):
                problems.append(f"op_kwargs[{k!r}]: method passes `{norm(va)}`, function passes `{norm(vb)}`")
        if a.op_args and b.op_args:
            for i, (x, y) in enumerate(zip(a.op_args, b.op_args)):
                if not (isinstance(x, ast.Name) and isinstance(y, ast.Name)):
                    continue
                # both wrappers expose the option under the same name: it must land in the same position
                if x.id in mparams and y.id in fparams and x.id in fparams and y.id in mparams and x.id != y.id:
                    problems.append(f"op_args[{i}]: method passes `{x.id}`, function passes `{y.id}`")
        da, db = _lit_defaults(m.node), _lit_defaults(f.node)
        for k in set(da) & set(db):
            if k in ("constant",):
                continue
            if da[k] != db[k]:
                problems.append(f"default of `{k}`: method {da[k]}, function {db[k]}")
        run.ob("R11.2", loc(m, a.call), m.short, f"Tensor.{name} ~ mygrad.{name}: {a.op_cls.name if a.op_cls else '?'} "
               f"args={la} kwargs={sorted(ka)}", not problems,
               f"same Operation, same op_args arity, same keyword set, each fed from the like-named parameter, equal defaults; "
               f"function at {loc(f, b.call)}" if not problems else "; ".join(problems))
    run.count("method/function sibling pairs", pairs)
    # clip is bound at import: setattr(Tensor, "clip", clip)
    init = run.project.module("mygrad")
    bound = [n for n in ast.walk(init.tree) if isinstance(n, ast.Call) and dotted(n.func) == "setattr" and len(n.args) == 3
             and norm(n.args[0]) == "Tensor" and isinstance(n.args[1], ast.Constant)]
    for bnd in bound:
        ok = norm(bnd.args[2]) == bnd.args[1].value and isinstance(run.project.module_symbol(init, norm(bnd.args[2])), FunctionInfo)
        run.ob("R11.2", loc(init, bnd), "mygrad", f"Tensor.{bnd.args[1].value} is the mygrad function of the same name", ok,
               "setattr(Tensor, name, <same-named function>)" if ok else "method bound to a different function")


def _lit_defaults(fn: ast.FunctionDef):
    a = fn.args
    pos = a.posonlyargs + a.args
    out = {}
    for p, d in zip(pos[len(pos) - len(a.defaults):], a.defaults):
        out[p.arg] = norm(d)
    for p, d in zip(a.kwonlyargs, a.kw_defaults):
        if d is not None:
            out[p.arg] = norm(d)
    return out


def _decorator(fi: FunctionInfo, name: str) -> Optional[ast.AST]:
    for d in fi.node.decorator_list:
        t = d.func if isinstance(d, ast.Call) else d
        if (dotted(t) or "").split(".")[-1] == name:
            return d
    return None


def r11_3(run):
    fx = facts(run)
    opbase = run.project.cls("mygrad.operation_base.Operation")
    seq = run.project.cls("mygrad.operation_base.Sequential")
    sites = opcontract.op_sites(run)
    n_u = n_f = 0
    registered_ufuncs = set()
    for fi in run.project.all_functions():
        if fi.cls is not None or fi.parent is not None:
            continue
        d = _decorator(fi, "ufunc_creator")
        if d is not None and isinstance(d, ast.Call) and d.args:
            n_u += 1
            r = fx.resolve_in(fi, d.args[0]) if False else run.project.resolve(fi.module, d.args[0])
            got = _ufunc_of(run, r) if isinstance(r, ClassInfo) else None
            want = UFUNC_ALIASES.get(f"numpy.{fi.name}", f"numpy.{fi.name}")
            registered_ufuncs.add(f"numpy.{fi.name}")
            registered_ufuncs.add(want)
            ok = got == want
            run.ob("R11.3", loc(fi, fi.node), fi.short, f"@ufunc_creator({norm(d.args[0])}) def {fi.name}", ok,
                   f"{norm(d.args[0])}.numpy_ufunc is {got} == the overridden np.{fi.name}" if ok else
                   f"np.{fi.name}(tensor) is routed to an op whose kernel is {got}")
            # the declared signature of the stub matches the metaclass call: where only if supported
            sw = fx.class_attr_value(r, "_supports_where") if isinstance(r, ClassInfo) else None
            a = r.lookup_attr("_supports_where") if isinstance(r, ClassInfo) else None
            supports = not (a is not None and isinstance(a[1], ast.Constant) and a[1].value is False)
            has_where = "where" in fi.params()
            run.ob("R11.3", loc(fi, fi.node), fi.short, f"stub {fi.name} exposes where= iff the op supports it", has_where == supports,
                   f"_supports_where={supports}" if has_where == supports else "signature advertises a where= the op cannot honour (or hides one)")
        d = _decorator(fi, "implements_numpy_override")
        if d is not None:
            n_f += 1
            target = f"numpy.{fi.name}"
            if isinstance(d, ast.Call) and d.args:
                r = run.project.resolve(fi.module, d.args[0])
                target = r.name if isinstance(r, External) else None
                ok = target is not None
                run.ob("R11.3", loc(fi, fi.node), fi.short, f"@implements_numpy_override({norm(d.args[0])})", ok,
                       f"overrides {target}" if ok else "explicit override target does not resolve to a NumPy function")
            ss = _site_of(sites, fi)
            for s in ss:
                if s.op_cls is not None and s.op_cls.is_subclass_of(seq):
                    r = fx.class_attr_value(s.op_cls, "numpy_func")
                    got = FUNC_ALIASES.get(r.name, r.name) if isinstance(r, External) else None
                    ok = got == FUNC_ALIASES.get(target, target)
                    run.ob("R11.3", loc(fi, s.call), fi.short, f"np.{fi.name} override -> {s.op_cls.name}.numpy_func", ok,
                           f"kernel {got} is the overridden function" if ok else f"np.{fi.name}(tensor) computes {got}")
                elif s.op_cls is not None and target is not None:
                    # ops that call their kernel directly: the overridden NumPy function is among the NumPy functions the forward pass calls
                    m2 = s.op_cls.lookup_method("__call__")
                    called = set()
                    for c2 in own_nodes(m2.node):
                        if isinstance(c2, ast.Call):
                            e2 = fx.ext_name_of(m2, c2.func)
                            if e2 and e2.startswith("numpy."):
                                called.add(FUNC_ALIASES.get(e2, e2))
                    ok = FUNC_ALIASES.get(target, target) in called
                    run.ob("R11.3", loc(fi, s.call), fi.short, f"{target} override -> {s.op_cls.name} calls that NumPy function", ok,
                           f"forward pass calls {sorted(called)}" if ok else f"the op registered for {target} computes with {sorted(called)} instead")
    run.count("ufunc registrations", n_u)
    run.count("numpy function overrides", n_f)
    # registration statement itself: keyed by getattr(np, <decorated name>)
    uc = run.project.cls("mygrad.ufuncs._ufunc_creators.ufunc_creator")
    call = uc.methods.get("__call__")
    regs = [n for n in own_nodes(call.node) if isinstance(n, ast.Assign) and isinstance(n.targets[0], ast.Subscript)
            and norm(n.targets[0].value) == "_REGISTERED_UFUNC"]
    ok = len(regs) == 1 and "getattr(np, " in norm(regs[0].targets[0].slice) and "__name__" in norm(regs[0].targets[0].slice)
    run.ob("R11.3", loc(call, regs[0] if regs else call.node), call.short, "ufuncs are registered under np.<name of the decorated stub>", ok,
           norm(regs[0])[:80] if regs else "registration not found")
    ino = run.project.cls(f"{TB}.implements_numpy_override").methods.get("__call__")
    regs = [n for n in own_nodes(ino.node) if isinstance(n, ast.Assign) and isinstance(n.targets[0], ast.Subscript)
            and norm(n.targets[0].value) == "_REGISTERED_DIFFERENTIABLE_NUMPY_FUNCS"]
    ok = len(regs) == 1 and norm(regs[0].targets[0].slice) == "self.numpy_func" and norm(regs[0].value) == ino.node.args.args[1].arg
    run.ob("R11.3", loc(ino, regs[0] if regs else ino.node), ino.short, "overrides are registered as numpy_func -> the decorated function", ok,
           norm(regs[0])[:80] if regs else "registration not found")
    return registered_ufuncs


def _set_members(run, mod, name) -> Optional[List[str]]:
    b = mod.symbols.get(name)
    if b is None or not isinstance(b.value, ast.Set):
        return None
    out = []
    for e in b.value.elts:
        r = run.project.resolve(mod, e)
        out.append(r.name if isinstance(r, External) else "?" + norm(e))
    return out


def r11_4(run, registered_ufuncs):
    mod = run.project.module(TB)
    const_only = _set_members(run, mod, "_REGISTERED_CONST_ONLY_UFUNC")
    bool_only = _set_members(run, mod, "_REGISTERED_BOOL_ONLY_UFUNC")
    nodiff = _set_members(run, mod, "_REGISTERED_NO_DIFF_NUMPY_FUNCS")
    if const_only is None or bool_only is None or nodiff is None:
        raise AnalysisError("dispatch sets are not set literals any more")
    run.count("dispatch-set members", len(const_only) + len(bool_only) + len(nodiff))
    for u in sorted(REFUSAL):
        ok = u in const_only
        run.ob("R11.4", loc(mod, mod.symbols["_REGISTERED_CONST_ONLY_UFUNC"].node), TB[7:], f"{u} is const-only", ok,
               "member of _REGISTERED_CONST_ONLY_UFUNC" if ok else
               f"{u} applied to a non-constant tensor is not refused (it is silently dropped from the graph or unsupported)")
        ok2 = u not in bool_only and u not in registered_ufuncs
        run.ob("R11.4", loc(mod, mod.symbols["_REGISTERED_CONST_ONLY_UFUNC"].node), TB[7:], f"{u} is in no other dispatch table", ok2,
               "not bool-only, not a differentiable ufunc" if ok2 else f"{u} is also dispatched elsewhere: the earlier table wins")
    inter = set(const_only) & set(bool_only)
    run.ob("R11.4", loc(mod, mod.tree), TB[7:], "const-only and bool-only sets are disjoint", not inter, "disjoint" if not inter else f"overlap {sorted(inter)}")
    inter = (set(const_only) | set(bool_only)) & registered_ufuncs
    run.ob("R11.4", loc(mod, mod.tree), TB[7:], "non-differentiable sets are disjoint from the differentiable registry", not inter,
           "disjoint" if not inter else f"overlap {sorted(inter)}")
    # __array_ufunc__ uses the raising caster on the const-only branch
    au = anchor_func(run, f"{TENSOR}.__array_ufunc__")
    cfg = build_cfg(run, au)
    tests = {n: norm(s) for n, s in cfg.stmt.items() if cfg.label[n] == "If"}
    casters = [n for n in own_nodes(au.node) if isinstance(n, ast.Assign) and assigned_name(n) == "caster"]
    for c in casters:
        nc = cfg.node_for(c)
        if norm(c.value) == "_as_constant_array":
            ok = any("_REGISTERED_CONST_ONLY_UFUNC" in t and cfg.edge_dominates(n, "true", nc) for n, t in tests.items())
            run.ob("R11.4", loc(au, c), au.short, "const-only branch selects the raising caster", ok,
                   "caster = _as_constant_array on the true edge of `ufunc in _REGISTERED_CONST_ONLY_UFUNC`" if ok else "raising caster not tied to the const-only set")
        elif norm(c.value) == "asarray":
            ok = any("_REGISTERED_BOOL_ONLY_UFUNC" in t and cfg.edge_dominates(n, "true", nc) for n, t in tests.items()) and \
                not any("_REGISTERED_CONST_ONLY_UFUNC" in t and cfg.edge_dominates(n, "true", nc) for n, t in tests.items())
            run.ob("R11.4", loc(au, c), au.short, "the unwrapping caster is used only for the bool-only set", ok,
                   "caster = asarray only under `ufunc in _REGISTERED_BOOL_ONLY_UFUNC`" if ok else
                   "const-only ufuncs get the silent unwrapping caster: non-constant tensors are dropped from the graph")
        elif isinstance(c.value, ast.Constant) and c.value.value is None and any(
                cfg.label[n] == "If" and norm(s_) in ("caster is None", "caster is not None", "not caster", "caster") for n, s_ in cfg.stmt.items()):
            # "no caster": the branch for ufuncs in neither set; the None is tested before any call (a call through None would raise anyway)
            continue
        else:
            run.ob("R11.4", loc(au, c), au.short, f"caster = {norm(c.value)}", False, "unknown caster")
    # any other way of binding the caster (a nested def, a lambda, a conditional expression) is an unknown caster
    for n_ in own_nodes(au.node):
        if isinstance(n_, (ast.FunctionDef, ast.AsyncFunctionDef)) and n_.name == "caster":
            run.ob("R11.4", loc(au, n_), au.short, "caster = <locally defined function>", False,
                   "a hand-written caster replaces the raising one: non-constant tensors can be unwrapped silently and drop out of the graph")
    if not any(norm(c.value) == "_as_constant_array" for c in casters):
        run.ob("R11.4", loc(au, au.node), au.short, "const-only branch selects the raising caster", False, "no `caster = _as_constant_array`")
    ca = anchor_func(run, f"{TB}._as_constant_array")
    cfa = build_cfg(run, ca)
    p = ca.node.args.args[0].arg
    raises = [n for n, s in cfa.stmt.items() if isinstance(s, ast.Raise)]
    ok = False
    for n, s in cfa.stmt.items():
        if cfa.label[n] == "If" and norm(s) in (f"{p}.constant is False", f"not {p}.constant"):
            if any(cfa.edge_dominates(n, "true", r) for r in raises):
                ok = True
    run.ob("R11.4", loc(ca, ca.node), ca.short, "the raising caster raises for every non-constant tensor", ok,
           "raise on the true edge of `t.constant is False`" if ok else "non-constant tensors pass through the caster")
    # the caster is applied to every input and to out
    gens = [n for n in own_nodes(au.node) if isinstance(n, ast.GeneratorExp) and isinstance(n.elt, ast.Call) and dotted(n.elt.func) == "caster"]
    ok = bool(gens) and all(norm(g.generators[0].iter) == "inputs" and not g.generators[0].ifs for g in gens)
    run.ob("R11.4", loc(au, au.node), au.short, "caster applied to every element of inputs (no filter)", ok,
           "(caster(t) for t in inputs)" if ok else "some operands bypass the caster")
    # _ConstantOnly is turned into an error, never swallowed
    hs = [h for h in ast.walk(au.node) if isinstance(h, ast.ExceptHandler) and h.type is not None and "_ConstantOnly" in norm(h.type)]
    ok = bool(hs) and all(any(isinstance(x, ast.Raise) for x in h.body) for h in hs)
    run.ob("R11.4", loc(au, hs[0] if hs else au.node), au.short, "_ConstantOnly is converted into a raised error", ok,
           "handler re-raises ValueError" if ok else "refusal swallowed")


def r11_5(run):
    au = anchor_func(run, f"{TENSOR}.__array_ufunc__")
    cfg = build_cfg(run, au)
    look = [n for n in own_nodes(au.node) if isinstance(n, ast.Subscript) and norm(n.value) == "_REGISTERED_UFUNC"]
    if not look:
        raise AnalysisError(f"{au.short}: registry lookup not found")
    nl = cfg.stmt_node_containing(look[0])
    tests = [n for n, s in cfg.stmt.items() if cfg.label[n] == "If" and "_ONLY_UFUNC" in norm(s)]
    ok = all(nl in __import__("networkx").ancestors(cfg.g, t) for t in tests) and bool(tests)
    run.ob("R11.5", loc(au, look[0]), au.short, "differentiable registry consulted before the non-differentiable sets", ok,
           "registry lookup precedes both set tests" if ok else "a differentiable ufunc can be shadowed by a non-differentiable table")
    call = getattr(look[0], "_parent", None)
    while call is not None and not (isinstance(call, ast.Call) and any(isinstance(a, ast.Starred) for a in call.args)):
        call = getattr(call, "_parent", None)
    ok = call is not None and any(isinstance(a, ast.Starred) and norm(a.value) == "inputs" for a in call.args) \
        and any(k.arg is None and norm(k.value) == "kwargs" for k in call.keywords) and kw(call, "out") is not None and norm(kw(call, "out")) == "out" \
        and "getattr(_REGISTERED_UFUNC[ufunc], method)" in norm(call.func)
    run.ob("R11.5", loc(au, look[0]), au.short, "dispatch forwards method, *inputs, **kwargs and out", ok,
           "getattr(_REGISTERED_UFUNC[ufunc], method)(*inputs, **kwargs, out=out)" if ok else "an argument of the NumPy call is dropped on dispatch")
    ufunc_method_dispatch(run, "R11.5", au)
    af = anchor_func(run, f"{TENSOR}.__array_function__")
    _r11_5_af(run, af)


def ufunc_method_dispatch(run, rule, au=None):
    au = au or anchor_func(run, f"{TENSOR}.__array_ufunc__")
    uparam = au.node.args.args[1].arg
    mparam = au.node.args.args[2].arg
    raw = [c for c in own_nodes(au.node) if isinstance(c, ast.Call) and isinstance(c.func, ast.Name) and c.func.id == uparam]
    viaget = [c for c in own_nodes(au.node) if isinstance(c, ast.Call) and isinstance(c.func, ast.Call) and dotted(c.func.func) == "getattr"
              and len(c.func.args) == 2 and norm(c.func.args[0]) == uparam and norm(c.func.args[1]) == mparam]
    run.ob(rule, loc(au, raw[0] if raw else au.node), au.short, "non-differentiable ufuncs are invoked as getattr(ufunc, method) (reduce/outer/accumulate honoured)",
           not raw and bool(viaget), f"{len(viaget)} call(s) through getattr({uparam}, {mparam})" if not raw and viaget else
           f"`{uparam}(...)` is called directly: np.<ufunc>.outer/reduce/accumulate on tensors silently compute the plain element-wise call")
    # keyword options handed to the NumPy ufunc must be plain arrays too: a Tensor-valued `where=` (mygrad.typing.Mask admits one) is an operand
    # for NumPy's dispatch and comes straight back to __array_ufunc__ -- unbounded recursion.  The sibling dispatcher __array_function__ unwraps
    # its keyword arguments; this one must as well
    kwparam = au.node.args.kwarg.arg if au.node.args.kwarg else None
    for c in viaget:
        splats = [k for k in c.keywords if k.arg is None]
        raw_kw = [k for k in splats if kwparam is not None and norm(k.value) == kwparam]
        okk = True
        why = "no keyword options forwarded"
        if raw_kw:
            # raw **kwargs is fine only if every Tensor value was replaced beforehand (kwargs = {k: v.data if isinstance(v, Tensor) else v ...})
            cf_ = build_cfg(run, au)
            from ..cfg import reaching_defs as _rd
            at_ = cf_.stmt_node_containing(c)
            defs_ = _rd(cf_, kwparam, at_) if at_ is not None else [ENTRY]
            okk = ENTRY not in defs_ and all("isinstance(" in norm(getattr(cf_.stmt[d_], "value", ast.Constant(0))) and ".data" in norm(getattr(cf_.stmt[d_], "value", ast.Constant(0))) for d_ in defs_)
            why = "kwargs re-built with tensors unwrapped before the call" if okk else f"**{kwparam} reaches NumPy as the caller gave it"
        elif splats:
            okk = all("isinstance(" in norm(k.value) and ".data" in norm(k.value) for k in splats)
            why = "every keyword value is unwrapped (v.data if isinstance(v, Tensor) else v)" if okk else f"`**{norm(splats[0].value)[:40]}` is not an unwrapping of the options"
        run.ob(rule, loc(au, c), au.short, "forwarded ufuncs receive their keyword options unwrapped", okk,
               why if okk else why + ": a where= mask given as a Tensor is dispatched back to __array_ufunc__ (RecursionError); __array_function__ unwraps its kwargs")


def _r11_5_af(run, af):
    cf = build_cfg(run, af)
    rets = [r for r in own_nodes(af.node) if isinstance(r, ast.Return) and isinstance(r.value, ast.Call)]
    diff = [r for r in rets if "_REGISTERED_DIFFERENTIABLE_NUMPY_FUNCS[func]" in norm(r.value.func)]
    ok = len(diff) == 1 and any(isinstance(a, ast.Starred) and norm(a.value) == "args" for a in diff[0].value.args) \
        and any(k.arg is None and norm(k.value) == "kwargs" for k in diff[0].value.keywords)
    run.ob("R11.5", loc(af, diff[0] if diff else af.node), af.short, "differentiable overrides are called with (*args, **kwargs) unchanged", ok,
           "all arguments forwarded" if ok else "arguments dropped on __array_function__ dispatch")
    nd = [r for r in rets if norm(r.value.func) == "func"]
    # every positional and keyword argument is unwrapped (X.data if isinstance(X, Tensor) else X), inline or through locals built by loops;
    # the raw *args / **kwargs never reach the NumPy implementation
    unwraps = [x for x in own_nodes(af.node) if isinstance(x, ast.IfExp) and norm(x.test).startswith("isinstance(") and "Tensor" in norm(x.test)
               and norm(x.body) == norm(x.test.args[0]) + ".data" and norm(x.orelse) == norm(x.test.args[0])] if True else []
    iters = set()
    for u in unwraps:
        p_ = u
        while p_ is not None and not isinstance(p_, (ast.GeneratorExp, ast.ListComp, ast.DictComp, ast.For, ast.FunctionDef)):
            p_ = getattr(p_, "_parent", None)
        if isinstance(p_, ast.For):
            iters.add(norm(p_.iter))
        elif isinstance(p_, (ast.GeneratorExp, ast.ListComp, ast.DictComp)):
            iters.add(norm(p_.generators[0].iter))
    raw = len(nd) == 1 and (any(isinstance(a, ast.Starred) and norm(a.value) == "args" for a in nd[0].value.args)
                            or any(k.arg is None and norm(k.value) == "kwargs" for k in nd[0].value.keywords))
    ok = len(nd) == 1 and {"args", "kwargs.items()"} <= iters and not raw
    run.ob("R11.5", loc(af, nd[0] if nd else af.node), af.short, "non-differentiable functions get plain arrays for args and kwargs", ok,
           "tensors unwrapped to .data in both args and kwargs; result is NumPy's" if ok else "tensors leak into the NumPy implementation")
    tests = {n: norm(s) for n, s in cf.stmt.items() if cf.label[n] == "If"}
    if diff and nd:
        nd_n, df_n = cf.node_for(nd[0]), cf.node_for(diff[0])
        first = [n for n, t in tests.items() if "_REGISTERED_DIFFERENTIABLE_NUMPY_FUNCS" in t]
        ok = bool(first) and cf.edge_dominates(first[0], "true", df_n) and cf.edge_dominates(first[0], "false", nd_n)
        run.ob("R11.5", loc(af, af.node), af.short, "differentiable table takes precedence over the no-diff table", ok,
               "no-diff branch only on the false edge of the differentiable test" if ok else "precedence not established")


def r11_6(run):
    """each ufunc metaclass __call__ has two routes (out is a Tensor -> _in_place_op, otherwise _op): same op, operands, keywords"""
    sites = opcontract.op_sites(run)
    by = {}
    for s in sites:
        if s.fi.module.name == "mygrad.ufuncs._ufunc_creators" and s.fi.name == "__call__":
            by.setdefault(s.fi.qualname, []).append(s)
    for q, ss in sorted(by.items()):
        ip = [s for s in ss if s.kind == "_in_place_op"]
        op = [s for s in ss if s.kind == "_op"]
        if len(ip) != 1 or len(op) != 1:
            run.ob("R11.6", loc(ss[0].fi, ss[0].call), ss[0].fi.short, "one in-place route and one out-of-place route", False, f"{len(ip)} / {len(op)} routes")
            continue
        a, b = ip[0], op[0]
        problems = []
        if norm(a.op_expr) != norm(b.op_expr):
            problems.append("different op")
        if [norm(x) for x in a.tensors] != [norm(x) for x in b.tensors]:
            problems.append(f"operands {[norm(x) for x in a.tensors]} vs {[norm(x) for x in b.tensors]}")
        ka = {k: norm(v) for k, v in (a.op_kwargs or {}).items()}
        kb = {k: norm(v) for k, v in (b.op_kwargs or {}).items()}
        if ka != kb or a.kwargs_open != b.kwargs_open:
            problems.append(f"op_kwargs {ka} vs {kb}")
        if norm(a.constant or ast.Constant(None)) != norm(b.constant or ast.Constant(None)):
            problems.append("constant= differs")
        if norm(a.call.func.value) != norm(b.out or ast.Constant(None)) and norm(b.out or ast.Constant(None)) != "out":
            problems.append("out target differs")
        run.ob("R11.6", loc(a.fi, a.call), a.fi.short, "the out=<Tensor> route and the general route pass identical operands, keywords and constant", not problems,
               f"op_kwargs {sorted(ka)}" if not problems else "; ".join(problems) + ": the same ufunc call behaves differently depending on the kind of out= target")


def r11_7(run):
    """Tensor methods / properties that route to Tensor._op are stateless: each evaluation records a fresh operation and returns its result.  A
    method that remembers an earlier result on `self` (a cache, a weak reference) and hands it out again behaves differently from its sibling
    spellings (x.T vs x.transpose() vs np.transpose(x)): the remembered view may belong to a graph that backward() already cleared, so new
    computations through it no longer reach x."""
    T = run.project.cls("mygrad.tensor_base.Tensor")
    engine = {"_op", "_in_place_op", "_replay_op"}
    n = 0
    # entry points: public methods, properties and operator dunders -- the private helpers of the in-place machinery (parts of
    # _in_place_op moved into methods of their own) pass placeholders along and are judged with their caller
    helpers = run.project.classes["mygrad.tensor_base.Tensor"].methods
    callers_ip = {c.func.attr for q_ in ("_in_place_op", "shape.setter") if q_ in helpers for c in own_nodes(helpers[q_].node)
                  if isinstance(c, ast.Call) and isinstance(c.func, ast.Attribute) and norm(c.func.value) in ("self", "type(self)", "Tensor")}
    for name, m in sorted(T.methods.items()):
        if name in engine:
            continue
        if name.startswith("_") and not (name.startswith("__") and name.endswith("__")) and (name in callers_ip or m.qualname in getattr(run.project, "absorbed", set())):
            continue
        calls = [c for c in own_nodes(m.node) if isinstance(c, ast.Call) and isinstance(c.func, ast.Attribute) and c.func.attr == "_op"]
        if not calls:
            continue
        n += 1
        stores = [st for st in own_nodes(m.node) if isinstance(st, (ast.Assign, ast.AugAssign, ast.AnnAssign)) and any(
            isinstance(t, ast.Attribute) and norm(t.value) == "self" for t in (st.targets if isinstance(st, ast.Assign) else [st.target]))]
        rets = [r for r in own_nodes(m.node) if isinstance(r, ast.Return) and r.value is not None]
        odd = [r for r in rets if not (isinstance(r.value, ast.Call) and isinstance(r.value.func, ast.Attribute) and r.value.func.attr == "_op")
               and norm(r.value) not in ("self", "NotImplemented")]
        ok = not stores and not odd
        bad = stores[0] if stores else (odd[0] if odd else None)
        run.ob("R11.7", loc(m, bad if bad is not None else m.node), m.short, f"Tensor.{name} evaluates its operation afresh on every call", ok,
               "no state kept on self; every return is the _op(...) result" if ok else
               (f"`{norm(stores[0])[:50]}` keeps state on the tensor" if stores else f"`return {norm(odd[0].value)[:40]}` is not the result of this call's operation") +
               ": an earlier result can be handed out again (possibly a view whose graph was already cleared), unlike the function / NumPy spellings")
    run.count("Tensor methods routing to _op", n)


def check(run):
    run.rule("R11.1", "operator dunders route to the Operation whose numpy_ufunc is the language-defined kernel, with the right operand order, "
             "in-place forms via _in_place_op returning self", floor=22)
    run.rule("R11.2", "Tensor methods and same-named mygrad functions hand the same Operation the same op_args arity and keyword set, fed from "
             "like-named parameters, with equal defaults", floor=15)
    run.rule("R11.3", "registry agreement: @ufunc_creator(Op) def name => Op.numpy_ufunc is np.name; numpy overrides of Sequential ops => "
             "numpy_func is np.name", floor=60)
    run.rule("R11.4", "the rounding/modulo family is const-only, in no other table, and dispatched through the raising caster", floor=25)
    run.rule("R11.6", "ufunc metaclasses: out=<Tensor> route == general route (same op, operands, keywords, constant)", floor=3)
    run.rule("R11.5", "__array_ufunc__/__array_function__ consult the differentiable registry first and forward every argument", floor=5)
    run.do(r11_1)
    run.do(r11_2)
    reg = r11_3(run)
    run.do(r11_4, reg)
    run.do(r11_5)
    run.do(r11_6)
    run.rule("R11.7", "Tensor methods/properties that route to _op keep no state on self and return this call's result", floor=25)
    run.do(r11_7)
