"""C13 -- a failed operation leaves no trace: path rules on Tensor._op, Tensor._in_place_op and the
shape setter (CFG with exceptional edges)."""
from __future__ import annotations

import ast
from typing import Dict, List, Set

from ..cfg import ENTRY, EXIT, RAISE, calls_in
from ..common import calls_named, dotted, kw, loc, norm, stmt_of
from ..model import AnalysisError, own_nodes
from .util import (validating_numpy_call, anchor_func, assigned_name, build_cfg, callee_desc, facts, name_aliases, op_instance_call,
                   raising_calls, switch_assumptions)
from .c08 import acquisition, _release_nodes

OP = "mygrad.tensor_base.Tensor._op"
INPLACE = "mygrad.tensor_base.Tensor._in_place_op"
SHAPE_SET = "mygrad.tensor_base.Tensor.shape.setter"

TENSOR_STATE = {"_grad", "_view_grad", "_base", "_creator", "_constant", "data", "_ops", "_view_children"}


def input_derived_names(fn_node: ast.AST, seeds: Set[str]) -> Set[str]:
    """Names bound (by for-loops / comprehensions / plain copies) to elements of the input collections."""
    names = set(seeds)
    changed = True
    while changed:
        changed = False
        for n in own_nodes(fn_node):
            tgt = it = None
            if isinstance(n, (ast.For, ast.comprehension)):
                tgt, it = n.target, n.iter
            elif isinstance(n, ast.Assign) and len(n.targets) == 1:
                tgt, it = n.targets[0], n.value
                if not isinstance(it, (ast.Name, ast.Tuple)):
                    continue
            if tgt is None:
                continue
            if {x.id for x in ast.walk(it) if isinstance(x, ast.Name)} & names:
                for x in ast.walk(tgt):
                    if isinstance(x, ast.Name) and x.id not in names:
                        names.add(x.id)
                        changed = True
    return names


def effect_nodes(cfg, fi, derived: Set[str]) -> Dict[int, str]:
    """CFG nodes that write state of an input tensor; value = description (attr)."""
    out: Dict[int, str] = {}
    for n in own_nodes(fi.node):
        tgts = []
        if isinstance(n, ast.Assign):
            tgts = n.targets
        elif isinstance(n, ast.AugAssign):
            tgts = [n.target]
        for t in tgts:
            if isinstance(t, ast.Attribute) and isinstance(t.value, ast.Name) and t.value.id in derived \
                    and t.attr in TENSOR_STATE:
                cn = cfg.node_for(n)
                if cn is not None and cfg.reachable(cn):
                    out[cn] = f"store <input>.{t.attr}"
        if isinstance(n, ast.Expr) and isinstance(n.value, ast.Call) and isinstance(n.value.func, ast.Attribute):
            f = n.value.func
            if f.attr in ("null_grad", "clear_graph", "backward", "_in_place_op") and isinstance(f.value, ast.Name) and f.value.id in derived:
                cn = cfg.node_for(n)
                if cn is not None and cfg.reachable(cn):
                    out[cn] = f"<input>.{f.attr}()"
            if f.attr in ("add", "append", "clear", "update", "discard", "remove") and isinstance(f.value, ast.Attribute) \
                    and f.value.attr in ("_ops", "_view_children") and isinstance(f.value.value, ast.Name) \
                    and f.value.value.id in derived:
                cn = cfg.node_for(n)
                if cn is not None and cfg.reachable(cn):
                    out[cn] = f"<input>.{f.value.attr}.{f.attr}()"
    return out


def r13_1(run, label, sw):
    fi = anchor_func(run, OP)
    assume = switch_assumptions(fi, **sw)
    cfg = build_cfg(run, fi, assume, extra_raise=lambda c: op_instance_call(run, fi, c) or validating_numpy_call(c))
    derived = input_derived_names(fi.node, {"input_vars", "tensor_vars"})
    eff = effect_nodes(cfg, fi, derived)
    if len(eff) < 3:
        raise AnalysisError(f"{fi.short}: found only {len(eff)} writes of input-tensor state; expected the grad nulling, "
                            f"_ops.add and _view_children.append sites")
    raisers = [n for n in cfg.g.nodes if n not in (ENTRY, EXIT, RAISE)
               and any("exc" in cfg.g[n][s]["kinds"] for s in cfg.g.successors(n))
               and not isinstance(cfg.stmt[n], ast.Raise)]
    run.count("may_raise_nodes", len(raisers))
    run.count("input_state_writes", len(eff))
    bad = {}
    for e, what in eff.items():
        after = cfg.reachable_from(e)
        for r in raisers:
            if r in after:
                st = cfg.stmt[r]
                calls = raising_calls(run, fi, st)
                callee = ", ".join(sorted({callee_desc(run, fi, c) for c in calls})) or "forward call"
                bad.setdefault((what, callee), (e, r))
    for e, what in sorted(eff.items()):
        hits = [(w, c) for (w, c) in bad if w == what and bad[(w, c)][0] == e]
        if not hits:
            run.ob("R13.1", loc(fi, cfg.stmt[e]), fi.short, f"[{label}] {what} is after the last may-raise call", True,
                   "no may-raise node is reachable from this write")
    for (what, callee), (e, r) in sorted(bad.items()):
        import networkx as nx
        path = cfg.path_text(nx.shortest_path(cfg.g, e, r) + [RAISE])
        run.ob("R13.1", loc(fi, cfg.stmt[e]), fi.short, f"{what} precedes may-raise call to {callee}", False,
               f"[{label}] input-tensor state is written at line {cfg.stmt[e].lineno} and a later call ({callee}, line "
               f"{cfg.stmt[r].lineno}) may raise: the failed operation leaves a trace", path=path)


def r13_4(run):
    fi = anchor_func(run, OP)
    for label, sw in (("TRACK_GRAPH=T,MEM_GUARD=T", dict(track=True, memguard=True)),):
        assume = switch_assumptions(fi, **sw)
        cfg = build_cfg(run, fi, assume, extra_raise=lambda c: op_instance_call(run, fi, c) or validating_numpy_call(c))
        _, coll, _ = acquisition(run, fi)
        rel = _release_nodes(cfg, fi.node, name_aliases(fi.node, coll))
        fwd = [n for n in cfg.g.nodes if n not in (ENTRY, EXIT, RAISE) and not isinstance(cfg.stmt[n], ast.ExceptHandler)
               and any(op_instance_call(run, fi, c) for c in calls_in(cfg.stmt[n]))]
        if not fwd:
            raise AnalysisError(f"{fi.short}: forward kernel invocation f(*tensor_vars, ...) not found")
        for n in fwd:
            hs = [s for s in cfg.g.successors(n) if "exc" in cfg.g[n][s]["kinds"]]
            to_raise = [h for h in hs if h == RAISE]
            handlers = [h for h in hs if h != RAISE]
            ok = bool(handlers) and not to_raise
            run.ob("R13.4", loc(fi, cfg.stmt[n]), fi.short, f"[{label}] forward call is inside a catch-all try", ok,
                   "its exceptional edge leads only to an `except Exception` handler" if ok else
                   "an exception of the forward call can leave _op without passing the releasing handler")
            for h in handlers:
                swallow = EXIT in cfg.reachable_from(h)
                w = cfg.all_paths_hit(h, rel, exits=(RAISE,))
                # nothing that can fail may run in the handler before the release
                import networkx as nx
                before = set()
                for r_ in rel:
                    if r_ in cfg.reachable_from(h):
                        before |= (nx.descendants(cfg.g, h) & nx.ancestors(cfg.g, r_))
                risky = [n_ for n_ in sorted(before) if n_ not in rel and isinstance(cfg.stmt.get(n_), ast.stmt)
                         and any(isinstance(x, ast.Call) for x in ast.walk(cfg.stmt[n_]))]
                run.ob("R13.4", loc(fi, cfg.stmt[risky[0]]) if risky else loc(fi, cfg.stmt[h]), fi.short, f"[{label}] the handler calls nothing before releasing the locks",
                       not risky, "release is the first call of the handler" if not risky else
                       f"`{norm(cfg.stmt[risky[0]])[:50]}` runs before the release: if it raises, the handler is left and the input locks leak")
                run.ob("R13.4", loc(fi, cfg.stmt[h]), fi.short, f"[{label}] handler releases the locked collection and re-raises",
                       (not swallow) and w is None,
                       "handler cannot reach EXIT (never swallows) and every path to RAISE passes the release"
                       if (not swallow and w is None) else
                       ("handler can complete normally: the error is swallowed" if swallow else
                        "handler re-raises without releasing the input locks"),
                       path=cfg.path_text(w) if w else None)


def r13_2(run):
    fi = anchor_func(run, INPLACE)
    assume = switch_assumptions(fi, track=True)
    cfg = build_cfg(run, fi, assume, extra_raise=lambda c: isinstance(c.func, ast.Attribute) and c.func.attr == "_op")
    # kernel call: self._op(<op>, ..., out=<target>.data)
    kern = [c for c in calls_named(fi.node, "_op") if kw(c, "out") is not None]
    kern = [c for c in kern if cfg.stmt_node_containing(c) is not None and cfg.reachable(cfg.stmt_node_containing(c))]
    if len(kern) != 1:
        raise AnalysisError(f"{fi.short}: expected exactly one tracked in-place kernel call `_op(..., out=...)`, found {len(kern)}")
    k = kern[0]
    kn = cfg.stmt_node_containing(k)
    graphs = [n for n in own_nodes(fi.node) if isinstance(n, ast.Assign) and isinstance(n.value, ast.Call)
              and (dotted(n.value.func) or "").endswith("DuplicatingGraph")]
    if not graphs:
        raise AnalysisError(f"{fi.short}: DuplicatingGraph construction not found")
    gname = assigned_name(graphs[0])
    restore = {cfg.stmt_node_containing(c) for c in calls_named(fi.node, "restore_old_graph")
               if isinstance(c.func, ast.Attribute) and dotted(c.func.value) == gname}
    restore.discard(None)
    hs = [s for s in cfg.g.successors(kn) if "exc" in cfg.g[kn][s]["kinds"]]
    ok = bool(hs) and RAISE not in hs
    run.ob("R13.2", loc(fi, k), fi.short, "in-place kernel call is inside a catch-all try", ok,
           "exceptional edge of the kernel call leads only to a handler" if ok else
           "a failing in-place kernel escapes without restoring the placeholder graph")
    for h in hs:
        if h == RAISE:
            continue
        swallow = EXIT in cfg.reachable_from(h)
        w = cfg.all_paths_hit(h, restore, exits=(RAISE,)) if restore else [h, RAISE]
        good = (not swallow) and w is None
        run.ob("R13.2", loc(fi, cfg.stmt[h]), fi.short, "handler calls graph.restore_old_graph() and re-raises", good,
               "every path handler->RAISE passes restore_old_graph(); handler cannot fall through" if good else
               ("handler swallows the exception" if swallow else "handler re-raises without restore_old_graph()"),
               path=cfg.path_text(w) if w else None)
    # mirrors onto public tensors only after the kernel succeeded
    mirrors = calls_named(fi.node, "mirror_tensor")
    if not mirrors:
        raise AnalysisError(f"{fi.short}: no mirror_tensor call found")
    for m in mirrors:
        mn = cfg.stmt_node_containing(m)
        if mn is None or not cfg.reachable(mn):
            continue
        ok = cfg.dominates(kn, mn) and not any(mn in cfg.reachable_from(h) for h in hs if h != RAISE)
        run.ob("R13.2", loc(fi, m), fi.short, f"mirror_tensor(target={norm(kw(m, 'target')) if kw(m, 'target') is not None else '?'}) after successful kernel",
               ok, "dominated by the kernel call node and unreachable from its handler" if ok else
               "a public tensor can be overwritten although the in-place kernel failed / has not run")
    # the graph duplication (which reroutes ops) happens before the kernel, so restore is meaningful
    gn = cfg.node_for(graphs[0])
    ok = gn is not None and cfg.dominates(gn, kn)
    run.ob("R13.2", loc(fi, graphs[0]), fi.short, "DuplicatingGraph construction dominates the kernel call", ok,
           "dominance" if ok else "kernel may run without a placeholder graph to restore")
    # R13.7: building the DuplicatingGraph re-routes every recorded op through placeholders.  From that statement up to the kernel call, every
    # call into repository code (view replays, Tensor.copy, graph.get_path_to_base -- which raises KeyError for a view its base has forgotten)
    # can fail; each must sit inside a try whose handler restores the graph, like the kernel call itself
    fx = facts(run)
    protected = set()
    for t_ in own_nodes(fi.node):
        if isinstance(t_, ast.Try) and any(isinstance(c_, ast.Call) and isinstance(c_.func, ast.Attribute) and c_.func.attr == "restore_old_graph"
                                           for h_ in t_.handlers for c_ in ast.walk(h_)):
            for b_ in t_.body:
                protected |= {id(x) for x in ast.walk(b_)}
    after_graph = cfg.reachable_from(gn) if gn is not None else set()
    before_kernel = {n_ for n_ in cfg.stmt if kn in cfg.reachable_from(n_) or n_ == kn}
    n_calls = 0
    bad = None
    for n_ in sorted(after_graph & before_kernel):
        st_ = cfg.stmt.get(n_)
        if st_ is None or n_ == gn:
            continue
        from ..cfg import calls_in
        for c_ in calls_in(st_):
            r_ = fx.resolve_call(fi, c_)
            local_callable = isinstance(c_.func, ast.Name) and c_.func.id in fx.local_names(fi)
            root_ = c_.func
            while isinstance(root_, ast.Attribute):
                root_ = root_.value
            on_graph = isinstance(c_.func, ast.Attribute) and isinstance(root_, ast.Name) and root_.id == gname \
                and c_.func.attr not in ("restore_old_graph",)  # methods of the placeholder graph and of the tensors it holds
            if hasattr(r_, "qualname") or local_callable or on_graph:
                n_calls += 1
                if id(c_) not in protected and bad is None:
                    bad = c_
    run.ob("R13.7", loc(fi, bad if bad is not None else graphs[0]), fi.short,
           "every repository call between the graph re-routing and the in-place kernel is inside the restoring try", bad is None,
           f"{n_calls} call(s) into repository code after DuplicatingGraph(...), all inside the try whose handler calls restore_old_graph()" if bad is None else
           f"`{norm(bad)[:60]}` runs after the recorded ops were re-routed through placeholders but outside the restoring try: if it raises (e.g. KeyError "
           f"from get_path_to_base for a view its base no longer lists) the ops stay on the placeholders -- the base never receives its gradient, is never "
           f"cleared and its arrays stay locked")
    rog = run.project.functions.get("mygrad._utils.duplicating_graph.DuplicatingGraph.restore_old_graph")
    if rog is None:
        raise AnalysisError("DuplicatingGraph.restore_old_graph not found")
    cr = build_cfg(run, rog)
    loops = [n for n, s in cr.stmt.items() if isinstance(s, ast.For) and calls_named(s, "reroute_ops_through")]
    w = cr.all_paths_hit(ENTRY, set(loops), exits=(EXIT,)) if loops else [ENTRY, EXIT]
    run.ob("R13.2", loc(rog, rog.node), rog.short, "restore_old_graph reaches the re-routing loop over all nodes on every path", w is None,
           "graph-cut ENTRY->EXIT" if w is None else "the rollback can return without re-routing (e.g. a shortcut for view-less bases): earlier ops stay "
           "attached to placeholders after a failed in-place update", path=cr.path_text(w) if w else None)
    for lp in loops:
        st = cr.stmt[lp]
        okit = "self" in norm(st.iter)
        rr = calls_named(st, "reroute_ops_through")
        okargs = all(norm(kw(c, "target") or ast.Constant(0)).endswith(".tensor") and norm(kw(c, "source") or ast.Constant(0)).endswith(".placeholder") for c in rr)
        run.ob("R13.2", loc(rog, st), rog.short, "rollback re-routes placeholder -> original for every node of the graph", okit and okargs,
               "for node in <all nodes>: reroute_ops_through(target=node.tensor, source=node.placeholder)" if okit and okargs else "rollback direction / coverage wrong")
        # ... on every iteration: no guard / continue in the loop body lets a node keep its ops on the placeholder
        import networkx as nx
        rn = {cr.stmt_node_containing(c) for c in rr}
        rn.discard(None)
        inside = {id(x) for b_ in st.body for x in ast.walk(b_)}
        body_nodes = [n for n, s2 in cr.stmt.items() if s2 is not None and id(s2) in inside]
        first = [b_ for b_ in cr.g.successors(lp) if b_ in body_nodes]
        h = cr.g.copy()
        h.remove_nodes_from(rn)
        skip = [b_ for b_ in first if b_ in h and nx.has_path(h, b_, lp)] + [b_ for b_ in first if b_ not in h and False]
        # (a first body node that *is* the reroute call is trivially fine)
        run.ob("R13.2", loc(rog, st), rog.short, "every iteration of the rollback loop re-routes its node", bool(rn) and not skip,
               "the re-routing call cuts every path from the loop body back to the loop header" if rn and not skip else
               "an iteration can finish without re-routing (a guard / `continue` ahead of reroute_ops_through): the ops that consumed that tensor stay "
               "attached to its placeholder after a failed in-place update -- the public tensor is never cleared by backward() and its arrays stay locked",
               path=cr.path_text(nx.shortest_path(h, skip[0], lp)) if skip else None)
    # no write to `self`'s own array before the kernel: out= target must not be self.data in tracked mode
    tgt = kw(k, "out")
    ok = norm(tgt) not in ("self.data", "self.data.base")
    run.ob("R13.2", loc(fi, k), fi.short, f"tracked kernel writes into {norm(tgt)}", ok,
           "target is not the public tensor's own array (failure cannot corrupt it)" if ok else
           "tracked in-place kernel writes straight into the public tensor's array: a mid-way failure corrupts it")


def r13_3(run):
    fi = anchor_func(run, SHAPE_SET)
    assume = switch_assumptions(fi, track=True)
    cfg = build_cfg(run, fi, assume)
    params = [a.arg for a in fi.node.args.args]
    newshape = params[1] if len(params) > 1 else None
    stores = [n for n in own_nodes(fi.node) if isinstance(n, ast.Assign) and len(n.targets) == 1
              and norm(n.targets[0]) == "self.data.shape"]
    stores = [s for s in stores if cfg.node_for(s) is not None and cfg.reachable(cfg.node_for(s))]
    trial = [s for s in stores if isinstance(s.value, ast.Name) and s.value.id == newshape]
    undo = [s for s in stores if s not in trial]
    graphs = [n for n in own_nodes(fi.node) if isinstance(n, ast.Assign) and isinstance(n.value, ast.Call)
              and (dotted(n.value.func) or "").endswith("DuplicatingGraph")]
    if not graphs:
        raise AnalysisError(f"{fi.short}: DuplicatingGraph construction not found")
    gn = cfg.node_for(graphs[0])
    ok_t = bool(trial) and any(cfg.dominates(cfg.node_for(t), gn) for t in trial)
    run.ob("R13.3", loc(fi, graphs[0]), fi.short, "trial `self.data.shape = newshape` dominates graph duplication", ok_t,
           "an incompatible shape raises before any placeholder is created" if ok_t else
           "the graph is duplicated before the new shape has been validated")
    # ... and every write to the tensor's own state made by the setter (dropping the gradient, resetting a stale base) as well: a rejected
    # `x.shape = bad` must leave x.grad / x.base alone
    writes = [cfg.stmt_node_containing(c) for c in calls_named(fi.node, "null_grad") if norm(c.func.value) == "self"]
    writes += [cfg.node_for(n) for n in own_nodes(fi.node) if isinstance(n, ast.Assign) and any(
        isinstance(t_, ast.Attribute) and norm(t_.value) == "self" and t_.attr in ("_grad", "_view_grad", "_base", "_creator") for t_ in n.targets)]
    writes = [w for w in writes if w is not None and cfg.reachable(w)]
    for w in writes:
        ok_w = bool(trial) and any(cfg.dominates(cfg.node_for(t), w) for t in trial)
        run.ob("R13.3", loc(fi, cfg.stmt[w]), fi.short, f"`{norm(cfg.stmt[w])[:50]}` only after the new shape was validated", ok_w,
               "dominated by the trial assignment (which raises for an incompatible shape)" if ok_w else
               "a rejected shape assignment has already dropped the tensor's gradient / reset its base")
    ok_u = False
    for t in trial:
        for u in undo:
            if cfg.dominates(cfg.node_for(t), cfg.node_for(u)) and cfg.dominates(cfg.node_for(u), gn):
                v = u.value
                if isinstance(v, ast.Name):
                    from ..cfg import reaching_defs
                    defs = reaching_defs(cfg, v.id, cfg.node_for(u))
                    if defs and all(d != ENTRY and cfg.dominates(d, cfg.node_for(t))
                                    and norm(getattr(cfg.stmt[d], "value", None) or ast.Constant(None)) == "self.shape"
                                    for d in defs):
                        ok_u = True
    run.ob("R13.3", loc(fi, fi.node), fi.short, "trial assignment is undone with the shape saved before it", ok_u,
           "undo store dominated by the trial, dominates the duplication, value defined from self.shape before the trial"
           if ok_u else "the trial shape assignment is not rolled back before the graph is rebuilt")
    # untracked mode: plain store only
    cfg0 = build_cfg(run, fi, switch_assumptions(fi, track=False))
    g0 = [g for g in graphs if cfg0.node_for(g) is not None and cfg0.reachable(cfg0.node_for(g))]
    run.ob("R13.3", loc(fi, fi.node), fi.short, "untracked mode performs a single validated store", not g0,
           "DuplicatingGraph unreachable when TRACK_GRAPH is False" if not g0 else "graph duplication reachable with tracking off")


def r13_5(run):
    """single commit point: a public function that forwards its `out` target to several operations in sequence commits the first
    write before the second can fail.  At most one call on any path may receive out=<the caller's target>."""
    import networkx as nx
    n = 0
    for fi in run.project.all_functions():
        if "out" not in fi.params() or fi.cls is not None:
            continue
        sites = [c for c in own_nodes(fi.node) if isinstance(c, ast.Call) and kw(c, "out") is not None and norm(kw(c, "out")) == "out"]
        if len(sites) < 2:
            continue
        n += 1
        cfg = build_cfg(run, fi)
        nodes = [(c, cfg.stmt_node_containing(c)) for c in sites]
        bad = None
        for c1, n1 in nodes:
            for c2, n2 in nodes:
                if c1 is not c2 and n1 is not None and n2 is not None and n1 != n2 and n2 in nx.descendants(cfg.g, n1):
                    bad = (c1, c2)
        run.ob("R13.5", loc(fi, sites[0]), fi.short, f"at most one operation on any path writes into the caller's out= target ({len(sites)} candidate calls)", bad is None,
               "the calls lie on mutually exclusive paths" if bad is None else
               f"`{norm(bad[0])[:40]}` writes into `out` and `{norm(bad[1])[:40]}` can still fail afterwards: the failed call leaves the target half-updated")
    run.count("public functions forwarding out= to several calls", n)
    run.ob("R13.5", "mygrad", "mygrad", "functions that forward out= to more than one call were enumerated", True, f"{n} function(s)", nontrivial=False)


def r13_6(run):
    """what _in_place_op writes on the public target / its base *before* the fallible part must be put back by the failure handler"""
    fi = anchor_func(run, INPLACE)
    cfg = build_cfg(run, fi, switch_assumptions(fi, track=True), extra_raise=lambda c: isinstance(c.func, ast.Attribute) and c.func.attr == "_op")
    kern = [c for c in calls_named(fi.node, "_op") if kw(c, "out") is not None and cfg.stmt_node_containing(c) is not None]
    if not kern:
        raise AnalysisError(f"{fi.short}: kernel call not found")
    kn = cfg.stmt_node_containing(kern[0])
    import networkx as nx
    _anc = nx.ancestors(cfg.g, kn)
    writes = []
    for s in own_nodes(fi.node):
        n_ = cfg.node_for(s) if isinstance(s, ast.stmt) else None
        if n_ is None or not cfg.reachable(n_) or n_ == kn or n_ not in _anc:
            continue
        if isinstance(s, ast.Expr) and isinstance(s.value, ast.Call) and isinstance(s.value.func, ast.Attribute) and s.value.func.attr == "null_grad" \
                and norm(s.value.func.value).startswith("self"):
            writes.append((s, f"{norm(s.value.func.value)}.null_grad()"))
        if isinstance(s, ast.Assign) and any(isinstance(t, ast.Attribute) and norm(t.value).startswith("self") and t.attr in ("_base", "_grad", "_view_grad", "_constant")
                                             for t in s.targets):
            writes.append((s, norm(s)[:40]))
    hs = [h for h in cfg.g.successors(kn) if "exc" in cfg.g[kn][h]["kinds"] and h != RAISE]
    handler_nodes = set()
    for h in hs:
        handler_nodes |= {h} | cfg.reachable_from(h)
    restored = {norm(cfg.stmt[x]) for x in handler_nodes if x in cfg.stmt}
    undone = any(("_grad" in t and "=" in t) or "restore_target_state" in t for t in restored)
    run.ob("R13.6", loc(fi, writes[0][0] if writes else fi.node), fi.short,
           "state of the target written before the kernel is restored when the kernel fails", (not writes) or undone,
           "no pre-kernel write on the public tensors" if not writes else ("the handler restores it" if undone else
           f"{[w for _s, w in writes]} run before the kernel; graph.restore_old_graph() puts the op wiring back but not these: a failed in-place update "
           f"leaves the target (and its base) without gradient and a stale view without its base"))
    run.count("pre-kernel writes on the in-place target", len(writes))


def check(run):
    run.rule("R13.1", "Tensor._op (tracked): no write of input-tensor state (_grad/_view_grad/_base/_ops/_view_children) "
             "precedes a may-raise call", floor=4)
    run.rule("R13.7", "_in_place_op: every repository call between the graph re-routing and the kernel is inside the restoring try", floor=1)
    run.rule("R13.2", "_in_place_op: kernel call in a try whose handler restores the placeholder graph and re-raises; "
             "mirror_tensor only after the kernel succeeded; kernel target is not the public array", floor=5)
    run.rule("R13.3", "shape setter: validating trial assignment and its undo dominate the graph duplication", floor=3)
    run.rule("R13.4", "_op: forward call guarded by a catch-all handler that releases the locked collection and re-raises", floor=2)
    run.do(r13_1, "TRACK_GRAPH=T,MEM_GUARD=T", dict(track=True, memguard=True))
    if run.tier == "thorough":
        r13_1(run, "TRACK_GRAPH=T,MEM_GUARD=F", dict(track=True, memguard=False))
    run.do(r13_2)
    run.do(r13_3)
    run.do(r13_4)
    run.rule("R13.5", "a public function commits at most one write into the caller's out= target per path", floor=1)
    run.rule("R13.6", "_in_place_op: pre-kernel writes on the public target are undone on failure", floor=1)
    run.do(r13_5)
    run.do(r13_6)
    run.assume("may-raise = explicit `raise` reachable through resolved repo calls + the forward kernel invocation; failures "
               "inside NumPy after the kernel are assumed absent")
