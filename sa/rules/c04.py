"""C04 -- views and in-place updates mirror NumPy's memory semantics (structure only)."""
from __future__ import annotations

import ast
from typing import Dict, List, Optional, Set

from ..absint import SAME, VIEW, tensor_params_of
from ..cfg import ENTRY, EXIT, RAISE, reaching_defs
from ..common import calls_named, dotted, kw, loc, norm
from ..model import AnalysisError, ClassInfo, own_nodes
from .util import anchor_func, assigned_name, build_cfg, cond_assigns, facts, switch_assumptions
from . import opcontract
from .c12 import interp

TENSOR = "mygrad.tensor_base.Tensor"
DUP = "mygrad._utils.duplicating_graph"

EXEMPT_VIEW_FLAG = {
    f"{DUP}.ApplyMask": "internal pass-through created by _in_place_op; its input placeholder is dropped by the caller immediately "
                        "(`del placeholder_mutant_view`) and the result is mirrored into the public tensor",
    f"{DUP}.UnView": "returns the `mutant_base_data` array it is handed (a private copy made by _in_place_op), never an operand's array",
}


def r04_1(run):
    I = interp(run)
    fx = facts(run)
    n_flag = 0
    for c in run.project.concrete_ops():
        m = c.lookup_method("__call__")
        if m is None:
            continue
        tps = tensor_params_of(fx, m.cls, m)
        if not tps:
            # inherited variables contract (Abs -> UnaryUfunc): analyse the method that assigns variables
            v = opcontract.variables_of(run, c)
            if v is not None:
                m = v.fn
                tps = tensor_params_of(fx, m.cls, m)
        s = I.analyse(m, tensor_params=tps, self_cls=c)
        ret = s.returns
        shares = ret.has(lambda o, r: o == "IN" or (o.startswith("P:") and o.endswith(".data") and o[2:].split(".")[0].lstrip("*") in {t.lstrip("*") for t in tps}))
        a = c.lookup_attr("can_return_view")
        flag = a is not None and isinstance(a[1], ast.Constant) and a[1].value is True
        n_flag += flag
        if c.qualname in EXEMPT_VIEW_FLAG:
            run.ob("R04.1", loc(m, m.node), c.qualname[7:], "view flag (exempt internal op)", True, "exempt: " + EXEMPT_VIEW_FLAG[c.qualname],
                   nontrivial=False)
            continue
        unknown = any(o == "U" for o, _ in ret.origins)
        if shares:
            run.ob("R04.1", loc(m, m.node), c.qualname[7:], "result may share memory with an operand => can_return_view is True", flag,
                   f"forward result may be {', '.join(sorted({f'{r}({o})' for o, r in shares}))}; class declares can_return_view=True" if flag else
                   f"forward result may be {', '.join(sorted({f'{r}({o})' for o, r in shares}))} but the class resolves can_return_view=False: "
                   f"Tensor._op skips view detection, the result gets base=None and later in-place updates do not propagate")
        else:
            run.ob("R04.1", loc(m, m.node), c.qualname[7:], "result never shares memory with an operand", True,
                   f"forward result origins {sorted({o for o, _ in ret.origins})[:4]} (fresh / out=)" + ("; declares can_return_view (allowed)" if flag else ""),
                   note="result has an unresolved origin" if unknown else None)
    run.count("can_return_view declarations reached", n_flag)


INPLACE_PAIRS = [("__iadd__", "__add__"), ("__isub__", "__sub__"), ("__imul__", "__mul__"), ("__itruediv__", "__truediv__"), ("__ipow__", "__pow__")]


def r04_2(run):
    T = run.project.cls(TENSOR)
    sites = [s for s in opcontract.op_sites(run) if s.fi.cls is not None and s.fi.cls.qualname == TENSOR]
    by: Dict[str, List] = {}
    for s in sites:
        by.setdefault(s.fi.name, []).append(s)
    for ip, op in INPLACE_PAIRS:
        a, b = by.get(ip, []), by.get(op, [])
        # as *sets*: one call may serve several paths (virtual sites), several calls may use one operation
        ca = sorted({s.op_cls.name for s in a if s.op_cls})
        cb = sorted({s.op_cls.name for s in b if s.op_cls})
        ok = bool(a) and ca == cb and all(s.kind == "_in_place_op" for s in a) and all(s.kind == "_op" for s in b)
        m = T.methods.get(ip)
        run.ob("R04.2", loc(m, m.node) if m else loc(T.module, T.node), f"{TENSOR[7:]}.{ip}", f"{ip} uses the same Operation(s) as {op}, through _in_place_op", ok,
               f"{ca}" if ok else f"in-place spelling uses {ca}, out-of-place uses {cb}")
        for s in a:
            ops_ = [norm(x) for x in s.tensors]
            ok = bool(ops_) and ops_[0] == "self" and norm(s.call.func.value) == "self"
            run.ob("R04.2", loc(s.fi, s.call), s.fi.short, f"{ip}: target of the in-place op is self and self is the first operand", ok,
                   f"self._in_place_op({s.op_cls.name if s.op_cls else '?'}, {', '.join(ops_)})" if ok else "in-place op writes into a different tensor")
        if m is not None:
            cfg = build_cfg(run, m)
            rets = [r for r in own_nodes(m.node) if isinstance(r, ast.Return)]
            good = {cfg.node_for(r) for r in rets if r.value is not None and norm(r.value) == "self"}
            w = cfg.all_paths_hit(ENTRY, good, exits=(EXIT,)) if good else [ENTRY, EXIT]
            run.ob("R04.2", loc(m, m.node), m.short, f"{ip} returns self on every path", w is None and len(good) == len(rets),
                   "object identity is kept by augmented assignment" if w is None else "augmented assignment rebinds the variable")
    s = by.get("__setitem__", [])
    ok = len(s) == 1 and s[0].kind == "_in_place_op" and s[0].op_cls is not None and s[0].op_cls.name == "SetItem" \
        and [norm(x) for x in s[0].tensors] == ["self", s[0].fi.node.args.args[2].arg] and s[0].op_args is not None \
        and [norm(x) for x in s[0].op_args] == [s[0].fi.node.args.args[1].arg]
    run.ob("R04.2", loc(s[0].fi, s[0].call) if s else loc(T.module, T.node), f"{TENSOR[7:]}.__setitem__", "x[key] = value routes to _in_place_op(SetItem, self, value, op_args=(key,))", ok,
           "operands and index in the order SetItem expects" if ok else "item assignment is mis-routed")


def r04_3(run):
    fx = facts(run)
    mt = anchor_func(run, f"{DUP}.mirror_tensor")
    body = [b for b in mt.node.body if not (isinstance(b, ast.Expr) and isinstance(b.value, ast.Constant))]
    ok = len(body) == 1 and isinstance(body[0], ast.Assign) and norm(body[0].targets[0]) == "target.__dict__" \
        and norm(body[0].value) in ("source.__dict__.copy()", "dict(source.__dict__)", "{**source.__dict__}")
    run.ob("R04.3", loc(mt, mt.node), mt.short, "mirror_tensor replaces the target's attribute dict with a shallow copy of the source's", ok,
           "the target object keeps its identity; the two tensors do not share one dict" if ok else
           "mirroring shares the attribute dict (later updates to one tensor silently change the other) or rebinds the object")
    a = mt.node.args
    ok = not a.args and {x.arg for x in a.kwonlyargs} == {"target", "source"}
    run.ob("R04.3", loc(mt, mt.node), mt.short, "target/source are keyword-only (cannot be swapped positionally)", ok, "def mirror_tensor(*, target, source)")
    ip = anchor_func(run, f"{TENSOR}._in_place_op")
    cfg = build_cfg(run, ip, switch_assumptions(ip, track=True))
    mirrors = [c for c in calls_named(ip.node, "mirror_tensor") if cfg.stmt_node_containing(c) is not None]
    public = {"graph.base.tensor", "node.tensor", "self"}
    for c in mirrors:
        t, s = kw(c, "target"), kw(c, "source")
        # `<node>.tensor` for the loop variable that walks the placeholder graph, whatever it is called
        loop_vars = {lp.target.id for lp in own_nodes(ip.node) if isinstance(lp, ast.For) and isinstance(lp.target, ast.Name) and "graph" in norm(lp.iter)}
        pub_ok = t is not None and (norm(t) in public or (isinstance(t, ast.Attribute) and t.attr == "tensor" and isinstance(t.value, ast.Name) and t.value.id in loop_vars))
        ok = t is not None and s is not None and pub_ok
        srcdef = None
        if ok:
            if isinstance(s, ast.Name):
                defs = reaching_defs(cfg, s.id, cfg.stmt_node_containing(c))
                vals = [getattr(cfg.stmt[d], "value", None) for d in defs if d != ENTRY]
            else:
                vals = [s]  # the producing call written in place (normal form N7 inlines single-use temporaries)
            ok = bool(vals) and all(isinstance(v, ast.Call) and isinstance(v.func, ast.Attribute) and v.func.attr in ("_op", "_replay_op")
                                    or isinstance(v, ast.Name) for v in vals)
            srcdef = [norm(v)[:30] for v in vals]
        run.ob("R04.3", loc(ip, c), ip.short, f"mirror_tensor(target={norm(t) if t is not None else '?'}, source={norm(s) if s is not None else '?'})", ok,
               f"a public tensor of the view family receives the state of a freshly produced result {srcdef}" if ok else
               "mirroring does not go from a fresh result into the public tensor")
    rets = [s for n, s in cfg.stmt.items() if isinstance(s, ast.Return) and cfg.reachable(n)]
    ok = all(r.value is None for r in rets)
    run.ob("R04.3", loc(ip, ip.node), ip.short, "tracked _in_place_op returns nothing (callers keep using the same object)", ok,
           "no `return <tensor>` under TRACK_GRAPH=True" if ok else "a new tensor object is handed back for a public name")
    # every view child is re-created and mirrored, parents before children
    dgc = run.project.cls(f"{DUP}.DuplicatingGraph")

    def _iterates_graph(e):
        """`graph`, or a DuplicatingGraph method applied to it whose items come from the DFS over the view family"""
        if norm(e) == "graph":
            return True
        if isinstance(e, ast.Call) and isinstance(e.func, ast.Attribute) and norm(e.func.value) == "graph":
            m = dgc.lookup_method(e.func.attr)
            return m is not None and any(isinstance(c, ast.Call) and isinstance(c.func, ast.Attribute) and c.func.attr in ("_yield_children", "__iter__", "iter_nodes")
                                         for c in own_nodes(m.node)) and any(isinstance(y, (ast.Yield, ast.YieldFrom, ast.Return)) for y in own_nodes(m.node))
        return False

    loops = [n for n in own_nodes(ip.node) if isinstance(n, ast.For) and _iterates_graph(n.iter) and cfg.node_for(n) is not None]
    ok = False
    for lp in loops:
        rp = [c for c in calls_named(lp, "_replay_op") if norm(c.func.value) == f"{lp.target.id}.tensor" and c.args and norm(c.args[0]) == f"{lp.target.id}.parent"]
        mm = [c for c in calls_named(lp, "mirror_tensor") if kw(c, "target") is not None and norm(kw(c, "target")) == f"{lp.target.id}.tensor"]
        ap = [c for c in calls_named(lp, "append") if norm(c.func.value) == f"{lp.target.id}.parent._view_children" and c.args
              and norm(c.args[0]) == f"{lp.target.id}.tensor"]
        if rp and mm and ap:
            ok = True
    run.ob("R04.3", loc(ip, loops[0] if loops else ip.node), ip.short, "every view of the family is replayed on its (already updated) parent, mirrored, and re-registered", ok,
           "for node in graph: view = node.tensor._replay_op(node.parent); mirror_tensor(source=view, target=node.tensor); parent._view_children.append(node.tensor)"
           if ok else "views are not re-created after the base was mutated: they keep pointing at stale memory")
    it = run.project.func(f"{DUP}.DuplicatingGraph._yield_children")
    ys = [n for n in own_nodes(it.node) if isinstance(n, ast.Yield)]
    fr = [n for n in own_nodes(it.node) if isinstance(n, ast.YieldFrom)]
    cfgy = build_cfg(run, it)
    ok = bool(ys) and bool(fr) and all(cfgy.dominates(cfgy.stmt_node_containing(y), cfgy.stmt_node_containing(f)) for y in ys for f in fr)
    if not fr and ys:
        # explicit-stack form of the same traversal: the children of X are scheduled (`<stack>.append(iter(X._view_children))`) only after
        # X itself was yielded -- in the loop body for every descendant, before the loop for the root
        sched = []
        for c in own_nodes(it.node):
            if isinstance(c, ast.Call) and isinstance(c.func, ast.Attribute) and c.func.attr in ("append", "extend", "appendleft", "push") and c.args:
                xs = [x.value.id for x in ast.walk(c.args[0]) if isinstance(x, ast.Attribute) and x.attr == "_view_children" and isinstance(x.value, ast.Name)]
                if xs:
                    sched.append((c, xs[0]))
        if not sched:
            raise AnalysisError(f"{it.short}: neither a recursive (`yield from`) nor an explicit-stack traversal of the view children was recognised")
        root = it.node.args.args[1].arg if len(it.node.args.args) > 1 else None
        ok = True
        for c, x in sched:
            yx = [y for y in ys if y.value is not None and x in {n_.id for n_ in ast.walk(y.value) if isinstance(n_, ast.Name)}]
            ok = ok and bool(yx) and any(cfgy.dominates(cfgy.stmt_node_containing(y), cfgy.stmt_node_containing(c)) for y in yx)
        seeds = [n for n in own_nodes(it.node) if isinstance(n, ast.Assign) and root is not None and f"{root}._view_children" in norm(n.value)]
        yr = [y for y in ys if y.value is not None and root in {n_.id for n_ in ast.walk(y.value) if isinstance(n_, ast.Name)}] if root else []
        ok = ok and (not seeds or (bool(yr) and all(cfgy.dominates(cfgy.stmt_node_containing(yr[0]), cfgy.node_for(sd)) for sd in seeds)))
    run.ob("R04.3", loc(it, it.node), it.short, "graph iteration yields a parent before its children (pre-order)", ok,
           "`yield self[tensor]` dominates the recursion over its view children" if ok else "a child could be replayed on a parent that was not updated yet")


def r04_4(run):
    """view detection and base assignment in Tensor._op"""
    fi = anchor_func(run, f"{TENSOR}._op")
    cfg = build_cfg(run, fi, switch_assumptions(fi, track=True, memguard=True))
    ctor = [c for c in own_nodes(fi.node) if isinstance(c, ast.Call) and kw(c, "_creator") is not None and norm(kw(c, "_creator")) != "None"]
    if not ctor:
        raise AnalysisError(f"{fi.short}: output construction not found")
    b = kw(ctor[0], "_base")
    ok = isinstance(b, ast.Name)
    defs = reaching_defs(cfg, b.id, cfg.stmt_node_containing(ctor[0])) if ok else []
    shapes = []
    for d in defs:
        v = getattr(cfg.stmt[d], "value", None) if d != ENTRY else None
        if isinstance(v, ast.Constant) and v.value is None:
            shapes.append("None")
        elif isinstance(v, ast.Name) or (isinstance(v, ast.Attribute) and v.attr == "base" and isinstance(v.value, ast.Name)):
            # statement form of the same choice:  if <stale or X.base is None>: base = X   else: base = X.base
            X = v.id if isinstance(v, ast.Name) else v.value.id
            want_edge = "true" if isinstance(v, ast.Name) else "false"
            tests = [t for t, st_ in cfg.stmt.items() if cfg.label.get(t) == "If" and f"{X}.base is None" in norm(st_) and cfg.edge_dominates(t, want_edge, d)]
            if not tests:
                shapes.append("?")
            else:
                txt = norm(cfg.stmt[tests[0]])
                for nm in {x.id for x in ast.walk(cfg.stmt[tests[0]]) if isinstance(x, ast.Name)}:
                    for dd in reaching_defs(cfg, nm, tests[0]):
                        if dd != ENTRY:
                            txt += " " + norm(getattr(cfg.stmt[dd], "value", ast.Constant(0)))
                shapes.append("owner" if f"{X}._creator is None" in txt else "owner-ignoring-stale-base")
        elif isinstance(v, ast.IfExp) and isinstance(v.body, ast.Name) and norm(v.orelse) == f"{v.body.id}.base" \
                and f"{v.body.id}.base is None" in norm(v.test):
            # a parent whose graph was cleared (creator None) but whose base lingers owns its memory again: the test must say so
            tnames = {x.id for x in ast.walk(v.test) if isinstance(x, ast.Name)}
            txt = norm(v.test)
            for nm in tnames:
                for dd in reaching_defs(cfg, nm, d):
                    if dd != ENTRY:
                        txt += " " + norm(getattr(cfg.stmt[dd], "value", ast.Constant(0)))
            shapes.append("owner" if f"{v.body.id}._creator is None" in txt else "owner-ignoring-stale-base")
        else:
            shapes.append("?")
    ok = ok and bool(shapes) and set(shapes) <= {"None", "owner"} and "owner" in shapes
    run.ob("R04.4", loc(fi, ctor[0]), fi.short, "the output's base is None or the memory owner of the parent (parent if parent.base is None else parent.base)", ok,
           f"reaching definitions of `{norm(b)}`: {shapes}" if ok else f"base can be a view rather than the owner, or something else: {shapes}")
    # detection: evaluated as a truth table over the five sharing scenarios of (result array, operand array) instead of matching the guard's text
    den = {}
    ndefs = {}
    for s_ in own_nodes(fi.node):
        if isinstance(s_, ast.Assign) and assigned_name(s_):
            ndefs[assigned_name(s_)] = ndefs.get(assigned_name(s_), 0) + 1
    for s_ in own_nodes(fi.node):
        if isinstance(s_, ast.Assign) and assigned_name(s_) and isinstance(s_.value, (ast.Attribute, ast.Name)) and ndefs[assigned_name(s_)] == 1 \
                and (not isinstance(b, ast.Name) or assigned_name(s_) != b.id):
            den[assigned_name(s_)] = norm(s_.value)  # plain, single-definition projections only (op_out_base = op_out.base, parent_data = parent_var.data ...)

    def _sem(e):
        t = norm(e)
        for _ in range(3):
            for k_, v_ in den.items():
                t = __import__("re").sub(rf"\b{k_}\b", v_, t)
        return t

    def _ev(e, atoms):
        if isinstance(e, ast.BoolOp):
            vals = [_ev(v, atoms) for v in e.values]
            if isinstance(e.op, ast.And):
                return False if any(v is False for v in vals) else (None if any(v is None for v in vals) else True)
            return True if any(v is True for v in vals) else (None if any(v is None for v in vals) else False)
        if isinstance(e, ast.UnaryOp) and isinstance(e.op, ast.Not):
            v = _ev(e.operand, atoms)
            return None if v is None else (not v)
        return atoms.get(_sem(e))  # None = not about array identity (can_return_view, isinstance ...)

    marks = [n for n, s_ in cfg.stmt.items() if isinstance(s_, ast.Assign) and assigned_name(s_) == norm(b) and not (isinstance(s_.value, ast.Constant) and s_.value.value is None)] if isinstance(b, ast.Name) else []
    if not marks:
        raise AnalysisError(f"{fi.short}: the assignment that marks the output as a view was not found")
    ifs = [n for n, s_ in cfg.stmt.items() if cfg.label[n] == "If"]

    def recognised(atoms):
        for m in marks:
            okm = True
            for t in ifs:
                v = _ev(cfg.stmt[t], atoms)
                if cfg.edge_dominates(t, "true", m) and v is False:
                    okm = False
                if cfg.edge_dominates(t, "false", m) and v is True:
                    okm = False
            if okm:
                return True
        return False

    A = {"base_nn": "op_out.base is not None", "base_n": "op_out.base is None", "b_is_x": "op_out.base is parent_var.data",
         "b_is_xb": "op_out.base is parent_var.data.base", "o_is_x": "op_out is parent_var.data"}
    scen = [
        ("a view of an operand that owns its memory (out.base is x)", {A["base_nn"]: True, A["base_n"]: False, A["b_is_x"]: True, A["b_is_xb"]: False, A["o_is_x"]: False}, True),
        ("a view of an operand that is itself a view (out.base is x.base)", {A["base_nn"]: True, A["base_n"]: False, A["b_is_x"]: False, A["b_is_xb"]: True, A["o_is_x"]: False}, True),
        ("the operand's own array handed back, operand is a view (out is x)", {A["base_nn"]: True, A["base_n"]: False, A["b_is_x"]: False, A["b_is_xb"]: True, A["o_is_x"]: True}, True),
        ("the operand's own array handed back, operand owns its memory (out is x, out.base is None)",
         {A["base_nn"]: False, A["base_n"]: True, A["b_is_x"]: False, A["b_is_xb"]: True, A["o_is_x"]: True}, True),
        ("a freshly allocated result next to an operand that owns its memory (out.base is None is x.base)",
         {A["base_nn"]: False, A["base_n"]: True, A["b_is_x"]: False, A["b_is_xb"]: True, A["o_is_x"]: False}, False),
    ]
    for title, atoms, want in scen:
        got = recognised(atoms)
        run.ob("R04.4", loc(fi, cfg.stmt[marks[0]]), fi.short, f"view detection: {title}", got == want,
               ("recognised as a view" if want else "not mistaken for a view") if got == want else
               ("this sharing configuration never reaches the assignment of `base`: the result shares the operand's memory but gets base=None and is not "
                "registered as a view, so in-place updates of one tensor do not reach the other" if want else
                "a fresh result is marked as a view of an operand it shares nothing with (None is None)"))
    # registration as a view child, dominated by the construction
    apps = [c for c in calls_named(fi.node, "append") if norm(c.func.value).endswith("._view_children")]
    nc = cfg.stmt_node_containing(ctor[0])
    ok = bool(apps) and all(cfg.dominates(nc, cfg.stmt_node_containing(a)) and norm(a.args[0]) == assigned_name(cfg.stmt[nc]) for a in apps)
    run.ob("R04.4", loc(fi, apps[0] if apps else fi.node), fi.short, "a view is registered among its parent's view children", ok,
           "parent_var._view_children.append(tensor_out) after construction" if ok else "views are not registered: in-place updates of the parent do not reach them")
    # the loop variable that names the matched parent must not survive an unsuccessful search
    loops = [n for n, s in cfg.stmt.items() if isinstance(s, ast.For) and "parent_var" in {x.id for x in ast.walk(s.target) if isinstance(x, ast.Name)}]
    resets = {n for n, s in cfg.stmt.items() if isinstance(s, ast.Assign) and assigned_name(s) == "parent_var"
              and isinstance(s.value, ast.Constant) and s.value.value is None}
    users = {cfg.stmt_node_containing(a) for a in apps} | {n for n, s in cfg.stmt.items() if cfg.label[n] == "If" and "parent_var" in norm(s)
                                                          and not any(n in cfg.reachable_from(lp) and lp in cfg.reachable_from(n) for lp in loops)}
    users.discard(None)
    for lp in loops:
        ok, wit = True, None
        for succ in cfg.succ_by_kind(lp, "exhausted"):
            for u in sorted(users):
                if u in (cfg.reachable_from(succ) | {succ}):
                    w = cfg.all_paths_hit(succ, resets, exits=(u,))
                    if w is not None:
                        ok, wit = False, w
        run.ob("R04.4", loc(fi, cfg.stmt[lp]), fi.short, "when no operand matches, the candidate-parent variable is reset before it is used", ok,
               "every path from the exhausted search loop to a use of `parent_var` passes `parent_var = None` (for-else)" if ok else
               "the loop variable leaks when the search finds no parent: a copy whose NumPy result merely has a temporary .base is registered "
               "as a view child of the last operand", path=cfg.path_text(wit) if wit else None)
    # replay information recorded for views
    rec = [s for s in own_nodes(fi.node) if isinstance(s, ast.Assign) and norm(s.targets[0]) in ("f.replay_args", "f.replay_kwargs", "f.replay_force_constant")]
    tests = [n for n, s in cfg.stmt.items() if cfg.label[n] == "If" and norm(s) == "base is not None"]
    ok = len(rec) == 3 and all(any(cfg.edge_dominates(t, "true", cfg.node_for(r)) for t in tests) for r in rec) and \
        {norm(r.targets[0]): norm(r.value) for r in rec} == {"f.replay_args": "op_args", "f.replay_kwargs": "op_kwargs", "f.replay_force_constant": "constant"}
    run.ob("R04.4", loc(fi, rec[0] if rec else fi.node), fi.short, "view ops record op_args / op_kwargs / constant for replay", ok,
           "replay_args=op_args, replay_kwargs=op_kwargs, replay_force_constant=constant under `base is not None`" if ok else
           "a view cannot be re-created faithfully after an in-place update of its base")


def r04_5(run):
    """shape setter: views of the re-shaped tensor are replayed on the un-reshape of it, every other view on its own parent"""
    fi = anchor_func(run, f"{TENSOR}.shape.setter")
    cfg = build_cfg(run, fi, switch_assumptions(fi, track=True))
    un = [s for s in own_nodes(fi.node) if isinstance(s, ast.Assign) and isinstance(s.value, ast.Call) and norm(s.value.func) == "self.reshape"]
    loops = [n for n in own_nodes(fi.node) if isinstance(n, ast.For) and calls_named(n, "_replay_op")]
    ok = False
    detail = "loop replaying the views not found"
    for lp in loops:
        nd = norm(lp.target)
        # normal form: `if <node>.parent is self: p = <unshaped> else: p = <node>.parent` (whichever way the source spelled the selection)
        for (st, tgt, test, a, b) in cond_assigns(lp):
            if tgt is None:
                continue
            unn = assigned_name(un[0]) if un else None
            t = norm(test)
            good = t in (f"{nd}.parent is self", f"self is {nd}.parent") and norm(b) == f"{nd}.parent" and norm(a) == unn
            rp = [c for c in calls_named(lp, "_replay_op") if c.args and norm(c.args[0]) == tgt]
            if good and rp:
                ok = True
            detail = f"parent selection `{norm(a)} if {t} else {norm(b)}`"[:90]
    run.ob("R04.5", loc(fi, loops[0] if loops else fi.node), fi.short, "a view is replayed on the un-reshape exactly when its parent is the re-shaped tensor itself", ok,
           detail if ok else detail + ": views are replayed on a tensor of the wrong shape / the wrong parent")
    old = [s for s in own_nodes(fi.node) if isinstance(s, ast.Assign) and norm(s.value) == "self.shape" and assigned_name(s)]
    ok = bool(un) and bool(old) and un[0].value.args and norm(un[0].value.args[0]) == assigned_name(old[0])
    run.ob("R04.5", loc(fi, un[0] if un else fi.node), fi.short, "the un-reshape restores the shape saved before the assignment", ok,
           "unshaped = self.reshape(old_shape)" if ok else "views are replayed against a wrong intermediate shape")


def r04_6(run):
    """who-rewrites `_view_children`: a wholesale rebuild must be a map over the *same* tensor's children (or, for a placeholder, over the
    children of the tensor it stands in for); otherwise sibling views are silently dropped from the family"""
    fx = facts(run)
    n = 0
    for (fi, mod, st, t, val, kind) in fx.attribute_stores():
        if t.attr != "_view_children" or kind != "assign":
            continue
        comps = [x for x in ast.walk(val)] if val is not None else []
        gens = [x for x in comps if isinstance(x, (ast.ListComp, ast.GeneratorExp))]
        if not gens:
            continue  # a fresh empty container (constructor)
        n += 1
        owner = norm(t.value)
        src = gens[0].generators[0].iter
        srcn = norm(src)
        srco = norm(src.value) if isinstance(src, ast.Attribute) and src.attr == "_view_children" else None
        same = srco == owner
        mirror = srco is not None and owner in (f"self[{srco}].placeholder", f"graph[{srco}].placeholder")
        fn = fi.short if fi else mod.name
        run.ob("R04.6", loc(mod, st), fn, f"rebuild of {owner}._view_children maps that tensor's own children", same or mirror,
               f"iterates {srcn}" + (" (the tensor this placeholder mirrors)" if mirror else "") if (same or mirror) else
               f"the new list is built from `{srcn}`, another tensor's children: every sibling view of `{owner}` that is not in that list is dropped "
               f"from the family and no longer follows in-place updates of the base")
        # a rebuild that *swaps one member* (`w if w is not X else Y`) must address the list X is a member of.  Tensor._op registers a view in
        # its direct parent's list (parent_var._view_children.append(out)) -- the operand of the view's creator -- not in its base's list; for a view
        # of a view the two differ
        swaps = [x for x in comps if isinstance(x, ast.IfExp) and isinstance(x.test, ast.Compare) and len(x.test.ops) == 1
                 and isinstance(x.test.ops[0], (ast.Is, ast.IsNot, ast.Eq, ast.NotEq))]
        if swaps and fi is not None and isinstance(t.value, ast.Name):
            from ..cfg import CFG, ENTRY, reaching_defs
            cfg = CFG(fi.node)
            at = cfg.node_for(st)
            defs = reaching_defs(cfg, t.value.id, at) if at is not None else []
            texts = [norm(getattr(cfg.stmt[d], "value", None) or ast.Constant(0)) if d != ENTRY else "<parameter>" for d in defs]
            okp = bool(texts) and all(tx.replace("._creator", ".creator").endswith(".creator.variables[0]") for tx in texts)
            run.ob("R04.6", loc(mod, st), fn, f"member swap in {owner}._view_children addresses the swapped tensor's direct parent", okp,
                   f"{owner} = {texts[0]}: the operand of the view's creator, whose list holds the view" if okp else
                   f"{owner} = {texts[0] if texts else '?'}: not the operand of the view's creator.  A view is listed by its direct parent; for a view of a "
                   f"view the base's list does not contain it, so the swap does nothing and the parent keeps pointing at the stale tensor -- later "
                   f"in-place updates replay the wrong view chain")
    run.count("wholesale rebuilds of _view_children", n)


_MAY_COPY_CONVERTERS = {"asarray", "array", "asanyarray", "ascontiguousarray", "asfortranarray", "astype", "copy", "require"}


def r04_7(run):
    """a view op hands its operand's array to the NumPy kernel as it is.  For ops that declare can_return_view, NumPy decides whether the result
    shares memory with the operand; a conversion of the operand on the way (np.asarray(x, order=...), ascontiguousarray, .copy(), .astype())
    copies non-contiguous / differently typed operands, so the result silently stops being a view exactly for those layouts (base None, no
    shared memory, later in-place updates are not seen) while NumPy's namesake still returns a view."""
    n = 0
    for c in run.project.concrete_ops():
        la = c.lookup_attr("can_return_view")
        if la is None or not (isinstance(la[1], ast.Constant) and la[1].value is True):
            continue
        m = c.lookup_method("__call__")
        if m is None:
            continue
        n += 1
        # names carrying operand data: <param>.data, self.variables, and locals bound from them
        carriers = set()
        changed = True
        def carries(e):
            return any((isinstance(x, ast.Attribute) and x.attr == "data") or (isinstance(x, ast.Name) and x.id in carriers) for x in ast.walk(e))
        while changed:
            changed = False
            for st in own_nodes(m.node):
                if isinstance(st, ast.comprehension) and carries(st.iter):
                    for x in ast.walk(st.target):
                        if isinstance(x, ast.Name) and x.id not in carriers:
                            carriers.add(x.id)
                            changed = True
                if isinstance(st, ast.Assign) and carries(st.value):
                    for t_ in st.targets:
                        for x in ast.walk(t_):
                            if isinstance(x, ast.Name) and x.id not in carriers:
                                carriers.add(x.id)
                                changed = True
        bad = None
        for call in own_nodes(m.node):
            if not isinstance(call, ast.Call):
                continue
            d = dotted(call.func) or ""
            leaf = d.split(".")[-1] if d else (call.func.attr if isinstance(call.func, ast.Attribute) else "")
            if leaf not in _MAY_COPY_CONVERTERS:
                continue
            is_np = d.split(".")[0] in ("np", "numpy")
            subject = call.args[0] if (is_np and call.args) else (call.func.value if isinstance(call.func, ast.Attribute) and not is_np else None)
            if subject is not None and carries(subject):
                if leaf in ("asarray", "asanyarray") and not call.keywords:
                    continue  # no dtype / order requested: returns the array itself
                bad = call
                break
        run.ob("R04.7", loc(m, bad if bad is not None else m.node), m.short, f"{c.name}: operand arrays reach the view kernel unconverted", bad is None,
               "no may-copy conversion between <operand>.data and the kernel" if bad is None else
               f"`{norm(bad)[:70]}` may copy the operand before the kernel sees it: for the layouts it copies, the result is no longer a view of the "
               f"operand although NumPy's own call returns one")
    run.count("view ops scanned for operand conversions", n)


def check(run):
    run.rule("R04.1", "an op whose forward result may be (a view of) an operand's array resolves can_return_view=True (ownership domain)", floor=80)
    run.rule("R04.2", "in-place spellings use the same Operation as the out-of-place ones, target self, and return self; __setitem__ routes to SetItem", floor=12)
    run.rule("R04.3", "public tensors change only through mirror_tensor (identity-preserving shallow dict copy); tracked _in_place_op returns nothing; "
             "every view is replayed on its updated parent, parents first", floor=7)
    run.rule("R04.6", "wholesale rebuilds of a `_view_children` list map the same tensor's own children", floor=2)
    run.rule("R04.5", "shape setter replays a view on the un-reshape exactly when its parent is the re-shaped tensor", floor=2)
    run.rule("R04.4", "Tensor._op: base is None or the memory owner; the three sharing configurations are recognised; views are registered and record "
             "their replay arguments", floor=5)
    run.do(r04_1)
    run.do(r04_2)
    run.do(r04_3)
    run.do(r04_4)
    run.do(r04_5)
    run.do(r04_6)
    run.rule("R04.7", "ops that can return views hand their operands' arrays to the NumPy kernel unconverted", floor=10)
    run.do(r04_7)
