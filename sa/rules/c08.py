"""C08 -- memory guard: lock/release pairing, decided on the CFG of Tensor._op (with exceptional
edges, specialised to TRACK_GRAPH x MEM_GUARD) and on lock_management."""
from __future__ import annotations

import ast
from typing import List, Optional, Set

from ..cfg import ENTRY, EXIT, RAISE, calls_in
from ..common import calls_named, dotted, kw, loc, norm, stmt_of
from ..model import AnalysisError, own_nodes
from .util import (validating_numpy_call, op_instance_call, owner_closure, anchor_func, assigned_name, build_cfg, callee_desc, facts, name_aliases, node_of_call,
                   raising_calls, switch_assumptions)
from ..common import stmt_of  # noqa

OP = "mygrad.tensor_base.Tensor._op"
LOCKMOD = "mygrad._utils.lock_management"


def _release_nodes(cfg, fn_node, coll_aliases: Set[str]) -> Set[int]:
    """CFG nodes that release the collection or hand it to a finalizer."""
    out = set()
    for c in calls_named(fn_node, "release_writeability_lock_on_op"):
        if c.args and isinstance(c.args[0], ast.Name) and c.args[0].id in coll_aliases:
            n = node_of_call(cfg, c)
            if n is not None:
                out.add(n)
    for c in calls_named(fn_node, "finalize"):
        if len(c.args) >= 3 and dotted(c.args[1]) is not None \
                and dotted(c.args[1]).endswith("release_writeability_lock_on_op") \
                and isinstance(c.args[2], ast.Name) and c.args[2].id in coll_aliases:
            n = node_of_call(cfg, c)
            if n is not None:
                out.add(n)
    return out


def acquisition(run, fi):
    """The statement of `_op` that takes the input locks and the name of the collection holding them."""
    locks = calls_named(fi.node, "lock_arr_writeability")
    for c in locks:
        st = stmt_of(c)
        nm = assigned_name(st)
        # the lock call sits in a comprehension that feeds the collection constructor
        par = getattr(c, "_parent", None)
        if nm is not None and isinstance(par, (ast.GeneratorExp, ast.ListComp)):
            return st, nm, c
    # ... or the acquisition was extracted into a helper that locks a whole collection and returns it
    fx = facts(run)
    for n in own_nodes(fi.node):
        if isinstance(n, (ast.Assign, ast.AnnAssign)) and isinstance(getattr(n, "value", None), ast.Call) and assigned_name(n):
            r = fx.resolve_call(fi, n.value)
            if hasattr(r, "node") and not isinstance(r, type(None)) and getattr(r, "qualname", "") != fi.qualname:
                inner = [c for c in calls_named(r.node, "lock_arr_writeability") if isinstance(getattr(c, "_parent", None), (ast.GeneratorExp, ast.ListComp))]
                if inner and any(isinstance(x, ast.Return) for x in own_nodes(r.node)):
                    return n, assigned_name(n), n.value
    raise AnalysisError(f"{fi.short}: cannot find the statement that locks the operation's inputs "
                        f"(expected `<coll> = C(lock_arr_writeability(x) for x in ...)`)")


def r08_1(run, mode_label, assume_switch):
    fi = anchor_func(run, OP)
    assume = switch_assumptions(fi, **assume_switch)
    from .util import op_instance_call
    cfg = build_cfg(run, fi, assume, extra_raise=lambda c: op_instance_call(run, fi, c) or validating_numpy_call(c))
    run.count("cfg_nodes", cfg.g.number_of_nodes())
    run.count("cfg_edges", cfg.g.number_of_edges())
    acq_stmt, coll, _ = acquisition(run, fi)
    acq = cfg.node_for(acq_stmt)
    if acq is None or not cfg.reachable(acq):
        if assume_switch.get("track") and assume_switch.get("memguard"):
            raise AnalysisError(f"{fi.short}: lock acquisition unreachable under {mode_label}")
        run.ob("R08.1", loc(fi, acq_stmt), fi.short, f"[{mode_label}] input locks not taken", True,
               "acquisition statement is dead under this specialisation", nontrivial=True)
        return
    aliases = name_aliases(fi.node, coll)
    rel = _release_nodes(cfg, fi.node, aliases)
    if not rel:
        raise AnalysisError(f"{fi.short}: no release/finalize site for collection {coll}")
    # nodes reachable from the acquisition without passing a release
    open_nodes = cfg.reachable_from(acq, avoiding=rel) | {acq}
    n_exits = 0
    for n in sorted(open_nodes):
        if n in (EXIT, RAISE) or n in rel:
            continue
        for succ in cfg.g.successors(n):
            if succ not in (EXIT, RAISE):
                continue
            if n == acq and succ == RAISE:
                continue  # failing while acquiring: nothing consistent to release (stated limitation)
            n_exits += 1
            st = cfg.stmt[n]
            if succ == RAISE:
                calls = raising_calls(run, fi, st) if not isinstance(st, ast.ExceptHandler) else []
                what = ", ".join(sorted({callee_desc(run, fi, c) for c in calls})) or norm(st).split("\n")[0][:60]
                construct = f"input locks held at exceptional exit through call to {what}"
            else:
                construct = f"input locks held at normal exit ({norm(st).split(chr(10))[0][:50]})"
            path = cfg.path_text([acq] + _short(cfg, acq, n, rel) + [succ])
            run.ob("R08.1", loc(fi, st), fi.short, construct, False,
                   f"[{mode_label}] a path from the lock acquisition reaches {cfg.label[succ]} without passing "
                   f"release_writeability_lock_on_op({coll}) or finalize(f, release..., {coll})", path=path)
    # positive obligations: every exit edge that *is* covered
    covered = 0
    for r in sorted(rel):
        covered += 1
        st = cfg.stmt[r]
        run.ob("R08.1", loc(fi, st), fi.short, f"[{mode_label}] release site {norm(st).split(chr(10))[0][:70]}", True,
               "release/finalize of the locked collection, reachable from the acquisition")
    path_w = cfg.all_paths_hit(acq, rel)
    run.ob("R08.1", loc(fi, acq_stmt), fi.short, f"[{mode_label}] all paths acquisition->exit pass a release",
           path_w is None or n_exits > 0,
           "graph-cut: removing the release nodes disconnects the acquisition from EXIT and RAISE"
           if path_w is None else "see individual exits")


def _short(cfg, a, b, avoid):
    import networkx as nx
    h = cfg.g.copy()
    h.remove_nodes_from([x for x in avoid if x not in (a, b)])
    try:
        p = nx.shortest_path(h, a, b)
        return p[1:]
    except Exception:
        return [b]


def _lock_coverage(run):
    """the input locks of Tensor._op cover *every* operand: the lock comprehension iterates unique_arrs_and_bases(<the operand tuple that is
    splatted into the kernel call>) with no filter.  A filter by the operand's original Python type (only ndarrays / Tensors) leaves the array
    behind a duck-typed operand (an object whose __array__ hands out its own ndarray, adopted with copy=False) writeable while it is an input
    of a live graph."""
    fx = facts(run)
    fi = anchor_func(run, OP)
    # the operand tuple: the starred leading argument of the kernel call f(*T, ...)
    kernel = [c for c in own_nodes(fi.node) if isinstance(c, ast.Call) and op_instance_call(run, fi, c)]
    tup = {norm(a.value) for c in kernel for a in c.args[:1] if isinstance(a, ast.Starred)}
    if not tup:
        raise AnalysisError(f"{fi.short}: the kernel call f(*operands, ...) was not found")

    def judge(owner_fi, gen, arg_text):
        ok = not any(g.ifs for g in gen.generators) and len(gen.generators) == 1
        it = gen.generators[0].iter
        inner = it.args[0] if isinstance(it, ast.Call) and (dotted(it.func) or "").endswith("unique_arrs_and_bases") and it.args else None
        ok = ok and inner is not None and norm(inner) == arg_text
        run.ob("R08.2", loc(owner_fi, gen), owner_fi.short, "the input locks cover every operand of the op", ok,
               f"lock_arr_writeability(x) for x in unique_arrs_and_bases({arg_text}), unfiltered" if ok else
               f"the lock comprehension iterates `{norm(it)[:70]}`" + (" with a filter" if any(g.ifs for g in gen.generators) else "") +
               f", not the whole operand tuple {sorted(tup)}: some operand arrays of a recorded op stay writeable")

    for c in calls_named(fi.node, "lock_arr_writeability"):
        par = getattr(c, "_parent", None)
        if isinstance(par, (ast.GeneratorExp, ast.ListComp)) and isinstance(getattr(par.generators[0].iter, "func", None), (ast.Attribute, ast.Name)) \
                and (dotted(par.generators[0].iter.func) or "").endswith("unique_arrs_and_bases"):
            judge(fi, par, sorted(tup)[0])
            return
    # extracted into a helper: the helper receives the operand tuple and iterates its own parameter
    for n in own_nodes(fi.node):
        if isinstance(n, ast.Call):
            r = fx.resolve_call(fi, n)
            if hasattr(r, "node") and getattr(r, "qualname", "") != fi.qualname and calls_named(r.node, "lock_arr_writeability"):
                for c in calls_named(r.node, "lock_arr_writeability"):
                    par = getattr(c, "_parent", None)
                    if isinstance(par, (ast.GeneratorExp, ast.ListComp)):
                        params = [a.arg for a in r.node.args.args]
                        pos = [i for i, a in enumerate(n.args) if norm(a) in tup]
                        if pos and pos[0] < len(params):
                            judge(r, par, params[pos[0]])
                            return
    raise AnalysisError(f"{fi.short}: the comprehension locking the operands was not found")


def r08_2(run):
    """every lock_arr_writeability(E) is paired with registration of E in the finalized collection"""
    fx = facts(run)
    _lock_coverage(run)
    for q in (OP, f"{LOCKMOD}.force_lock_tensor_and_creators"):
        fi = anchor_func(run, q)
        assume = switch_assumptions(fi, track=True, memguard=True)
        cfg = build_cfg(run, fi, assume)
        fins = [c for c in calls_named(fi.node, "finalize") if len(c.args) >= 3]
        fin_colls = set()
        for c in fins:
            if isinstance(c.args[2], ast.Name):
                fin_colls |= _rev_aliases(fi.node, c.args[2].id)
        if not fins:
            raise AnalysisError(f"{fi.short}: no weakref.finalize registration found")
        # what flows into the finalized collection when it is *built*: names poured in (WeakRefIterable(xs), (*xs, e), list(xs), xs + [e]) and
        # the element expressions written into the literal -- `WeakRefIterable((*unique_arrs, tensor.data))` registers both
        flow_names: Set[str] = set(fin_colls)
        lit_elems: Dict[str, ast.AST] = {}
        def _pour(e, st_):
            if isinstance(e, ast.Name):
                flow_names.add(e.id)
            elif isinstance(e, ast.Starred):
                _pour(e.value, st_)
            elif isinstance(e, (ast.Tuple, ast.List, ast.Set)):
                for x_ in e.elts:
                    if isinstance(x_, ast.Starred):
                        _pour(x_.value, st_)
                    else:
                        lit_elems[norm(x_)] = st_
            elif isinstance(e, ast.Call) and e.args and (dotted(e.func) or "").split(".")[-1] in ("WeakRefIterable", "list", "tuple"):
                _pour(e.args[0], st_)
            elif isinstance(e, ast.BinOp) and isinstance(e.op, ast.Add):
                _pour(e.left, st_)
                _pour(e.right, st_)
        for _round in range(3):
            for n_ in own_nodes(fi.node):
                if isinstance(n_, ast.Assign) and assigned_name(n_) in flow_names:
                    _pour(n_.value, n_)
        for c_ in fins:
            _pour(c_.args[2], stmt_of(c_))
        for c in calls_named(fi.node, "lock_arr_writeability"):
            st = stmt_of(c)
            par = getattr(c, "_parent", None)
            E = norm(c.args[0]) if c.args else "?"
            def _reaches_finalize(nm):
                if nm is None:
                    return False
                if nm in fin_colls or nm in flow_names:
                    return True
                # or wrapped: tensor_refs = WeakRefIterable(unique_arrs)
                for n in own_nodes(fi.node):
                    if isinstance(n, ast.Assign) and isinstance(n.value, ast.Call) and n.value.args \
                            and isinstance(n.value.args[0], ast.Name) and n.value.args[0].id == nm \
                            and assigned_name(n) in fin_colls:
                        return True
                return False

            if isinstance(par, ast.Call) and isinstance(par.func, ast.Attribute) and par.func.attr == "append" and isinstance(par.func.value, ast.Name) \
                    and par.args and par.args[0] is c:
                # coll.append(lock_arr_writeability(E)): the lock's result goes straight into the collection
                nm = par.func.value.id
                ok = _reaches_finalize(nm)
                run.ob("R08.2", loc(fi, c), fi.short, f"lock of {E} appended to {nm}", ok,
                       "collection reaches finalize(..., release_writeability_lock_on_op, coll)" if ok else
                       "the locked arrays are not registered with the op's finalizer: they are never unlocked")
                continue
            if isinstance(par, (ast.GeneratorExp, ast.ListComp)):
                nm = assigned_name(st)
                ok = _reaches_finalize(nm)
                run.ob("R08.2", loc(fi, c), fi.short, f"locks of generator over {norm(par.generators[0].iter)[:50]} collected into {nm}",
                       ok, "collection reaches finalize(..., release_writeability_lock_on_op, coll)" if ok else
                       "the locked arrays are not registered with the op's finalizer: they are never unlocked")
                continue
            ln = cfg.stmt_node_containing(c)
            apps = set()
            for a in calls_named(fi.node, "append"):
                if isinstance(a.func, ast.Attribute) and isinstance(a.func.value, ast.Name) \
                        and a.func.value.id in fin_colls and a.args and norm(a.args[0]) == E:
                    n = cfg.stmt_node_containing(a)
                    if n is not None:
                        apps.add(n)
            if E in lit_elems:
                n_ = cfg.stmt_node_containing(lit_elems[E]) if lit_elems[E] is not None else None
                if n_ is not None:
                    apps.add(n_)   # written into the collection where it is built
            w = None
            ok = False
            if ln is not None and cfg.reachable(ln):
                if apps:
                    w = cfg.all_paths_hit(ln, apps, exits=(EXIT,))
                    ok = w is None
            else:
                ok = True
            run.ob("R08.2", loc(fi, c), fi.short, f"lock of {E}", ok,
                   f"every normal path from the lock to the exit appends {E} to the finalized collection" if ok else
                   f"{E} is locked but not appended to the collection given to finalize on every path",
                   path=cfg.path_text(w) if w else None)


def _rev_aliases(fn_node, name: str) -> Set[str]:
    """names from which `name` was copied (y = x ... name = y) plus forward aliases"""
    al = {name}
    changed = True
    while changed:
        changed = False
        for n in own_nodes(fn_node):
            if isinstance(n, ast.Assign) and isinstance(n.value, ast.Name):
                for t in n.targets:
                    if isinstance(t, ast.Name):
                        if t.id in al and n.value.id not in al:
                            al.add(n.value.id)
                            changed = True
                        if n.value.id in al and t.id not in al:
                            al.add(t.id)
                            changed = True
    return al


def r08_3(run):
    """who may write the writeable flag"""
    fx = facts(run)
    n = 0
    for mod in run.project.modules.values():
        for node in ast.walk(mod.tree):
            tgt = None
            if isinstance(node, (ast.Assign, ast.AugAssign)):
                tgts = node.targets if isinstance(node, ast.Assign) else [node.target]
                for t in tgts:
                    if isinstance(t, ast.Attribute) and t.attr == "writeable":
                        tgt = t
            elif isinstance(node, ast.Call) and isinstance(node.func, ast.Attribute) and node.func.attr == "setflags":
                tgt = node.func
            if tgt is None:
                continue
            n += 1
            fi = fx.owner_function(mod, node)
            fn = fi.short if fi else mod.name
            if mod.name == LOCKMOD:
                run.ob("R08.3", loc(mod, node), fn, f"flag write {norm(tgt)}", True, "inside lock_management (the owner module)",
                       nontrivial=False)
                continue
            # allowed: write on a private copy created in this function:  X = <expr>.copy() ; X.data.flags.writeable = ...
            root = tgt
            while isinstance(root, ast.Attribute):
                root = root.value
            ok = False
            why = "write of an array's writeable flag outside lock_management on an array that is not a private copy"
            if isinstance(root, ast.Name) and fi is not None:
                from ..cfg import reaching_defs
                cfg = build_cfg(run, fi)
                here = cfg.stmt_node_containing(node)
                defs = reaching_defs(cfg, root.id, here) if here is not None else []
                vals = [getattr(cfg.stmt.get(d), "value", None) for d in defs]
                if defs and all(isinstance(v, ast.Call) and isinstance(v.func, ast.Attribute) and v.func.attr == "copy"
                                and not v.args for v in vals):
                    ok = True
                    why = f"every reaching definition of {root.id} is a fresh `.copy()` made in this function (private array)"
            run.ob("R08.3", loc(mod, node), fn, f"flag write {norm(tgt)}", ok, why)
    run.count("writeable_flag_writes", n)


def r08_4(run):
    """bases first: within one iteration `yield arr.base` precedes `yield arr`"""
    fi = anchor_func(run, f"{LOCKMOD}.unique_arrs_and_bases")
    cfg = build_cfg(run, fi)
    ys = [n for n in own_nodes(fi.node) if isinstance(n, ast.Yield) and n.value is not None]
    base_y = [y for y in ys if isinstance(y.value, ast.Attribute) and y.value.attr == "base"]
    arr_y = [y for y in ys if y not in base_y]
    if not base_y or not arr_y:
        raise AnalysisError(f"{fi.short}: expected a `yield <arr>.base` and a `yield <arr>`")
    heads = {n for n, s in cfg.stmt.items() if isinstance(s, ast.For)}
    for b in base_y:
        for a in arr_y:
            if norm(b.value.value) != norm(a.value):
                continue
            nb, na = cfg.stmt_node_containing(b), cfg.stmt_node_containing(a)
            reach = cfg.reachable_from(na, avoiding=heads)
            ok = nb not in reach and na in (cfg.reachable_from(nb, avoiding=heads))
            run.ob("R08.4", loc(fi, b), fi.short, f"yield {norm(b.value)} before yield {norm(a.value)}", ok,
                   "within one loop iteration the base is yielded strictly before the array (so bases are "
                   "released first by release_writeability_lock_on_op)" if ok else
                   "an array can be yielded before its base: views would be asked to unlock while the base is locked")


def r08_4b(run):
    """every not-yet-seen array is yielded, preceded by its (not-yet-seen) base -- no extra condition may suppress a yield"""
    fi = anchor_func(run, f"{LOCKMOD}.unique_arrs_and_bases")
    loops = [n for n in own_nodes(fi.node) if isinstance(n, ast.For)]
    if not loops:
        raise AnalysisError(f"{fi.short}: loop not found")
    ys = [n for n in own_nodes(fi.node) if isinstance(n, ast.Yield) and n.value is not None]
    base_y = [y for y in ys if isinstance(y.value, ast.Attribute) and y.value.attr == "base"]
    arr_y = [y for y in ys if y not in base_y]
    if not base_y or not arr_y:
        raise AnalysisError(f"{fi.short}: yields not found")
    arr = norm(arr_y[0].value)
    # names of the id-locals
    ids = {}
    for n in own_nodes(fi.node):
        if isinstance(n, ast.Assign) and isinstance(n.value, ast.Call) and dotted(n.value.func) == "id" and assigned_name(n):
            ids[norm(n.value.args[0])] = assigned_name(n)
    seen = None
    for n in own_nodes(fi.node):
        if isinstance(n, ast.Assign) and isinstance(n.value, ast.Call) and dotted(n.value.func) == "set" and assigned_name(n):
            seen = assigned_name(n)
    if seen is None or arr not in ids or f"{arr}.base" not in ids:
        raise AnalysisError(f"{fi.short}: cannot identify the seen-set / id locals")
    # scenario: an unseen array with an (ndarray) base that was not seen either -- both spellings of "has a base"
    assume = {f"{ids[arr]} not in {seen}": True, f"{arr}.base is not None": True, f"isinstance({arr}.base, np.ndarray)": True,
              f"isinstance({arr}.base, ndarray)": True, f"{ids[arr + '.base']} not in {seen}": True}
    cfg = build_cfg(run, fi, assume)
    head = cfg.node_for(loops[0])
    for label, yl in (("base", base_y), ("array", arr_y)):
        ns = {cfg.stmt_node_containing(y) for y in yl}
        ns.discard(None)
        ok, wit = True, None
        for succ in cfg.succ_by_kind(head, "loop"):
            w = cfg.all_paths_hit(succ, ns, exits=(head, EXIT)) if ns else [succ, head]
            if w is not None:
                ok, wit = False, w
        run.ob("R08.4", loc(fi, yl[0]), fi.short, f"an unseen {label} is always yielded (no further condition)", ok,
               f"under {sorted(assume)} every iteration passes the yield" if ok else
               f"an array's {label} can be skipped although it was not yielded before: it stays writeable inside a live graph",
               path=cfg.path_text(wit) if wit else None)


def r08_7(run):
    """typestate of the three maps: waiting views live in _array_tracker, so the waiting set may only be wiped when the tracker is empty"""
    relf = anchor_func(run, f"{LOCKMOD}._release_lock_on_arr_writeability")
    cfg = build_cfg(run, relf)
    clears = [c for c in calls_named(relf.node, "clear") if dotted(c.func.value) == "_views_waiting_for_unlock"]
    tests = [n for n, s in cfg.stmt.items() if cfg.label[n] == "If"]
    for c in clears:
        nc = cfg.stmt_node_containing(c)
        ok = False
        for t in tests:
            txt = norm(cfg.stmt[t])
            conj = [x.strip() for x in txt.split(" and ")]
            if "not _array_tracker" in conj and cfg.edge_dominates(t, "true", nc):
                ok = True
        run.ob("R08.7", loc(relf, c), relf.short, "_views_waiting_for_unlock.clear() only when _array_tracker is empty", ok,
               "guarded by `not _array_tracker` (views waiting for their base are tracked there, not in the counter)" if ok else
               "the set of views waiting for their base can be wiped while such views are still tracked: they stay read-only forever")
    # pops of a waiting view from the tracker happen only in the release function
    mod = run.project.module(LOCKMOD)
    fx = facts(run)
    for node in ast.walk(mod.tree):
        if isinstance(node, ast.Call) and isinstance(node.func, ast.Attribute) and node.func.attr in ("pop", "clear") \
                and dotted(node.func.value) == "_array_tracker":
            fi = fx.owner_function(mod, node)
            ok = fi is not None and fi.qualname in owner_closure(run, {relf.qualname})
            run.ob("R08.7", loc(mod, node), fi.short if fi else mod.name, f"_array_tracker.{node.func.attr}(...)", ok,
                   "tracker entries removed only by the release function" if ok else "tracker entry dropped outside the release function")


def r08_9(run):
    """release_writeability_lock_on_op is invoked directly only from the exception handler of the function that took the locks;
    everywhere else it runs as a weakref.finalize callback (exactly once per op)"""
    fx = facts(run)
    n = 0
    for fi in run.project.all_functions():
        for c in calls_named(fi.node, "release_writeability_lock_on_op"):
            n += 1
            p = getattr(c, "_parent", None)
            in_handler = False
            while p is not None and p is not fi.node:
                if isinstance(p, ast.ExceptHandler):
                    in_handler = True
                p = getattr(p, "_parent", None)
            takes = bool(calls_named(fi.node, "lock_arr_writeability"))
            ok = in_handler and takes
            run.ob("R08.9", loc(fi, c), fi.short, "direct call of release_writeability_lock_on_op", ok,
                   "inside the except-handler of the function that acquired the locks" if ok else
                   "locks are released eagerly outside the acquiring function's error path: the op's finalizer releases them a second time, "
                   "so arrays shared with another live graph become writeable")
    run.count("direct release calls", n)
    # the per-array release (`_release_lock_on_arr_writeability`) drops one lock count of one array: it is private to the lock module, where
    # release_writeability_lock_on_op applies it once per array an op locked.  Any other user takes counts that belong to live ops.
    m = 0
    for fi in run.project.all_functions():
        uses = [x for x in own_nodes(fi.node) if (isinstance(x, ast.Name) and x.id == "_release_lock_on_arr_writeability")
                or (isinstance(x, ast.Attribute) and x.attr == "_release_lock_on_arr_writeability")]
        for u in uses:
            m += 1
            ok = fi.module.name.endswith("_utils.lock_management") and fi.name == "release_writeability_lock_on_op"
            run.ob("R08.9", loc(fi, u), fi.short, "use of the per-array release _release_lock_on_arr_writeability", ok,
                   "applied by release_writeability_lock_on_op to the arrays of one op's collection" if ok else
                   "lock counts are released by hand, outside the op-level release: the ops that took these counts release them again when they are "
                   "finalized, so an array shared with a live graph becomes writeable (or a count goes negative and the array stays locked)")
    run.count("uses of the per-array release", m)
    # exactly once: in _op no path passes two release/finalize nodes of the same collection
    fi = anchor_func(run, OP)
    from .util import op_instance_call
    cfg = build_cfg(run, fi, switch_assumptions(fi, track=True, memguard=True), extra_raise=lambda c: op_instance_call(run, fi, c) or validating_numpy_call(c))
    _, coll, _ = acquisition(run, fi)
    rel = sorted(_release_nodes(cfg, fi.node, name_aliases(fi.node, coll)))
    bad = [(a, b) for a in rel for b in rel if a != b and b in cfg.reachable_from(a)]
    run.ob("R08.9", loc(fi, cfg.stmt[bad[0][0]]) if bad else loc(fi, fi.node), fi.short, "no path releases / registers the finalizer for the locked collection twice", not bad,
           f"the {len(rel)} release/finalize nodes are pairwise unreachable from each other" if not bad else
           f"a path passes `{norm(cfg.stmt[bad[0][0]])[:40]}` and then `{norm(cfg.stmt[bad[0][1]])[:40]}`: the lock count of each input drops twice")


def r08_10(run):
    """in-place updates: the kernel and the glue ops run with the guard suspended (their target is a private, writeable copy);
    afterwards the result and its creators are force-locked whenever the guard is on"""
    fi = anchor_func(run, "mygrad.tensor_base.Tensor._in_place_op")
    cfg = build_cfg(run, fi, switch_assumptions(fi, track=True, memguard=True))
    kern = [c for c in calls_named(fi.node, "_op") if kw(c, "out") is not None and cfg.stmt_node_containing(c) is not None
            and cfg.reachable(cfg.stmt_node_containing(c))]
    if len(kern) != 1:
        raise AnalysisError(f"{fi.short}: tracked kernel call not found")
    k = kern[0]
    res = assigned_name(stmt_of(k))
    for c in [k]:
        p = getattr(c, "_parent", None)
        ok = False
        while p is not None and p is not fi.node:
            if isinstance(p, ast.With) and any(norm(i.context_expr).endswith("mem_guard_off") for i in p.items):
                ok = True
            p = getattr(p, "_parent", None)
        run.ob("R08.10", loc(fi, c), fi.short, "the in-place kernel call runs under mem_guard_off", ok,
               "the kernel's operands/target are not locked by the kernel call itself (they are force-locked afterwards)" if ok else
               "the kernel call locks its operands and out= target through the normal path as well: each array is counted twice / the target's base is locked before the write")
    from . import opcontract
    from .c12 import interp
    from ..absint import tensor_params_of
    I = interp(run)
    for s in opcontract.op_sites(run):
        if s.fi.qualname != fi.qualname or s.op_cls is None or s.call is k:
            continue
        m = s.op_cls.lookup_method("__call__")
        tps = tensor_params_of(facts(run), m.cls, m)
        ret = I.analyse(m, tensor_params=tps, self_cls=s.op_cls).returns
        operand_only = bool(ret.origins) and all(o.startswith("P:") and o.endswith(".data") and o[2:].split(".")[0] in tps for o, _ in ret.origins)
        p = getattr(s.call, "_parent", None)
        unguarded = False
        while p is not None and p is not fi.node:
            if isinstance(p, ast.With) and any(norm(i.context_expr).endswith("mem_guard_off") for i in p.items):
                unguarded = True
            p = getattr(p, "_parent", None)
        ok = operand_only or not unguarded
        run.ob("R08.10", loc(fi, s.call), fi.short, f"internal op {s.op_cls.name}: runs unguarded only if its output is an operand's (already locked) array", ok,
               ("output is an operand's own array" if operand_only else "runs with the guard in force: inputs and the new output array are locked and finalized")
               if ok else f"{s.op_cls.name} brings a new array into the graph (origins {sorted(o for o, _ in ret.origins)}) but runs under mem_guard_off: "
               "that array - the mutated base - is never locked by its own op")
    fl = [c for c in calls_named(fi.node, "force_lock_tensor_and_creators") if c.args and norm(c.args[0]) == res]
    ns = {cfg.stmt_node_containing(c) for c in fl}
    ns.discard(None)
    nk = cfg.stmt_node_containing(k)
    w = None
    if not ns:
        w = [nk, EXIT]
    else:
        for succ in cfg.g.successors(nk):
            if "exc" in cfg.g[nk][succ]["kinds"] and not (cfg.g[nk][succ]["kinds"] - {"exc"}):
                continue
            w = w or cfg.all_paths_hit(succ, ns, exits=(EXIT,))
    run.ob("R08.10", loc(fi, fl[0] if fl else k), fi.short, "with the guard on, the in-place result and its creators are force-locked on every normal path", w is None,
           f"force_lock_tensor_and_creators({res}) cuts every path kernel->EXIT under MEM_GUARD=True" if w is None else
           "after an in-place update the mutated array stays writeable inside a live graph", path=cfg.path_text(w) if w else None)
    cfg0 = build_cfg(run, fi, switch_assumptions(fi, track=True, memguard=False))
    live = [c for c in fl if cfg0.stmt_node_containing(c) is not None and cfg0.reachable(cfg0.stmt_node_containing(c))]
    run.ob("R08.10", loc(fi, fl[0] if fl else k), fi.short, "no force-lock when the guard is off", not live,
           "dead under MEM_GUARD=False" if not live else "arrays get locked although memory guarding is off")


def r08_8(run):
    """force_lock bypasses the 'natively read-only arrays are left alone' rule: only an op's own output may be force-locked"""
    fx = facts(run)
    n = 0
    for fi in run.project.all_functions():
        for c in calls_named(fi.node, "lock_arr_writeability"):
            fl = kw(c, "force_lock")
            if fl is None and len(c.args) >= 2:
                fl = c.args[1]
            if fl is None or (isinstance(fl, ast.Constant) and not fl.value):
                continue
            n += 1
            params = {a.arg for a in fi.node.args.args}
            E = c.args[0] if c.args else None
            ok = isinstance(E, ast.Attribute) and E.attr == "data" and isinstance(E.value, ast.Name) and E.value.id in params \
                and not isinstance(getattr(c, "_parent", None), (ast.GeneratorExp, ast.ListComp))
            run.ob("R08.8", loc(fi, c), fi.short, f"force-lock of {norm(E) if E is not None else '?'}", ok,
                   "the forced lock is on the data of the function's own tensor argument (the in-place result)" if ok else
                   "operands are force-locked: a natively read-only input gets tracked and is made *writeable* when the graph is released")
    run.count("force_lock sites", n)


def r08_5(run):
    """counter typestate in lock_management"""
    lockf = anchor_func(run, f"{LOCKMOD}.lock_arr_writeability")
    relf = anchor_func(run, f"{LOCKMOD}._release_lock_on_arr_writeability")
    mod = run.project.module(LOCKMOD)
    fx = facts(run)
    # (a) writers of _array_counter
    for node in ast.walk(mod.tree):
        tg = []
        if isinstance(node, ast.Assign):
            tg = node.targets
        elif isinstance(node, ast.AugAssign):
            tg = [node.target]
        elif isinstance(node, ast.Delete):
            tg = node.targets
        for t in tg:
            if isinstance(t, ast.Subscript) and dotted(t.value) == "_array_counter":
                fi = fx.owner_function(mod, node)
                kind = "del" if isinstance(node, ast.Delete) else ("aug" if isinstance(node, ast.AugAssign) else "set")
                inc = False
                if kind == "aug":
                    inc = isinstance(node.op, ast.Add)
                elif kind == "set":
                    v = node.value
                    inc = isinstance(v, ast.Constant) and v.value == 1
                    if isinstance(v, ast.BinOp) and isinstance(v.op, ast.Sub):
                        inc = False
                want = lockf if inc else relf
                ok = fi is not None and fi.qualname in owner_closure(run, {want.qualname})
                run.ob("R08.5", loc(mod, node), fi.short if fi else mod.name,
                       f"counter {'increment' if inc else 'decrement/delete'}: {norm(node)[:60]}", ok,
                       f"counter {'incremented only in the lock function' if inc else 'decremented/deleted only in the release function'}"
                       if ok else "lock counter modified outside its owner function")
    # (b) writeable=True only for the last holder: decided by evaluating the release function (helpers inlined) for a counter value of
    #     0, 1 and 2 -- the unlock must be reachable for 1 only -- rather than by the spelling of the test
    rel_closure = owner_closure(run, {relf.qualname})
    for q in sorted(rel_closure):
        f_ = run.project.functions.get(q)
        if f_ is None:
            continue
        if q != relf.qualname and q in getattr(run.project, "absorbed", set()):
            continue  # a private helper every call of which was inlined: its body is judged where it runs, in the release function
        cfg = build_cfg(run, f_)
        counter_names = {assigned_name(n) for n in own_nodes(f_.node) if isinstance(n, ast.Assign) and isinstance(n.value, ast.Subscript)
                         and dotted(n.value.value) == "_array_counter" and assigned_name(n)}
        for n in own_nodes(f_.node):
            if not (isinstance(n, ast.Assign) and any(isinstance(t, ast.Attribute) and t.attr == "writeable" for t in n.targets)
                    and isinstance(n.value, ast.Constant) and n.value.value is True):
                continue
            nn = cfg.node_for(n)
            guards = [g for g, s_ in cfg.stmt.items() if cfg.label[g] == "If" and isinstance(s_, ast.Compare)
                      and isinstance(s_.left, ast.Subscript) and dotted(s_.left.value) == "_array_counter"]
            if any(cfg.edge_dominates(g, "false", nn) for g in guards):
                run.ob("R08.5", loc(f_, n), f_.short, f"unlock waiting view {norm(n.targets[0])}", True,
                       "executed only on the false edge of `_array_counter[view] > 0`")
                continue
            if f_.qualname != relf.qualname and not counter_names:
                run.ob("R08.5", loc(f_, n), f_.short, f"unlock waiting view {norm(n.targets[0])}", False,
                       "a view waiting for its base can be unlocked while a live op still holds it")
                continue
            verdict = {}
            for cn in sorted(counter_names):
                for val in (0, 1, 2):
                    c_ = build_cfg(run, f_, {cn: val})
                    m_ = c_.node_for(n)
                    verdict[val] = verdict.get(val, False) or (m_ is not None and c_.reachable(m_))
            ok = bool(counter_names) and verdict.get(1) is True and verdict.get(0) is False and verdict.get(2) is False
            run.ob("R08.5", loc(f_, n), f_.short, f"unlock {norm(n.targets[0])}", ok,
                   "reachable exactly when the counter read from _array_counter is 1 (last holder): evaluated for 0, 1, 2" if ok else
                   f"reachability of the unlock for a lock count of 0/1/2: {verdict}" + ("" if counter_names else " (no local holds the count)") +
                   " -- the array can be made writeable while other live ops still hold a lock on it")
    # (c) natively read-only arrays are not tracked unless forced
    cfg = build_cfg(run, lockf)
    stores = {cfg.node_for(n) for n in own_nodes(lockf.node)
              if isinstance(n, (ast.Assign, ast.AugAssign)) and any(
                  isinstance(t, ast.Subscript) and dotted(t.value) == "_array_counter"
                  for t in (n.targets if isinstance(n, ast.Assign) else [n.target]))}
    stores.discard(None)
    early = []
    for n, s in cfg.stmt.items():
        if cfg.label[n] == "If" and "force_lock" in norm(s) and "writeable" in norm(s):
            early.append(n)
    if not stores or not early:
        raise AnalysisError(f"{lockf.short}: cannot find counter stores / the read-only early exit")
    w = cfg.all_paths_hit(ENTRY, stores | set(early), exits=(EXIT,))
    run.ob("R08.5", loc(lockf, lockf.node), lockf.short, "every return either counted the array or took the read-only early exit",
           w is None, "graph-cut over counter stores and the `not force_lock and not writeable` test" if w is None else
           "an array can be returned as locked without being counted", path=cfg.path_text(w) if w else None)
    # a newly tracked array starts at exactly one holder (a stale count left under a recycled id() must not be inherited)
    cfgn = build_cfg(run, lockf, {"array_is_tracked(arr)": False, "not array_is_tracked(arr)": True})
    first = [n for n in own_nodes(lockf.node) if isinstance(n, (ast.Assign, ast.AugAssign)) and any(
        isinstance(t, ast.Subscript) and dotted(t.value) == "_array_counter" for t in (n.targets if isinstance(n, ast.Assign) else [n.target]))
        and cfgn.node_for(n) is not None and cfgn.reachable(cfgn.node_for(n))]
    ok = bool(first) and all(isinstance(n, ast.Assign) and isinstance(n.value, ast.Constant) and n.value.value == 1 for n in first)
    run.ob("R08.5", loc(lockf, first[0] if first else lockf.node), lockf.short, "an untracked array's counter is *set* to 1 (not incremented)", ok,
           "`_array_counter[id] = 1` on the not-tracked path" if ok else
           "the first lock increments whatever count is stored under this id(): a stale entry left by a collected array keeps the new array locked forever")
    # the flag is cleared on every counted path
    clr = {cfg.node_for(n) for n in own_nodes(lockf.node) if isinstance(n, ast.Assign)
           and any(isinstance(t, ast.Attribute) and t.attr == "writeable" for t in n.targets)
           and isinstance(n.value, ast.Constant) and n.value.value is False}
    clr.discard(None)
    guard_w = {n for n, s in cfg.stmt.items() if cfg.label[n] == "If" and norm(s).replace(" ", "") in
               ("arr.flags.writeableisTrue", "arr.flags.writeable")}
    for s in sorted(stores):
        w = cfg.all_paths_hit(s, clr | guard_w, exits=(EXIT,))
        run.ob("R08.5", loc(lockf, cfg.stmt[s]), lockf.short, f"counted path clears the flag ({norm(cfg.stmt[s])[:40]})", w is None,
               "every path from a counter store to the return passes `flags.writeable = False` (or its is-already-false test)"
               if w is None else "an array is counted as locked but left writeable", path=cfg.path_text(w) if w else None)


def r08_6(run):
    """the output array (and, for out= targets, its base) is locked and registered before returning"""
    fi = anchor_func(run, OP)
    assume = switch_assumptions(fi, track=True, memguard=True)
    cfg = build_cfg(run, fi, assume)
    rets = [n for n in own_nodes(fi.node) if isinstance(n, ast.Return) and isinstance(n.value, ast.Name)]
    done = 0
    for r in rets:
        rn = cfg.node_for(r)
        if rn is None or not cfg.reachable(rn):
            continue
        res = r.value.id
        if res == "out":
            continue  # delegation to _in_place_op
        locks = {cfg.stmt_node_containing(c) for c in calls_named(fi.node, "lock_arr_writeability")
                 if c.args and norm(c.args[0]) == f"{res}.data"}
        locks.discard(None)
        ok = bool(locks) and cfg.set_dominates(locks, rn)
        done += 1
        run.ob("R08.6", loc(fi, r), fi.short, f"output {res}.data locked before return", ok,
               "a lock_arr_writeability(<out>.data) node cuts every path ENTRY->return" if ok else
               "the operation's output array can be returned unlocked while the graph is live")
    if not done:
        raise AnalysisError(f"{fi.short}: no tracked return found")
    # an ndarray out= target that is a view: its base is locked under exactly `out is not None and <result>.data.base is not None`
    for r in rets:
        res = r.value.id
        if res == "out":
            continue
        from .util import projection_aliases, sem
        _al = projection_aliases(fi.node)
        base_locks = [c for c in calls_named(fi.node, "lock_arr_writeability") if c.args and sem(c.args[0], _al) == f"{res}.data.base"]
        if not base_locks:
            run.ob("R08.6", loc(fi, r), fi.short, f"base of an out= view target is locked", False,
                   "no lock_arr_writeability(<result>.data.base): writing into a view leaves its owner writeable inside a live graph")
            continue
        cfg2 = build_cfg(run, fi, dict(assume, **{"out is not None": True, f"{res}.data.base is not None": True,
                                                   f"isinstance({res}.data.base, np.ndarray)": True, f"isinstance({res}.data.base, ndarray)": True,
                                                   f"out is not None and {res}.data.base is not None": True,
                                                   f"out is not None and isinstance({res}.data.base, np.ndarray)": True}))
        ns = {cfg2.stmt_node_containing(c) for c in base_locks}
        ns.discard(None)
        rn2 = cfg2.node_for(r)
        if rn2 is None or not cfg2.reachable(rn2):
            continue  # this return belongs to another mode (e.g. an early exit when the guard is off)
        ok = bool(ns) and cfg2.set_dominates(ns, rn2)
        run.ob("R08.6", loc(fi, base_locks[0]), fi.short, f"base of an out= view target is locked whenever out is given and the result has a base", ok,
               "under {out is not None, result.data.base is not None} the base lock cuts every path to the return" if ok else
               "an extra condition can skip the lock of the out= target's base (e.g. 'already tracked'): its count is then one short and the "
               "first graph to be cleared unlocks it under the op that wrote into the view")
        # ... and without out=: a result that is a view of a temporary (x.T.reshape(-1), roll, conv_nd) has a writeable base too
        cfg3 = build_cfg(run, fi, dict(assume, **{"out is not None": False, "out is None": True, f"{res}.data.base is not None": True,
                                                   f"isinstance({res}.data.base, np.ndarray)": True, f"isinstance({res}.data.base, ndarray)": True}))
        ns3 = {cfg3.stmt_node_containing(c) for c in base_locks}
        ns3.discard(None)
        rn3 = cfg3.node_for(r)
        ok3 = bool(ns3) and rn3 is not None and cfg3.set_dominates(ns3, rn3)
        run.ob("R08.6", loc(fi, base_locks[0]), fi.short, f"base of the result array is locked whenever the result has an ndarray base (out= or not)", ok3,
               "under {out is None, isinstance(result.data.base, ndarray)} the base lock cuts every path to the return" if ok3 else
               "without out= the base of the result is never locked: a result that is a view of a temporary (x.T.reshape(-1), roll, conv_nd) can be "
               "rewritten through `y.data.base[...] = v` although y belongs to a live graph")


def r08_11(run):
    """`ndarray.base` is "the object the memory comes from": an ndarray, but also bytes / mmap / the DummyArray of NumPy's stride tricks.
    Wherever the lock machinery treats `<arr>.base` as an array (reads .flags, yields it to the locking loop, locks or registers it), the use must
    be guarded by an ndarray type test; `is not None` lets a foreign object through, the lock routine raises AttributeError half-way and the
    locks already taken are never released."""
    n = 0
    for fi in run.project.all_functions():
        in_lock = fi.module.name == LOCKMOD
        uses = []
        for x in own_nodes(fi.node):
            if not (isinstance(x, ast.Attribute) and x.attr == "base" and isinstance(x.ctx, ast.Load)):
                continue
            recv = norm(x.value)
            if not (in_lock or recv.endswith(".data")):
                continue  # Tensor.base (a tensor or None) is something else
            par = getattr(x, "_parent", None)
            as_array = None
            if isinstance(par, ast.Attribute) and par.value is x:
                as_array = f"reads .{par.attr}"
            elif isinstance(par, (ast.Yield, ast.YieldFrom)):
                as_array = "is yielded to the locking loop"
            elif isinstance(par, ast.Call) and x in par.args:
                callee = (dotted(par.func) or "").split(".")[-1]
                if callee in ("lock_arr_writeability", "append", "_release_lock_on_arr_writeability", "force_lock_tensor_and_creators"):
                    as_array = f"is passed to {callee}"
            if as_array:
                uses.append((x, as_array))
        if not uses:
            continue
        cfg = build_cfg(run, fi)
        for x, how in uses:
            n += 1
            nx_ = cfg.stmt_node_containing(x)
            txt = norm(x)
            tests = [t for t, s in cfg.stmt.items() if cfg.label[t] == "If" and f"isinstance({txt}, " in norm(s) and "ndarray" in norm(s)]
            ok = nx_ is not None and any(cfg.edge_dominates(t, "true", nx_) or (t == nx_ and _conj_before(cfg.stmt[t], txt, x)) for t in tests)
            run.ob("R08.11", loc(fi, x), fi.short, f"`{txt}` {how} only under isinstance({txt}, np.ndarray)", ok,
                   "guarded by an ndarray type test" if ok else
                   f"`{txt}` may be a non-array buffer owner (bytes, mmap, stride-tricks DummyArray): guarded by `is not None` only, the lock machinery raises "
                   f"AttributeError on it after other operands were already locked, and those locks are never released")
    run.count("array-typed uses of ndarray.base in the lock machinery", n)


def _conj_before(test: ast.AST, txt: str, use: ast.AST) -> bool:
    """`isinstance(X.base, np.ndarray) and X.base.flags...`: the use sits in a later conjunct of the same test"""
    if isinstance(test, ast.BoolOp) and isinstance(test.op, ast.And):
        for i, v in enumerate(test.values):
            if f"isinstance({txt}, " in norm(v) and "ndarray" in norm(v):
                return any(use in list(ast.walk(w)) for w in test.values[i + 1:])
    return False


def check(run):
    run.rule("R08.1", "Tensor._op: from the acquisition of the input locks every path to EXIT/RAISE (exceptional edges from "
             "may-raise calls included) passes release_writeability_lock_on_op(coll) or finalize(f, release, coll)", floor=3)
    run.rule("R08.2", "every lock_arr_writeability(E) in _op / force_lock_tensor_and_creators registers E in the finalized collection", floor=4)
    run.rule("R08.3", "the writeable flag is written only in lock_management or on a private copy", floor=3)
    run.rule("R08.4", "unique_arrs_and_bases yields a base before its view, and every unseen array/base unconditionally", floor=3)
    run.rule("R08.7", "the waiting-view set is wiped only when _array_tracker is empty; tracker entries are removed only by the release function", floor=2)
    run.rule("R08.10", "_in_place_op: internal op calls run under mem_guard_off; the result is force-locked iff the guard is on", floor=3)
    run.rule("R08.9", "release_writeability_lock_on_op is called directly only on the acquiring function's error path; never twice on a path", floor=2)
    run.rule("R08.8", "force_lock=True only for an op's own output array", floor=1)
    run.rule("R08.5", "lock counter typestate: ++ only in lock, --/del only in release, writeable=True only for the last holder", floor=6)
    run.rule("R08.6", "the op's output array is locked on every tracked, guarded return", floor=1)
    run.do(r08_1, "TRACK_GRAPH=T,MEM_GUARD=T", dict(track=True, memguard=True))
    if run.tier == "thorough":
        # the remaining specialisations: the acquisition must be dead (no lock without tracking + guard)
        for t, m in ((True, False), (False, True), (False, False)):
            r08_1(run, f"TRACK_GRAPH={'T' if t else 'F'},MEM_GUARD={'T' if m else 'F'}", dict(track=t, memguard=m))
    run.do(r08_2)
    run.do(r08_3)
    run.do(r08_4)
    run.do(r08_4b)
    run.do(r08_5)
    run.do(r08_7)
    run.do(r08_8)
    run.do(r08_9)
    run.do(r08_10)
    run.do(r08_6)
    run.rule("R08.11", "the lock machinery treats `<arr>.base` as an array only under an ndarray type test", floor=3)
    run.do(r08_11)
    run.assume("may-raise = explicit `raise` (not `# pragma: no cover`) reachable through resolved repo calls; NumPy/builtin calls "
               "outside the guarded forward call are assumed not to raise")
