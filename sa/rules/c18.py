"""C18 -- save/load round trip: writer/reader agreement, purity of save, dtype-preserving load."""
from __future__ import annotations

import ast

from ..cfg import ENTRY, EXIT, RAISE
from ..common import calls_named, dotted, kw, loc, norm
from ..model import AnalysisError, External, own_nodes
from .util import anchor_func, assigned_name, build_cfg, facts

SAVE = "mygrad._io.save"
LOAD = "mygrad._io.load"


def check(run):
    run.rule("R18.1", "keys written by save (np.savez keywords) == keys read by load; `file` reaches savez / np.load unmodified; data always written, "
             "grad exactly when tensor.grad is not None", floor=6)
    run.rule("R18.2", "save is pure: reads only tensor.data / tensor.grad, stores nothing, calls no tensor method", floor=3)
    run.rule("R18.3", "load rebuilds the tensor from loaded[data] without a dtype argument and restores the gradient by backward(loaded[grad]) on it", floor=4)
    fx = facts(run)
    sv, ld = anchor_func(run, SAVE), anchor_func(run, LOAD)
    file_p, tensor_p = [a.arg for a in sv.node.args.args][:2]
    lfile = ld.node.args.args[0].arg
    cfg = build_cfg(run, sv)
    savez = [c for c in own_nodes(sv.node) if isinstance(c, ast.Call) and fx.ext_name_of(sv, c.func) in ("numpy.savez", "numpy.savez_compressed")]
    if not savez:
        raise AnalysisError(f"{sv.short}: no numpy.savez call")
    written = set()
    for c in savez:
        ks = {k.arg for k in c.keywords if k.arg}
        written |= ks
        ok = bool(c.args) and norm(c.args[0]) == file_p and len(c.args) == 1 and not any(k.arg is None for k in c.keywords)
        run.ob("R18.1", loc(sv, c), sv.short, f"savez({norm(c.args[0]) if c.args else '?'}, {sorted(ks)})", ok,
               "the caller's file object/path is passed through unmodified; arrays passed by keyword" if ok else
               "file argument rewritten or arrays passed positionally (keys become arr_0...)")
        for k in c.keywords:
            want = {"data": f"{tensor_p}.data", "grad": f"{tensor_p}.grad"}.get(k.arg)
            ok = want is not None and norm(k.value) == want
            run.ob("R18.1", loc(sv, c), sv.short, f"key {k.arg!r} <- {norm(k.value)}", ok,
                   "stores the tensor's own array" if ok else "a key is fed from something other than tensor.data / tensor.grad (dtype/shape not preserved)")
    # data written on every normal path; grad only/always under `tensor.grad is not None`
    nodes = {cfg.stmt_node_containing(c) for c in savez if any(k.arg == "data" for k in c.keywords)}
    w = cfg.all_paths_hit(ENTRY, nodes, exits=(EXIT,))
    run.ob("R18.1", loc(sv, sv.node), sv.short, "the data key is written on every normal path", w is None,
           "graph-cut" if w is None else "save can return without writing", path=cfg.path_text(w) if w else None)
    for val, lab in ((True, "has a gradient"), (False, "has no gradient")):
        c1 = build_cfg(run, sv, {f"{tensor_p}.grad is not None": val, f"{tensor_p}.grad is None": not val})
        reach = [c for c in savez if c1.stmt_node_containing(c) is not None and c1.reachable(c1.stmt_node_containing(c))]
        has = [any(k.arg == "grad" for k in c.keywords) for c in reach]
        ok = bool(reach) and all(h == val for h in has)
        run.ob("R18.1", loc(sv, sv.node), sv.short, f"tensor {lab}: grad key {'written' if val else 'absent'}", ok,
               "specialised CFG: every reachable savez call has the expected key set" if ok else
               "gradient presence is not faithfully recorded in the archive")
    # reader
    loads = [c for c in own_nodes(ld.node) if isinstance(c, ast.Call) and fx.ext_name_of(ld, c.func) == "numpy.load"]
    if len(loads) != 1:
        raise AnalysisError(f"{ld.short}: expected one numpy.load call")
    lc = loads[0]
    arch = assigned_name(lc._parent) if isinstance(getattr(lc, "_parent", None), ast.Assign) else None
    ok = bool(lc.args) and norm(lc.args[0]) == lfile and arch is not None
    run.ob("R18.1", loc(ld, lc), ld.short, f"np.load({norm(lc.args[0]) if lc.args else '?'})", ok,
           "the caller's file is passed through unmodified" if ok else "file argument rewritten")
    read = set()
    for n in own_nodes(ld.node):
        if isinstance(n, ast.Subscript) and norm(n.value) == arch and isinstance(n.slice, ast.Constant):
            read.add(n.slice.value)
        if isinstance(n, ast.Compare) and isinstance(n.ops[0], (ast.In, ast.NotIn)) and norm(n.comparators[0]) == arch \
                and isinstance(n.left, ast.Constant):
            read.add(n.left.value)
    run.ob("R18.1", loc(ld, ld.node), ld.short, f"keys read {sorted(read)} == keys written {sorted(written)}", read == written,
           "writer and reader agree on the archive's key set" if read == written else
           "save and load disagree on key names: data or gradient is silently lost on a round trip")
    for f_, pname in ((sv, file_p), (ld, lfile)):
        uses = [n for n in own_nodes(f_.node) if isinstance(n, ast.Name) and n.id == pname and isinstance(n.ctx, ast.Load)]
        bad = []
        for u in uses:
            par = getattr(u, "_parent", None)
            if isinstance(par, ast.Call) and u in par.args and par.args.index(u) == 0 and \
                    (fx.ext_name_of(f_, par.func) or "") in ("numpy.savez", "numpy.load", "numpy.savez_compressed"):
                continue
            bad.append(u)
        stores = [n for n in own_nodes(f_.node) if isinstance(n, ast.Name) and n.id == pname and isinstance(n.ctx, ast.Store)]
        run.ob("R18.1", loc(f_, bad[0] if bad else f_.node), f_.short, f"`{pname}` is only handed to NumPy's archive routine (never seeked, reopened or rebound)",
               not bad and not stores, "single use as first argument of np.savez / np.load" if not bad and not stores else
               f"`{pname}` is also used at line {(bad or stores)[0].lineno}: the position / identity of a caller-supplied file object is changed")
    # R18.2 purity of save
    stores = [n for n in own_nodes(sv.node) if isinstance(n, (ast.Assign, ast.AugAssign, ast.Delete))
              and any(isinstance(t, (ast.Attribute, ast.Subscript)) for t in (n.targets if not isinstance(n, ast.AugAssign) else [n.target]))]
    run.ob("R18.2", loc(sv, sv.node), sv.short, "save performs no attribute/item store", not stores,
           "no store statement targets an attribute or item" if not stores else f"save mutates state: {norm(stores[0])[:60]}")
    attrs = {n.attr for n in own_nodes(sv.node) if isinstance(n, ast.Attribute) and norm(n.value) == tensor_p}
    ok = attrs <= {"data", "grad"}
    run.ob("R18.2", loc(sv, sv.node), sv.short, f"attributes of the tensor used by save: {sorted(attrs)}", ok,
           "only .data and .grad are read" if ok else f"save touches {sorted(attrs - {'data', 'grad'})}")
    meth = [c for c in own_nodes(sv.node) if isinstance(c, ast.Call) and isinstance(c.func, ast.Attribute)
            and (norm(c.func.value) == tensor_p or norm(c.func.value).startswith(tensor_p + "."))]
    run.ob("R18.2", loc(sv, sv.node), sv.short, "save calls no method of the tensor (no backward/clear_graph/null_grad/copy)", not meth,
           "no method call on the tensor or its arrays" if not meth else f"calls {norm(meth[0].func)}")
    callees = sorted({fx.ext_name_of(sv, c.func) or norm(c.func) for c in own_nodes(sv.node) if isinstance(c, ast.Call)})
    allowed = {"numpy.savez", "builtins.isinstance", "builtins.TypeError", "builtins.type"}
    ok = set(callees) <= allowed
    run.ob("R18.2", loc(sv, sv.node), sv.short, f"call closure of save: {callees}", ok,
           "only isinstance / type / TypeError / numpy.savez" if ok else f"unexpected callee(s) {sorted(set(callees) - allowed)}")
    # R18.3 load
    cfgl = build_cfg(run, ld)
    builds = [n for n in own_nodes(ld.node) if isinstance(n, ast.Assign) and isinstance(n.value, ast.Call)
              and (dotted(n.value.func) or "").split(".")[-1] in ("tensor", "Tensor", "astensor")]
    if len(builds) != 1:
        raise AnalysisError(f"{ld.short}: expected one tensor construction")
    b = builds[0]
    tname = assigned_name(b)
    c = b.value
    ok = len(c.args) == 1 and norm(c.args[0]) == f"{arch}['data']" and kw(c, "dtype") is None and kw(c, "constant") is None
    run.ob("R18.3", loc(ld, b), ld.short, f"tensor rebuilt as {norm(c)[:60]}", ok,
           "constructed from loaded['data'] alone: dtype and shape are the archive's" if ok else
           "load passes dtype/constant or other data: dtype not preserved")
    bws = [c2 for c2 in calls_named(ld.node, "backward") if norm(c2.func.value) == tname]
    ok = len(bws) == 1 and len(bws[0].args) == 1 and norm(bws[0].args[0]) == f"{arch}['grad']"
    run.ob("R18.3", loc(ld, bws[0] if bws else ld.node), ld.short, "gradient restored by <tensor>.backward(loaded['grad'])", ok,
           "seeding path of Tensor.backward casts to the tensor's dtype and validates the shape (C14)" if ok else
           "gradient is not restored through backward(loaded['grad']) on the rebuilt tensor")
    if bws:
        nb = cfgl.stmt_node_containing(bws[0])
        tests = [n for n, s in cfgl.stmt.items() if cfgl.label[n] == "If" and norm(s) == f"'grad' in {arch}"]
        ok = any(cfgl.edge_dominates(t, "true", nb) for t in tests)
        run.ob("R18.3", loc(ld, bws[0]), ld.short, "gradient restored exactly when the archive has a grad key", ok,
               "backward call edge-dominated by the true edge of `'grad' in loaded`" if ok else "gradient restored unconditionally / never")
        c2 = build_cfg(run, ld, {f"'grad' in {arch}": True})
        n2 = c2.stmt_node_containing(bws[0])
        w = c2.all_paths_hit(ENTRY, {n2}, exits=(EXIT,))
        run.ob("R18.3", loc(ld, bws[0]), ld.short, "with a grad key present the restore is on every path", w is None,
               "graph-cut" if w is None else "restore can be skipped")
    rets = [n for n in own_nodes(ld.node) if isinstance(n, ast.Return)]
    ok = bool(rets) and all(r.value is not None and norm(r.value) == tname for r in rets)
    run.ob("R18.3", loc(ld, rets[0] if rets else ld.node), ld.short, "load returns the rebuilt tensor itself", ok,
           "return <tensor>" if ok else "load returns something derived (copy/astype drops the gradient)")
