"""C03 -- forward results agree with NumPy: option forwarding to the kernels, tracking-independent values, weak scalars."""
from __future__ import annotations

import ast
from typing import Dict, List, Optional, Set

from ..cfg import ENTRY, EXIT, RAISE, reaching_defs
from ..common import calls_named, dotted, kw, loc, norm
from ..model import AnalysisError, ClassInfo, External, FunctionInfo, own_nodes
from .util import anchor_func, assigned_name, build_cfg, facts, switch_assumptions
from . import opcontract

TENSOR = "mygrad.tensor_base.Tensor"

OB = "mygrad.operation_base"
SENTINELS = {"True", "_NoValue", "None"}


def _sentinel_test_params(test: ast.AST) -> Dict[str, Set[str]]:
    """`p is not S [and p is not S2 ...]`  ->  {p: {S, S2}}; anything else -> {}"""
    parts = test.values if isinstance(test, ast.BoolOp) and isinstance(test.op, ast.And) else [test]
    out: Dict[str, Set[str]] = {}
    for p in parts:
        if isinstance(p, ast.Compare) and len(p.ops) == 1 and isinstance(p.ops[0], ast.IsNot) and isinstance(p.left, ast.Name) \
                and norm(p.comparators[0]) in SENTINELS:
            out.setdefault(p.left.id, set()).add(norm(p.comparators[0]))
        else:
            return {}
    return out


def _sentinel_test(test: ast.AST):
    """-> ({p: {S,...}}, edge on which p was GIVEN): `p is not S and p is not S2` -> 'true';  `p is S or p is S2` / `not (...)` -> 'false'"""
    given = _sentinel_test_params(test)
    if given:
        return given, "true"
    if isinstance(test, ast.UnaryOp) and isinstance(test.op, ast.Not):
        inner, edge = _sentinel_test(test.operand)
        return inner, ("false" if edge == "true" else "true") if inner else None
    parts = test.values if isinstance(test, ast.BoolOp) and isinstance(test.op, ast.Or) else [test]
    out: Dict[str, Set[str]] = {}
    for p in parts:
        if isinstance(p, ast.Compare) and len(p.ops) == 1 and isinstance(p.ops[0], ast.Is) and isinstance(p.left, ast.Name) \
                and norm(p.comparators[0]) in SENTINELS:
            out.setdefault(p.left.id, set()).add(norm(p.comparators[0]))
        else:
            return {}, None
    return out, "false"


def r03_1(run):
    for q, kernel_attr in ((f"{OB}.UnaryUfunc.__call__", "numpy_ufunc"), (f"{OB}.BinaryUfunc.__call__", "numpy_ufunc"),
                           (f"{OB}.Sequential.__call__", "numpy_func")):
        fi = anchor_func(run, q)
        cfg = build_cfg(run, fi)
        v = opcontract.variables_of(run, fi.cls)
        tensors = set(v.params) if v else set()
        kcalls = [c for c in own_nodes(fi.node) if isinstance(c, ast.Call) and norm(c.func) == f"self.{kernel_attr}"]
        if not kcalls:
            raise AnalysisError(f"{fi.short}: kernel call self.{kernel_attr}(...) not found")
        params = [p for p in fi.params()[1:] if not p.startswith("*") and p not in tensors]
        # tensor operands reach the kernel as <t>.data in order
        for k in kcalls:
            from .util import projection_aliases, sem
            al = projection_aliases(fi.node)
            lead = [sem(a, al) for a in k.args[: len(v.params)]] if v else []
            ok = v is not None and lead == [f"{t}.data" for t in v.params]
            run.ob("R03.1", loc(fi, k), fi.short, f"kernel receives the operands' arrays in order {lead}", ok,
                   "x.data of each recorded variable, positionally" if ok else "operands crossed / not the tensors' arrays")
        tests2 = {n: _sentinel_test(s) for n, s in cfg.stmt.items() if cfg.label[n] == "If"}
        tests2 = {n: v_ for n, v_ in tests2.items() if v_[0]}
        other = {"true": "false", "false": "true"}
        for p in params:
            for k in kcalls:
                nk = cfg.stmt_node_containing(k)
                direct = any(kk.arg == p and norm(kk.value) == p for kk in k.keywords)
                if direct:
                    # must not be overwritten before: reaching definition is the parameter
                    ok = reaching_defs(cfg, p, nk) == [ENTRY]
                    run.ob("R03.1", loc(fi, k), fi.short, f"option {p} forwarded as {p}={p}", ok,
                           "the parameter itself reaches the kernel keyword" if ok else f"{p} is rebound before the kernel call")
                    continue
                # via a splatted dict built incrementally
                splat = [kk for kk in k.keywords if kk.arg is None and isinstance(kk.value, ast.Name)]
                done = False
                for sp_ in splat:
                    d = sp_.value.id
                    # the option is written into the dict where the dict is built: d = {"out": out, "dtype": dtype} / dict(out=out, dtype=dtype)
                    lits = []
                    for s_ in own_nodes(fi.node):
                        if isinstance(s_, ast.Assign) and assigned_name(s_) == d:
                            v_ = s_.value
                            if isinstance(v_, ast.Dict) and any(isinstance(k_, ast.Constant) and k_.value == p and norm(x_) == p for k_, x_ in zip(v_.keys, v_.values)):
                                lits.append(s_)
                            elif isinstance(v_, ast.Call) and dotted(v_.func) == "dict" and any(kk_.arg == p and norm(kk_.value) == p for kk_ in v_.keywords):
                                lits.append(s_)
                    if lits:
                        nl = cfg.node_for(lits[0])
                        redefs = [s_ for s_ in own_nodes(fi.node) if isinstance(s_, ast.Assign) and assigned_name(s_) == d and s_ is not lits[0]]
                        ok = nl is not None and cfg.dominates(nl, nk) and not redefs and reaching_defs(cfg, p, nl) == [ENTRY]
                        run.ob("R03.1", loc(fi, lits[0]), fi.short, f"option {p} forwarded through **{d} (written where the dict is built)", ok,
                               f"{d} = {{..., {p!r}: {p}, ...}} dominates the kernel call" if ok else f"a caller-supplied {p} can fail to reach the NumPy kernel")
                        done = True
                        continue
                    sets = [s for s in own_nodes(fi.node) if isinstance(s, ast.Assign) and isinstance(s.targets[0], ast.Subscript)
                            and norm(s.targets[0].value) == d and isinstance(s.targets[0].slice, ast.Constant)
                            and s.targets[0].slice.value == p and norm(s.value) == p]
                    if sets:
                        ns = cfg.node_for(sets[0])
                        guard_ok = any(p in tp and cfg.edge_dominates(n, edge, ns) for n, (tp, edge) in tests2.items())
                        c1 = build_cfg(run, fi, {f"{p} is not {s}": True for s in SENTINELS})
                        w = c1.all_paths_hit(ENTRY, {c1.node_for(sets[0])}, exits=(c1.stmt_node_containing(k),))
                        ok = guard_ok and w is None and reaching_defs(cfg, p, ns) == [ENTRY]
                        run.ob("R03.1", loc(fi, sets[0]), fi.short, f"option {p} forwarded through **{d} unless it holds its not-given sentinel", ok,
                               f"{d}[{p!r}] = {p} on the true edge of `{p} is not <sentinel>`, on every path to the kernel when given" if ok else
                               f"a caller-supplied {p} can fail to reach the NumPy kernel")
                        done = True
                if done:
                    continue
                # not passed: only acceptable where p provably holds a sentinel
                ok = any(set(tp) == {p} and cfg.edge_dominates(n, other[edge], nk) for n, (tp, edge) in tests2.items())
                run.ob("R03.1", loc(fi, k), fi.short, f"kernel call without {p}= is only reached when {p} holds a sentinel", ok,
                       f"call lies on the false edge of `{p} is not <sentinel> [and ...]`" if ok else
                       f"option {p} is silently ignored by {fi.short}")
        run.count("kernel calls in base __call__s", len(kcalls))


def _dead_params(fi: FunctionInfo) -> List[str]:
    used = {n.id for n in own_nodes(fi.node) if isinstance(n, ast.Name) and isinstance(n.ctx, ast.Load)}
    # nested functions / lambdas / comprehensions
    for n in ast.walk(fi.node):
        if isinstance(n, ast.Name) and isinstance(n.ctx, ast.Load):
            used.add(n.id)
    out = []
    a = fi.node.args
    for p in a.posonlyargs + a.args + a.kwonlyargs + ([a.vararg] if a.vararg else []) + ([a.kwarg] if a.kwarg else []):
        if p.arg in ("self", "cls"):
            continue
        if p.arg not in used:
            out.append(p.arg)
    return out


def r03_2(run):
    """no dead parameter in any op __call__ / wrapper; single-expression wrappers forward every parameter into the _op call"""
    sites = opcontract.op_sites(run)
    seen = set()
    n = 0
    for c in run.project.concrete_ops():
        m = c.lookup_method("__call__")
        if m.qualname in seen:
            continue
        seen.add(m.qualname)
        n += 1
        dead = _dead_params(m)
        run.ob("R03.2", loc(m, m.node), m.short, "no dead parameter in the forward pass", not dead,
               f"all {len(m.params()) - 1} parameters are read" if not dead else f"parameter(s) {dead} are accepted but never used: the option is silently ignored")
    for s in sites:
        fi = s.fi
        if fi.qualname in seen or fi.cls is not None and fi.name.startswith("__") and fi.name not in ("__call__",):
            continue
        if fi.name in ("_op", "_in_place_op", "_replay_op"):
            continue
        seen.add(fi.qualname)
        n += 1
        stub = all(isinstance(b, (ast.Expr, ast.Pass)) for b in fi.node.body)
        if stub:
            continue
        dead = _dead_params(fi)
        run.ob("R03.2", loc(fi, fi.node), fi.short, "no dead parameter in the wrapper", not dead,
               "every parameter is read" if not dead else f"parameter(s) {dead} never used")
        body = [b for b in fi.node.body if not (isinstance(b, ast.Expr) and isinstance(b.value, ast.Constant))]
        if len(body) == 1 and isinstance(body[0], ast.Return) and body[0].value is s.call:
            inside = {x.id for x in ast.walk(s.call) if isinstance(x, ast.Name)}
            miss = [p.lstrip("*") for p in fi.params() if p.lstrip("*") not in inside and p not in ("self", "cls")]
            run.ob("R03.2", loc(fi, s.call), fi.short, "every parameter of the one-line wrapper appears in its _op call", not miss,
                   "all forwarded" if not miss else f"{miss} not forwarded to the operation")
            # keyword fed from the like-named parameter
            bad = [k for k, v in (s.op_kwargs or {}).items() if isinstance(v, ast.Name) and v.id != k and v.id in fi.params()]
            run.ob("R03.2", loc(fi, s.call), fi.short, "op_kwargs keys are fed from like-named parameters", not bad,
                   "key == parameter name" if not bad else f"crossed options: {[(k, norm(s.op_kwargs[k])) for k in bad]}")
    run.count("forward passes / wrappers examined", n)


def _mutates(stmt: ast.AST) -> Set[str]:
    """local names whose object is mutated in place by the statement (subscript/attribute store, augmented assignment, out=)"""
    out: Set[str] = set()
    tg = []
    if isinstance(stmt, ast.Assign):
        tg = stmt.targets
    elif isinstance(stmt, ast.AugAssign):
        tg = [stmt.target]
    for t in tg:
        b = t
        while isinstance(b, (ast.Subscript, ast.Attribute)):
            b = b.value
        if isinstance(b, ast.Name) and (b is not t or isinstance(stmt, ast.AugAssign)) and b.id != "self":
            out.add(b.id)
    if isinstance(stmt, (ast.Expr, ast.Assign, ast.AugAssign)):
        for c in ast.walk(stmt):
            if isinstance(c, ast.Call):
                o = kw(c, "out")
                if isinstance(o, ast.Name):
                    out.add(o.id)
    return out


def value_slice(cfg, names: Set[str], at: int) -> Set[int]:
    """CFG nodes (definitions and in-place mutations) the values of `names` at node `at` may depend on."""
    import networkx as nx
    seen: Set[int] = set()
    work = [(n, at) for n in names]
    done = set()
    muts = {n: _mutates(s) for n, s in cfg.stmt.items() if isinstance(s, ast.stmt)}
    anc_cache = {}
    while work:
        name, node = work.pop()
        if (name, node) in done:
            continue
        done.add((name, node))
        cands = [d for d in reaching_defs(cfg, name, node) if d != ENTRY]
        if node not in anc_cache:
            anc_cache[node] = nx.ancestors(cfg.g, node)
        cands += [m for m, ns in muts.items() if name in ns and m in anc_cache[node]]
        for d in cands:
            st = cfg.stmt[d]
            if d not in seen:
                seen.add(d)
            src = getattr(st, "value", None)
            if isinstance(st, (ast.For,)):
                src = st.iter
            if src is None:
                continue
            for y in ast.walk(src):
                if isinstance(y, ast.Name) and isinstance(y.ctx, ast.Load):
                    work.append((y.id, d))
    return seen


def r03_3(run):
    """values do not depend on TRACK_GRAPH: no definition/mutation in the backward slice of a returned value is control
    dependent on the switch, and all returns return the same value"""
    n = 0
    for c in run.project.concrete_ops():
        m = c.methods.get("__call__")
        if m is None:
            continue
        reads = [x for x in own_nodes(m.node) if (isinstance(x, ast.Attribute) and x.attr == "TRACK_GRAPH")
                 or (isinstance(x, ast.Name) and x.id == "TRACK_GRAPH" and isinstance(x.ctx, ast.Load))]
        if not reads:
            continue
        n += 1
        cfg = build_cfg(run, m)
        tests = []
        ifexp_bad = None
        for rd in reads:
            holder = getattr(rd, "_parent", None)
            while holder is not None and not isinstance(holder, (ast.If, ast.IfExp, ast.stmt)):
                holder = getattr(holder, "_parent", None)
            if isinstance(holder, ast.If):
                tn = cfg.node_for(holder)
                if tn is not None:
                    tests.append(tn)
            elif isinstance(holder, ast.IfExp):
                st = holder
                while not isinstance(st, ast.stmt):
                    st = getattr(st, "_parent", None)
                if not (isinstance(st, ast.Assign) and all(isinstance(t, ast.Attribute) and norm(t.value) == "self" for t in st.targets)):
                    ifexp_bad = st
            else:
                ifexp_bad = holder
        guarded = set()
        for t in tests:
            for nn in cfg.g.nodes:
                if nn in (ENTRY, EXIT, RAISE) or nn == t:
                    continue
                if cfg.edge_dominates(t, "true", nn) or cfg.edge_dominates(t, "false", nn):
                    guarded.add(nn)
        rets = [(nn, st) for nn, st in cfg.stmt.items() if isinstance(st, ast.Return) and st.value is not None and cfg.reachable(nn)]
        bad = None
        if ifexp_bad is not None:
            bad = f"a switch-dependent expression feeds a local / a return (line {getattr(ifexp_bad, 'lineno', '?')})"
        sig = None
        for nn, st in rets:
            names = {y.id for y in ast.walk(st.value) if isinstance(y, ast.Name)}
            sl = value_slice(cfg, names, nn)
            hit = sorted(sl & guarded)
            if hit and bad is None:
                h = cfg.stmt[hit[0]]
                bad = f"the returned value depends on `{norm(h).splitlines()[0][:50]}` (line {h.lineno}), which only executes for one setting of the switch"
            top = (norm(st.value), tuple(sorted(tuple(reaching_defs(cfg, nm, nn)) for nm in names)))
            if sig is None:
                sig = top
            elif sig != top and bad is None:
                bad = "returns on the two sides of the switch return different values"
        run.ob("R03.3", loc(m, reads[0]), m.short, "forward value independent of TRACK_GRAPH", bad is None,
               f"{len(rets)} return(s) share one value whose backward slice has no switch-dependent definition or in-place update" if bad is None else
               f"{bad}: values differ between tracked and no_autodiff evaluation")
    run.count("op forward passes reading the switch", n)


def r03_4(run):
    """weak-scalar preservation: a Python scalar operand must reach the NumPy kernel as a Python scalar"""
    fi = anchor_func(run, "mygrad.tensor_base.Tensor._op")
    # the constructor call that wraps a non-tensor operand:  cls(<operand>, constant=True, copy=False)
    wrapsites = []
    for c in own_nodes(fi.node):
        if isinstance(c, ast.Call) and isinstance(c.func, ast.Name) and c.func.id == fi.node.args.args[0].arg and len(c.args) == 1 \
                and isinstance(c.args[0], ast.Name) and kw(c, "_creator") is None:
            wrapsites.append(c)
    if not wrapsites:
        raise AnalysisError(f"{fi.short}: the call that wraps non-tensor operands as constant tensors was not found")
    wraps = wrapsites[0]
    st = wraps
    guard = None
    p_ = getattr(wraps, "_parent", None)
    while p_ is not None and p_ is not fi.node:
        if isinstance(p_, (ast.IfExp, ast.If)) and guard is None:
            guard = p_
        if isinstance(p_, ast.stmt):
            st = p_
            if guard is not None:
                break
        p_ = getattr(p_, "_parent", None)
    test = norm(guard.test) if guard is not None else ""
    scalar_exempt = any(k in test for k in ("Number", "Real", "int", "float", "np.isscalar", "Integral"))
    ok = scalar_exempt
    run.ob("R03.4", loc(fi, st), fi.short, "Python-scalar operands reach the kernel unconverted (weak scalar)", ok,
           "scalars are excluded from the tensor/array conversion" if ok else
           f"every non-tensor operand, Python scalars included, is wrapped as `{norm(wraps)[:50]}` (a 0-d ndarray): under NumPy 2 a 0-d array "
           f"is not a weak scalar, so float32_tensor * 2.0 is promoted to float64 where NumPy returns float32")
    # the arrays handed to the kernel are the tensors' own arrays (no copy, no cast)
    k = kw(wraps, "copy") if isinstance(wraps, ast.Call) else None
    ok = k is not None and norm(k) == "False" and isinstance(wraps, ast.Call) and kw(wraps, "dtype") is None
    run.ob("R03.4", loc(fi, st), fi.short, "array operands are adopted without copy or cast", ok,
           "cls(var, constant=True, copy=False)" if ok else "operands are copied / cast before the kernel sees them")


def r03_5(run):
    """ops fix some kernel options with literals that the wrapper does not expose; those literals must be NumPy's defaults"""
    fx = facts(run)
    NUMPY_DEFAULTS = {"order": "'C'"}
    n = 0
    for c in run.project.concrete_ops():
        m = c.methods.get("__call__")
        if m is None:
            continue
        params = set(m.params())
        for call in own_nodes(m.node):
            if not isinstance(call, ast.Call):
                continue
            for k in call.keywords:
                if k.arg in NUMPY_DEFAULTS and isinstance(k.value, ast.Constant) and k.arg not in params:
                    n += 1
                    ok = norm(k.value) == NUMPY_DEFAULTS[k.arg]
                    run.ob("R03.5", loc(m, call), m.short, f"kernel option {k.arg}={norm(k.value)} hard-wired by the op", ok,
                           f"equals NumPy's default for the namesake ({NUMPY_DEFAULTS[k.arg]})" if ok else
                           f"differs from NumPy's default {NUMPY_DEFAULTS[k.arg]}: values/sharing differ from the NumPy function for non-C-contiguous operands")
    run.count("hard-wired kernel options", n)


def r03_7(run):
    """`where=` may be a Tensor (mygrad.typing.Mask).  A Tensor that reaches a NumPy ufunc as `where` is dispatched back to
    Tensor.__array_ufunc__ -> unbounded recursion.  Some layer between the public signature and the kernel must unwrap it."""
    from .util import build_cfg
    fi = anchor_func(run, "mygrad.tensor_base.Tensor._op")
    cfg = build_cfg(run, fi)

    def unwraps(fn_node, names):
        """assignments that replace a Tensor-valued mask by its array, guarded by an isinstance(<mask>, Tensor) test"""
        out = []
        for st in own_nodes(fn_node):
            if not isinstance(st, ast.Assign):
                continue
            txt = norm(st.value)
            if any(f"{n}.data" in txt for n in names) or any(f"asarray({n}" in txt or f"_anything_but_tensor({n}" in txt for n in names):
                out.append(st)
        return out

    wnames = ("op_kwargs['where']", 'op_kwargs["where"]', "op_kwargs.get('where')", "where")
    central = unwraps(fi.node, wnames)
    fwd = [c for c in own_nodes(fi.node) if isinstance(c, ast.Call) and isinstance(c.func, ast.Name) and any(
        k.arg is None and norm(k.value) == "op_kwargs" for k in c.keywords)]
    ok_central = False
    for u in central:
        nu = cfg.node_for(u)
        tests = [n for n, s in cfg.stmt.items() if cfg.label[n] == "If" and "isinstance(" in norm(s) and "Tensor" in norm(s) and "where" in norm(s)]
        if nu is not None and any(cfg.edge_dominates(t, "true", nu) for t in tests) and fwd and \
                all(nu in __import__("networkx").ancestors(cfg.g, cfg.stmt_node_containing(c)) for c in fwd if cfg.stmt_node_containing(c) is not None):
            ok_central = True
    # alternative: every forward pass that accepts `where` unwraps it itself
    ops = [c.methods["__call__"] for c in run.project.operation_classes() if "__call__" in c.methods and "where" in c.methods["__call__"].params()]
    ok_local = bool(ops) and all(unwraps(m.node, ("where",)) for m in ops)
    run.ob("R03.7", loc(fi, central[0] if central else fi.node), fi.short, "a Tensor-valued where= mask is replaced by its array before any NumPy kernel sees it",
           ok_central or ok_local,
           ("Tensor._op unwraps op_kwargs['where'] under an isinstance test, ahead of the forward call" if ok_central else
            f"each of the {len(ops)} forward passes accepting where= unwraps it") if (ok_central or ok_local) else
           f"`where` travels raw from the public signature (typed Mask, which admits Tensor) through op_kwargs into {len(ops)} NumPy kernel calls: "
           f"NumPy dispatches a Tensor mask back to Tensor.__array_ufunc__ and the call recurses until RecursionError")
    run.count("forward passes accepting where=", len(ops))



def r03_10(run):
    """integer-ness tests accept NumPy integers.  NumPy's own functions take np.int64(2) wherever they take 2 (axis, repeats, shifts, sizes);
    `isinstance(x, int)` is False for every NumPy integer scalar, so a forward pass that hands the value to NumPy succeeds while the code
    guarded by the test (a backward rule, a validation) takes the wrong branch or raises.  numbers.Integral / np.integer recognise both."""
    n = 0
    for fi in run.project.all_functions():
        for c in own_nodes(fi.node):
            if not (isinstance(c, ast.Call) and isinstance(c.func, ast.Name) and c.func.id == "isinstance" and len(c.args) == 2):
                continue
            tys = c.args[1].elts if isinstance(c.args[1], ast.Tuple) else [c.args[1]]
            names = [norm(t) for t in tys]
            if "int" not in names:
                continue
            n += 1
            ok = any(x.split(".")[-1] in ("Integral", "integer", "Number", "Real", "generic") for x in names)
            run.ob("R03.10", loc(fi, c), fi.short, f"integer test `{norm(c)[:50]}` also recognises NumPy integers", ok,
                   "an abstract integer class is among the tested types" if ok else
                   "`int` alone: np.int64 / np.intp values (what NumPy returns for sizes, indices and counts) fail the test although NumPy accepts them "
                   "in the same position")
    run.count("Python-int type tests", n)

COMPARISONS = ("__eq__", "__ne__", "__lt__", "__le__", "__gt__", "__ge__")


def r03_11(run):
    """NumPy decides the result type of a binary operation from *both* operands.  A forward path that first converts one operand to the other
    operand's dtype (`asarray(other, dtype=self.dtype)`, `other.astype(x.dtype)`) replaces that rule by a cast: `int_tensor < 1.5` compares
    against 1.  Scope: the comparison operators of Tensor and every public function / Tensor method that is not a gradient seed or an explicit
    dtype-changing API (astype, backward)."""
    T = run.project.cls(TENSOR)
    fns = [m for nm, m in T.methods.items() if (nm in COMPARISONS or (nm.startswith("__") and nm.endswith("__") and nm[2] in "airm" and nm not in ("__init__", "__array__")))]
    for fi in run.project.all_functions():
        if fi.cls is None and fi.parent is None and not fi.name.startswith("_") and fi.module.name.endswith(".funcs") and ".nnet." not in fi.module.name:
            fns.append(fi)
    n = 0
    for m in fns:
        params = set(m.params())
        if len(params) < 2:
            continue
        n += 1

        def root(e):
            while isinstance(e, (ast.Attribute, ast.Subscript, ast.Call)):
                e = e.func if isinstance(e, ast.Call) else e.value
            return e.id if isinstance(e, ast.Name) else None
        for k in own_nodes(m.node):
            if not isinstance(k, ast.Call):
                continue
            conv, subj, dt = None, None, None
            fname = (dotted(k.func) or "").split(".")[-1]
            if isinstance(k.func, ast.Attribute) and k.func.attr == "astype" and (k.args or kw(k, "dtype") is not None):
                conv, subj, dt = "astype", k.func.value, (k.args[0] if k.args else kw(k, "dtype"))
            elif fname in ("asarray", "array", "asanyarray", "ascontiguousarray") and k.args and kw(k, "dtype") is not None:
                conv, subj, dt = fname, k.args[0], kw(k, "dtype")
            if conv is None or not (isinstance(dt, ast.Attribute) and dt.attr == "dtype"):
                continue
            tr, rr = root(dt.value), root(subj)
            bad = tr in params and rr in params and tr != rr
            if not bad and m.name not in COMPARISONS:
                continue
            run.ob("R03.11", loc(m, k), m.short, f"`{norm(k)[:50]}` does not convert an operand to a sibling operand's dtype", not bad,
                   "conversion target is not another operand's dtype" if not bad else
                   f"operand `{rr}` is converted to the dtype of `{tr}` before NumPy sees it: the result is computed in `{tr}`'s type instead of "
                   f"NumPy's promoted type (mixed-dtype comparisons / arithmetic give different values than NumPy)")
    for nm in COMPARISONS:
        m = T.methods.get(nm)
        ok = m is not None
        if ok:
            rets = [r for r in own_nodes(m.node) if isinstance(r, ast.Return) and isinstance(r.value, ast.Call)]
            ok = bool(rets) and all((dotted(r.value.func) or "").endswith(f"ndarray.{nm}") or (dotted(r.value.func) or "").split(".")[-1] in (
                nm.strip("_"), {"__eq__": "equal", "__ne__": "not_equal", "__lt__": "less", "__le__": "less_equal", "__gt__": "greater",
                                "__ge__": "greater_equal"}[nm]) for r in rets)
        run.ob("R03.11", loc(m, m.node) if m is not None else loc(T.module, T.node), f"{TENSOR[7:]}.{nm}", f"{nm} defers to NumPy's own {nm} on the arrays", ok,
               f"np.ndarray.{nm}(self.data, <other as array>)" if ok else "comparison is not NumPy's comparison of the underlying arrays")
    run.count("forward functions scanned for operand-to-operand dtype conversions", n)


def check(run):
    run.rule("R03.11", "no forward path converts one operand to a sibling operand's dtype; Tensor comparisons are NumPy's comparisons of the arrays", floor=6)
    run.do(r03_11)
    run.rule("R03.1", "UnaryUfunc/BinaryUfunc/Sequential.__call__: operands reach the kernel in order; every option reaches it under its own "
             "name unless it holds its not-given sentinel", floor=15)
    run.rule("R03.2", "no dead parameter in any op forward pass or wrapper; one-line wrappers forward every parameter", floor=150)
    run.rule("R03.3", "op forward values have no data/control dependence on TRACK_GRAPH", floor=6)
    run.rule("R03.5", "kernel options hard-wired by an op (order=) equal NumPy's defaults", floor=1)
    run.rule("R03.7", "a where= mask given as a Tensor is unwrapped before it reaches a NumPy kernel", floor=1)
    run.rule("R03.6", "Tensor.__array_ufunc__ evaluates forwarded (non-differentiable) ufuncs through getattr(ufunc, method), as NumPy would", floor=1)
    run.rule("R03.4", "Tensor._op hands Python scalars to the kernel unconverted; array operands are adopted as is", floor=2)
    run.rule("R03.8", "a parameter inspected with isinstance is still used when it is of none of the tested types (no silently ignored argument)", floor=24)
    from .util import type_narrowed_dead_params
    n = type_narrowed_dead_params(run, "R03.8", [f for f in run.project.all_functions() if not f.module.name.startswith("mygrad.nnet")])
    run.count("type-tested parameters", n)
    run.rule("R03.10", "isinstance(x, int) tests also admit NumPy integers (numbers.Integral / np.integer)", floor=0)
    run.do(r03_10)
    run.control("R03.10", r03_10, [("tensor_manip/tiling/ops.py", None, None, "def _verif_control_r03_10(repeats):\n    return 1 if isinstance(repeats, int) else len(repeats)")],
                "isinstance(x, int) on a caller-supplied count")
    run.rule("R03.9", "`out` is consulted on every path of every function that accepts and uses it", floor=20)
    from .util import path_dead_option
    n2 = run.do(lambda r: path_dead_option(r, "R03.9", "out", "the result is not written into the caller's out= target on that branch (NumPy's namesake does)"))
    run.count("functions with an `out` option", n2 or 0)
    run.do(r03_1)
    run.do(r03_2)
    run.do(r03_3)
    run.do(r03_4)
    run.do(r03_5)
    run.do(r03_7)
    from .c11 import ufunc_method_dispatch
    run.do(ufunc_method_dispatch, "R03.6")
