"""C09 -- backprop through a partially cleared graph fails loudly."""
from __future__ import annotations

import ast

from ..cfg import ENTRY, EXIT, RAISE
from ..common import calls_named, dotted, loc, norm, stmt_of
from ..model import AnalysisError, own_nodes
from .util import anchor_func, build_cfg, facts
from . import c07

OP_BACKWARD = "mygrad.operation_base.Operation.backward"
TENSOR = "mygrad.tensor_base.Tensor"


def r09_1(run):
    fi = anchor_func(run, OP_BACKWARD)
    cfg = build_cfg(run, fi)
    loops = [n for n in own_nodes(fi.node) if isinstance(n, ast.For) and "self.variables" in norm(n.iter)]
    if not loops:
        raise AnalysisError(f"{fi.short}: loop over self.variables not found")
    var = [x.id for x in ast.walk(loops[0].target) if isinstance(x, ast.Name)][-1]
    raises = [n for n in own_nodes(fi.node) if isinstance(n, ast.Raise) and n.exc is not None and "InvalidBackprop" in norm(n.exc)]
    bv = calls_named(fi.node, "backward_var")
    if not raises:
        # the mechanism itself is gone from the per-operand loop: name that, do not refuse the tree
        run.ob("R09.1", loc(fi, loops[0]), fi.short, f"emptiness test of {var}._ops raises InvalidBackprop and dominates backward_var", False,
               "Operation.backward no longer raises InvalidBackprop: the per-operand staleness test is what stops back-propagation into a partially "
               "cleared graph (a test elsewhere, e.g. per tensor before its creator is called, does not see an operand that was cleared and re-used)")
        return
    if not bv:
        raise AnalysisError(f"{fi.short}: backward_var call not found")
    nb = cfg.stmt_node_containing(bv[0])
    guards = [n for n, s in cfg.stmt.items() if cfg.label[n] == "If" and norm(s) in (f"not {var}._ops", f"len({var}._ops) == 0", f"not len({var}._ops)")]
    ok = False
    for g in guards:
        r_in = any(cfg.edge_dominates(g, "true", cfg.node_for(r)) for r in raises)
        b_out = cfg.edge_dominates(g, "false", nb)
        if r_in and b_out:
            ok = True
    run.ob("R09.1", loc(fi, raises[0]), fi.short, f"emptiness test of {var}._ops raises InvalidBackprop and dominates backward_var", ok,
           "the raise is on the true edge, the backward_var call only on the false edge of the test" if ok else
           "a cleared upstream tensor does not stop back-propagation: gradients flow into a dismantled graph")
    consts = [n for n, s in cfg.stmt.items() if cfg.label[n] == "If" and norm(s) in (f"{var}.constant", f"{var}._constant")]
    ok2 = any(cfg.dominates(c, g) for c in consts for g in guards) if guards else False
    run.ob("R09.1", loc(fi, loops[0]), fi.short, "constants are skipped before the staleness test (they never hold consumers)", ok2,
           "constant test dominates the guard" if ok2 else "constant inputs (never registered for gradients) would trip the guard")


def r09_3(run):
    """the staleness marker read by the guard must be monotone: once emptied for a tensor it may only be
    re-filled for a fresh tensor.  Writers of Tensor._ops are enumerated (who-may-write)."""
    fx = facts(run)
    n = 0
    for fi in run.project.all_functions():
        for c in own_nodes(fi.node):
            if isinstance(c, ast.Call) and isinstance(c.func, ast.Attribute) and c.func.attr in ("add", "update") \
                    and isinstance(c.func.value, ast.Attribute) and c.func.value.attr == "_ops":
                n += 1
                recv = norm(c.func.value.value)
                fresh = fi.name == "__init__" and recv == "self"
                run.ob("R09.3", loc(fi, c), fi.short, f"staleness marker Tensor._ops re-filled by {fi.short} ({recv}._ops.{c.func.attr})",
                       fresh, "only a freshly constructed tensor gets consumers" if fresh else
                       "an existing tensor whose consumer set was emptied by clear_graph() becomes non-empty again when it is "
                       "re-used: Operation.backward's `not var._ops` test no longer detects that its part of the graph was cleared")
    for (fi, mod, st, t, val, kind) in fx.attribute_stores():
        if t.attr == "_ops":
            n += 1
            ok = kind == "assign" and fi is not None and fi.name == "__init__" and isinstance(val, ast.Call) and dotted(val.func) == "set"
            run.ob("R09.3", loc(mod, st), fi.short if fi else mod.name, f"store to {norm(t)}", ok,
                   "initialisation of a new tensor" if ok else "the consumer set of an existing tensor is replaced")
    clears = []
    for fi in run.project.all_functions():
        for c in calls_named(fi.node, "clear"):
            if isinstance(c.func, ast.Attribute) and isinstance(c.func.value, ast.Attribute) and c.func.value.attr == "_ops":
                clears.append((fi, c))
    for fi, c in clears:
        from .util import owner_closure
        ok = fi.qualname in owner_closure(run, {f"{TENSOR}.clear_graph"})
        run.ob("R09.3", loc(fi, c), fi.short, f"{norm(c.func)}()", ok, "emptied by clear_graph only" if ok else
               "consumer sets emptied outside clear_graph: a live graph would be reported as cleared")
    run.count("writers of Tensor._ops", n + len(clears))


def r09_1_overrides(run):
    """an op that overrides backward() must still pass the guard: super().backward on every normal path, or its own `_ops` test"""
    n = 0
    for c in run.project.operation_classes():
        m = c.methods.get("backward")
        if m is None:
            continue
        n += 1
        cfg = build_cfg(run, m)
        sup = [k for k in calls_named(m.node, "backward") if isinstance(k.func, ast.Attribute)
               and isinstance(k.func.value, ast.Call) and dotted(k.func.value.func) == "super"]
        own = [x for x in own_nodes(m.node) if isinstance(x, ast.Raise) and x.exc is not None and "InvalidBackprop" in norm(x.exc)]
        ns = {cfg.stmt_node_containing(k) for k in sup} - {None}
        w = cfg.all_paths_hit(ENTRY, ns, exits=(EXIT,)) if ns else [ENTRY, EXIT]
        ok = w is None or bool(own)
        run.ob("R09.1", loc(m, sup[0] if sup else m.node), m.short, "backward() override passes through the cleared-graph guard", ok,
               "super().backward(grad) cuts every normal path" if w is None else ("own InvalidBackprop test" if own else
               "this op writes gradients without ever testing whether its inputs' graph was cleared: back-propagation through it "
               "into a dismantled graph returns silently"), path=cfg.path_text(w) if (w and not ok) else None)
    run.count("backward overrides", n)


def r09_4(run):
    """a back-propagation that failed must stay failed: Tensor.backward may clear the graph only on the normal path"""
    fi = anchor_func(run, f"{TENSOR}.backward")
    rs = facts(run).raises()
    raising_methods = {q.rsplit(".", 1)[1] for q, r in rs.items() if r}
    # closure by method name (receivers such as `self._creator` / loop variables have no static type)
    grew = True
    while grew:
        grew = False
        for f in run.project.all_functions():
            if f.cls is None or f.name in raising_methods:
                continue
            if any(isinstance(c, ast.Call) and isinstance(c.func, ast.Attribute) and c.func.attr in raising_methods
                   and c.func.attr.startswith(("backward", "_backward")) for c in own_nodes(f.node)):
                raising_methods.add(f.name)
                grew = True

    def by_name(call):  # receiver of unknown type (`for t in ...: t._backward()`): resolve by method name
        return isinstance(call.func, ast.Attribute) and call.func.attr in raising_methods

    cfg = build_cfg(run, fi, extra_raise=by_name)
    bnodes = {cfg.stmt_node_containing(c) for c in calls_named(fi.node, "_backward")} - {None}
    if not bnodes or not all(any("exc" in d["kinds"] for _a, _b, d in cfg.g.out_edges(n, data=True)) for n in bnodes):
        raise AnalysisError(f"{fi.short}: the per-tensor _backward() call is absent or not modelled as may-raise")
    clears = [c for c in calls_named(fi.node, "clear_graph")]
    if not clears:
        run.ob("R09.4", loc(fi, fi.node), fi.short, "clear_graph() only on the normal continuation of back-propagation", True, "no clear_graph call")
        return
    import networkx as nx
    exc_targets = {b for a, b, d in cfg.g.edges(data=True) if "exc" in d["kinds"] and b not in (RAISE, EXIT)}
    reach = set(exc_targets)
    for t in exc_targets:
        reach |= nx.descendants(cfg.g, t)
    for c in clears:
        st = stmt_of(c)
        copies = cfg.all_nodes_of.get(id(st), [])
        bad = [n for n in copies if n in reach]
        run.ob("R09.4", loc(fi, c), fi.short, "clear_graph() only on the normal continuation of back-propagation", not bad,
               f"{len(copies)} CFG cop{'y' if len(copies) == 1 else 'ies'}, none reachable from an exceptional edge" if not bad else
               "clear_graph() also runs when back-propagation raised (finally/except): the terminal tensor loses its creator, so a second "
               "backward() on the same invalid graph returns silently with stale or partial gradients instead of raising again")


def check(run):
    run.rule("R09.1", "Operation.backward: a test of `var._ops` emptiness that raises InvalidBackprop dominates every backward_var call", floor=2)
    run.rule("R09.4", "a failed back-propagation stays failed: Tensor.backward clears the graph only on its normal continuation", floor=1)
    run.rule("R09.2", "= R07.4: clear_graph empties _ops of every upstream tensor", floor=4)
    run.rule("R09.3", "the state read by the guard (Tensor._ops) is only emptied by clear_graph and only filled on fresh tensors", floor=3)
    run.do(r09_1)
    before = len(run.obligations)
    run.do(c07.r07_4)
    for o in run.obligations[before:]:
        o.rule = "R09.2"
    run.do(r09_3)
    run.do(r09_1_overrides)
    run.do(r09_4)
