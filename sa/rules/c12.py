"""C12 -- operations never modify their inputs; gradients are never aliased (ownership/alias abstract interpretation)."""
from __future__ import annotations

import ast
from typing import Dict, List, Optional, Set, Tuple

from ..absint import AV, SAME, VIEW, Interp, Summary, Write, tensor_params_of
from ..common import calls_named, dotted, kw, loc, norm
from ..model import AnalysisError, ClassInfo, FunctionInfo, own_nodes
from .util import specialise_defaults, specialise_param, anchor_func, build_cfg, facts
from ..cfg import ENTRY, reaching_defs
from . import opcontract
from .c14 import is_none_value

TENSOR = "mygrad.tensor_base.Tensor"
OP_BACKWARD = "mygrad.operation_base.Operation.backward"

# exemption table (DESIGN App. C): (function short name, written expression) -> reason
EXEMPT_WRITES = {
    ("linalg.ops.EinSum.backward_var", "dfdx"):
        "`dfdx *= factor`: factor > 1 means the tensor/label pair occurs at least twice, so the einsum that produced dfdx had >= 2 "
        "operands besides the pattern and NumPy allocated its result (it cannot be a view of an operand)",
}

_INTERP: Dict[int, Interp] = {}


def interp(run) -> Interp:
    k = id(run.project)
    if k not in _INTERP:
        _INTERP.clear()
        _INTERP[k] = Interp(facts(run), depth=4 if run.tier == "quick" else 8)
    return _INTERP[k]


def caller_owned(o: str, r: str, allow_out=True) -> bool:
    if o == "IN":
        return True
    if o.startswith("P:"):
        base = o[2:].split(".")[0].lstrip("*")
        if base in ("self", "cls"):
            return False
        if allow_out and base == "out":
            return False
        return True
    return False


def op_methods(run):
    """(class, method FunctionInfo, tensor params) for __call__/backward/backward_var of every Operation (each function once)."""
    fx = facts(run)
    seen = set()
    out = []
    for c in run.project.operation_classes() + [run.project.cls("mygrad.operation_base.Operation")]:
        for nm in ("__call__", "backward", "backward_var"):
            m = c.methods.get(nm)
            if m is None or m.qualname in seen:
                continue
            seen.add(m.qualname)
            out.append((c, m, tensor_params_of(fx, c, m)))
    return out


def r12_1(run):
    I = interp(run)
    fx = facts(run)
    n_sites = 0
    n_funcs = 0
    roots: List[Tuple[Optional[ClassInfo], FunctionInfo, Set[str]]] = list(op_methods(run))
    # public functions of the library that are not methods (wrappers, helpers in funcs.py / nnet)
    for fi in run.project.all_functions():
        if fi.cls is None and fi.parent is None and not fi.name.startswith("_") and \
                (fi.module.name.endswith(".funcs") or ".nnet." in fi.module.name or fi.module.name.endswith("_io")):
            if fi.qualname not in {m.qualname for _, m, _ in roots}:
                roots.append((None, fi, set()))
    for cls, m, tps in roots:
        generic = m.qualname == OP_BACKWARD
        if generic:
            # the generic loop receives whatever some backward_var returns: judge its writes against the worst case (the incoming grad itself,
            # a view of it, a view of an operand's data, or a fresh array)
            I.dynamic_backward_var = _worst_case_backed_grad()
        try:
            s = I.analyse(m, tensor_params=tps)
            # a backward_var serves one operand per call: a write that is only made for one value of `index` is judged in the body specialised to
            # that value (`if index == 0: grad = <copy>` ... `if index == 1: return` ... `grad_view[...] = 0` writes into the copy only)
            if m.name == "backward_var" and cls is not None and "index" in m.params() and any(w_.target.has(lambda o, r: caller_owned(o, r)) for w_ in s.writes):
                vs_ = opcontract.variables_of(run, cls)
                if vs_ is not None and not vs_.star and 1 <= len(vs_.params) <= 6:
                    per = []
                    for k_ in range(len(vs_.params)):
                        tw = specialise_param(m, "index", k_)
                        per.append(I.analyse(tw, tensor_params=tps))
                    bad_keys = set()
                    for sk in per:
                        for w_ in sk.writes:
                            if w_.target.has(lambda o, r: caller_owned(o, r)):
                                bad_keys.add((w_.expr, w_.via))
                    # keep a caller-owned verdict only where some operand's specialised body confirms it
                    s.writes = [w_ for w_ in s.writes if not w_.target.has(lambda o, r: caller_owned(o, r)) or (w_.expr, w_.via) in bad_keys]
        except RecursionError:
            raise AnalysisError(f"abstract interpreter recursion in {m.short}")
        finally:
            if generic:
                I.dynamic_backward_var = None
        n_funcs += 1
        for u in s.unknown_calls:
            run.unresolved_item(u)
        for w in s.writes:
            n_sites += 1
            bad = w.target.has(lambda o, r: caller_owned(o, r))
            key = (m.short, w.expr)
            where = loc(m, w.node)
            construct = f"write through `{w.expr}`" + (f" via {w.via}" if w.via else "")
            if bad and key in EXEMPT_WRITES and not w.via:
                run.ob("R12.1", where, m.short, construct, True, "exempt: " + EXEMPT_WRITES[key])
                continue
            unknown = [o for o, _ in w.target.origins if o == "U"]
            fact = ("target may alias caller-owned memory " + ", ".join(f"{r}({o})" for o, r in sorted(bad)) + f" -- {w.how}") if bad else \
                (f"target origins {sorted({o for o, _ in w.target.origins})}: function-allocated / op-owned state only -- {w.how}")
            run.ob("R12.1", where, m.short, construct, not bad, fact, note="target has an unresolved origin" if unknown and not bad else None)
    run.count("functions interpreted (ownership domain)", n_funcs)
    run.count("write sites classified", n_sites)


def r12_5(run):
    """the arrays an operation caches for its backward pass are read-only there when the op has more than one operand: `self.<cache> *= grad`
    in backward_var gives the second operand (and any later call) a state already scaled by the first -- its gradient is g**2 * df/dx.
    Dict-like bookkeeping (counters keyed by operand) is not array state and is exempt."""
    I = interp(run)
    fx = facts(run)
    n = 0
    for c in run.project.concrete_ops():
        m = c.lookup_method("backward_var")
        if m is None:
            continue
        vs = opcontract.variables_of(run, c)
        if vs is None or (not vs.star and len(vs.params) < 2):
            continue
        s = I.analyse(m, tensor_params=tensor_params_of(fx, c, m))
        n += 1
        for w in s.writes:
            attrs = sorted(o[2:] for o, _ in w.target.origins if o.startswith("S:"))
            if not attrs:
                continue
            # container-valued state (dict / Counter / defaultdict built by the op): bookkeeping, not an array
            def _is_container(a_, _depth=0):
                prop = c.lookup_method(a_)
                if prop is not None and prop.has_decorator("property") and _depth < 3:
                    ann = norm(prop.node.returns) if prop.node.returns is not None else ""
                    if ann.split("[")[0].split(".")[-1] in ("Counter", "dict", "Dict", "defaultdict", "OrderedDict", "Mapping", "MutableMapping"):
                        return True
                    rets = [r_.value for r_ in own_nodes(prop.node) if isinstance(r_, ast.Return) and r_.value is not None]
                    if rets and all(isinstance(r_, ast.Attribute) and norm(r_.value) == "self" and _is_container(r_.attr, _depth + 1) for r_ in rets):
                        return True
                for k_ in c.mro():
                    for mm in k_.methods.values():
                        for st_ in own_nodes(mm.node):
                            if isinstance(st_, ast.Assign) and any(norm(t_) == f"self.{a_}" for t_ in st_.targets):
                                v_ = st_.value
                                if isinstance(v_, (ast.Dict, ast.DictComp)) or (isinstance(v_, ast.Call) and (dotted(v_.func) or "").split(".")[-1] in (
                                        "dict", "Counter", "defaultdict", "OrderedDict", "set")):
                                    return True
                return False
            arr = [a_ for a_ in attrs if not _is_container(a_)]
            run.ob("R12.5", loc(m, w.node), f"{c.qualname[7:]} (via {m.short})" if m.cls is not c else m.short,
                   f"backward_var leaves the cached array(s) {', '.join('self.' + a_ for a_ in attrs)} as the forward pass stored them", not arr,
                   "dict-like bookkeeping only" if not arr else
                   f"{w.how}: the op has {'several' if vs.star else len(vs.params)} operands, so the operand served second (and any repeated "
                   f"backward) sees state already modified by the first -- its gradient is scaled twice")
    run.count("multi-operand backward_var bodies checked for writes into cached arrays", n)


def r12_2(run):
    I = interp(run)
    fi = anchor_func(run, f"{TENSOR}.backward")
    s = I.analyse(fi)
    bad = [w for w in s.writes if w.target.has(lambda o, r: o.startswith("P:grad"))]
    run.ob("R12.2", loc(fi, bad[0].node if bad else fi.node), fi.short, "no sink is applied to the seed `grad` handed to backward()", not bad,
           f"{len(s.writes)} write site(s) in backward(); none targets the caller's array" if not bad else
           f"backward(grad) writes through the caller's array: {bad[0].how}")


def _worst_case_backed_grad() -> AV:
    """What the runtime copy rule of Operation.backward must cope with: a fresh array, the incoming grad itself,
    or a view of anything."""
    return AV(frozenset({("N:0", SAME), ("P:grad", SAME), ("P:grad", VIEW), ("IN", VIEW), ("S:*", VIEW)}), "arr")


def r12_3(run):
    I = interp(run)
    fx = facts(run)
    # (a) the copy rule itself
    fi = anchor_func(run, OP_BACKWARD)
    I.dynamic_backward_var = _worst_case_backed_grad()
    try:
        s = I.analyse(fi)
    finally:
        I.dynamic_backward_var = None
    n = 0
    for node, recv, attr, val in s.stores:
        if attr != "_grad" or (isinstance(node, ast.Assign) and is_none_value(node.value)):
            continue
        n += 1
        if isinstance(node, ast.AugAssign):
            run.ob("R12.3", loc(fi, node), fi.short, f"accumulation into {recv}._grad", True,
                   "in-place update of the engine-owned array stored by the first contribution", nontrivial=False)
            continue
        nonfresh = [(o, r) for o, r in val.origins if not o.startswith("N:")]
        run.ob("R12.3", loc(fi, node), fi.short, f"array stored as first contribution into {recv}._grad is engine-owned", not nonfresh,
               "given a backward_var result that is fresh, the incoming grad itself, or a view of anything, the stored array is provably "
               "fresh after the `base is not None or is grad` copy rule (guard refinement)" if not nonfresh else
               "the stored gradient may still be " + ", ".join(f"{r}({o})" for o, r in sorted(nonfresh)) +
               ": two tensors' .grad (or a .grad and the caller's array) can be one buffer")
    if n < 2:
        raise AnalysisError(f"{fi.short}: stores to var._grad not found by the interpreter")
    # (b) per-op results: the remainder the runtime rule cannot recognise
    for c, m, tps in op_methods(run):
        if m.name != "backward_var" or c.is_abstract() and m.has_decorator("abstractmethod"):
            continue
        sm = I.analyse(m)
        ret = sm.returns
        v = opcontract.variables_of(run, c)
        nvars = None if v is None or v.star else len(v.params)
        same_in = ret.has(lambda o, r: r == SAME and (o == "IN" or (o.startswith("P:") and o.endswith(".data"))))
        run.ob("R12.3", loc(m, m.node), m.short, "backward_var never returns an input's data array itself", not same_in,
               f"result origins {sorted({o for o, _ in ret.origins})[:6]}" if not same_in else
               "the result may BE an input tensor's data array (SAME, base None): the runtime copy rule stores it as that tensor's .grad -> "
               "editing .grad edits data")
        same_state = ret.has(lambda o, r: r == SAME and o.startswith("S:"))
        if same_state:
            ok = nvars == 1
            run.ob("R12.4", loc(m, m.node), m.short, f"cached state {sorted(o for o, _ in same_state)} returned as gradient only by a single-variable op",
                   ok, f"op has exactly one variable: the cached array becomes that one tensor's gradient" if ok else
                   f"op has {nvars if nvars is not None else 'a variable number of'} variables: two tensors' .grad can be the same cached array")
    # (c) remaining value stores of Tensor._grad
    seedf = anchor_func(run, f"{TENSOR}.backward")
    ss = I.analyse(seedf)
    for node, recv, attr, val in ss.stores:
        if recv.startswith("<"):
            continue
        if attr == "_grad" and not (isinstance(node, ast.Assign) and is_none_value(node.value)):
            nonfresh = [(o, r) for o, r in val.origins if not o.startswith("N:")]
            run.ob("R12.3", loc(seedf, node), seedf.short, f"seed stored into {recv}._grad is engine-owned", not nonfresh,
                   "fresh on every path" if not nonfresh else
                   "the stored seed may be " + ", ".join(f"{r}({o})" for o, r in sorted(nonfresh)) +
                   ": L.grad is the caller's array (e.g. another tensor's .grad)")
    gb = run.project.functions.get("mygrad.nnet.layers.gru.GRUnit.backward")
    if gb is not None:
        sg = I.analyse(gb)
        for node, recv, attr, val in sg.stores:
            if recv.startswith("<"):
                continue  # store made inside a callee: judged at its own site / through the binding check below
            if attr == "_grad" and not is_none_value(getattr(node, "value", None)):
                nonfresh = [(o, r) for o, r in val.origins if not o.startswith("N:") and o != "U"]
                run.ob("R12.3", loc(gb, node), gb.short, f"array stored into {recv}._grad is engine-owned", not nonfresh,
                       "fresh" if not nonfresh else "may be " + ", ".join(f"{r}({o})" for o, r in sorted(nonfresh)))
        bp = run.project.functions.get("mygrad.nnet.layers.gru._backprop")
        for call, callee, binding in sg.calls:
            if bp is not None and callee.qualname == bp.qualname:
                val = binding.get("grad")
                if val is None:
                    continue
                nonfresh = [(o, r) for o, r in val.origins if not o.startswith("N:")]
                run.ob("R12.3", loc(gb, call), gb.short, f"gradient handed to _backprop({norm(call.args[0])}, ...) is engine-owned", not nonfresh,
                       "fresh array (tensordot / sum / astype of a fresh array)" if not nonfresh else
                       "may be " + ", ".join(f"{r}({o})" for o, r in sorted(nonfresh)))
    cp = specialise_defaults(anchor_func(run, f"{TENSOR}.copy"), keep=("constant",))
    sc = I.analyse(cp)
    for node, recv, attr, val in sc.stores:
        if attr == "_grad":
            nonfresh = [(o, r) for o, r in val.origins if not o.startswith("N:")]
            run.ob("R12.3", loc(cp, node), cp.short, f"gradient of the copy is a fresh array", not nonfresh,
                   "np.copy" if not nonfresh else "copy shares its gradient buffer with the original")

    # (d) every other value store to a tensor's gradient slot, wherever it is (e.g. Tensor._op re-homing the gradient of a detached view):
    #     the stored array must be allocated by the storing function -- never another tensor's gradient or a view of one
    from .c14 import tensor_grad_stores
    handled = {fi.qualname, seedf.qualname, cp.qualname} | ({gb.qualname} if gb is not None else set())
    for sfi, mod, st, t, val, kind in tensor_grad_stores(run):
        if sfi is None or sfi.qualname in handled or is_none_value(val) or val is None:
            continue
        if sfi.qualname.endswith("gru._backprop"):
            continue  # judged at its call sites above
        cfgs = build_cfg(run, sfi)
        n_at = cfgs.node_for(st)
        bad = _not_fresh(cfgs, val, n_at if n_at is not None else ENTRY, 0)
        run.ob("R12.3", loc(sfi, st), sfi.short, f"array stored into {norm(t.value)}._grad is allocated by the storing function", bad is None,
               "None or a fresh copy (np.copy / .copy() / np.array / *_like / astype) on every path" if bad is None else
               f"`{norm(bad)[:50]}` may be (a view of) an array that another tensor reports as its gradient: the two gradients share one buffer, and "
               f"Tensor.grad's cache validation (`_view_grad.base is base._grad`) can never succeed against a gradient that is itself a view")


_FRESH_CALLS = ("copy", "array", "zeros", "ones", "empty", "full", "zeros_like", "ones_like", "empty_like", "full_like", "ascontiguousarray_")


def _not_fresh(cfg, e, at, depth):
    """None if `e` is None / a freshly allocated array on every path, else the offending sub-expression"""
    if depth > 6:
        return e
    if isinstance(e, ast.Constant) and e.value is None:
        return None
    if isinstance(e, ast.IfExp):
        return _not_fresh(cfg, e.body, at, depth + 1) or _not_fresh(cfg, e.orelse, at, depth + 1)
    if isinstance(e, ast.Call):
        d = dotted(e.func) or ""
        leaf = d.split(".")[-1] if d else (e.func.attr if isinstance(e.func, ast.Attribute) else "")
        cpk = next((k.value for k in e.keywords if k.arg == "copy"), None)
        if cpk is not None and not (isinstance(cpk, ast.Constant) and cpk.value is True):
            return e
        if d.split(".")[0] in ("np", "numpy") and leaf in _FRESH_CALLS:
            return None
        if isinstance(e.func, ast.Attribute) and e.func.attr in ("copy", "astype") and not d.startswith(("np.", "numpy.")):
            return None
        return e
    if isinstance(e, ast.BinOp):
        return None  # array arithmetic allocates
    if isinstance(e, ast.Name):
        defs = reaching_defs(cfg, e.id, at)
        if not defs or ENTRY in defs:
            return e
        for d_ in defs:
            v = getattr(cfg.stmt[d_], "value", None)
            if v is None or isinstance(cfg.stmt[d_], ast.AugAssign):
                return e
            r = _not_fresh(cfg, v, d_, depth + 1)
            if r is not None:
                return r
        return None
    return e


def check(run):
    run.rule("R12.1", "no mutation sink (item/augmented assignment, out=, ufunc.at, copyto/put/..., in-place methods, calls that mutate a "
             "parameter) is applied to a value that may be, or may view, caller-owned memory (input data, grad, index objects, user arrays)", floor=70)
    run.rule("R12.2", "Tensor.backward applies no sink to its grad argument", floor=1)
    run.rule("R12.3", "every array stored into Tensor._grad is engine-owned: the copy rule of Operation.backward is verified against the worst "
             "case it must handle; no backward_var returns an input's array itself; seed / GRU / copy stores are fresh", floor=90)
    run.rule("R12.4", "cached state is returned as a gradient only by single-variable ops", floor=1)
    run.rule("R12.5", "backward_var of a multi-operand op does not modify the arrays the forward pass cached", floor=0)
    run.do(r12_5)
    run.do(r12_1)
    run.do(r12_2)
    run.do(r12_3)
    run.assume("NumPy view/copy table of sa/absint.py (fresh / view-or-fresh / same-or-fresh / out=) is the trusted base of the ownership domain")
