"""Operation contract (R01.5) and the table of `_op` / `_in_place_op` call sites shared by C01, C03, C10, C11."""
from __future__ import annotations

import ast
from dataclasses import dataclass, field
from typing import Dict, List, Optional, Set, Tuple

from ..cfg import ENTRY, EXIT
from ..common import calls_named, dotted, kw, loc, norm, stmt_of
from ..model import AnalysisError, ClassInfo, External, FunctionInfo, own_nodes
from .util import build_cfg, facts

OPERATION = "mygrad.operation_base.Operation"


@dataclass
class Vars:
    exprs: List[str]       # normalised element expressions as written
    params: List[str]      # the __call__ parameters they denote
    star: bool
    fn: FunctionInfo
    stmts: List[ast.AST]


@dataclass
class Sig:
    positional: List[str]
    required_pos: int            # number of positional params without default
    vararg: Optional[str]
    kwonly: List[str]
    required_kwonly: List[str]
    kwarg: Optional[str]
    fn: FunctionInfo


def _own_sig(fi: FunctionInfo) -> Sig:
    a = fi.node.args
    pos = [x.arg for x in a.posonlyargs + a.args][1:]  # drop self
    nd = len(a.defaults)
    req = len(pos) - nd
    kwonly = [x.arg for x in a.kwonlyargs]
    reqkw = [x.arg for x, d in zip(a.kwonlyargs, a.kw_defaults) if d is None]
    return Sig(pos, max(req, 0), a.vararg.arg if a.vararg else None, kwonly, reqkw, a.kwarg.arg if a.kwarg else None, fi)


def _super_call(fi: FunctionInfo) -> Optional[ast.Call]:
    for n in own_nodes(fi.node):
        if isinstance(n, ast.Call) and isinstance(n.func, ast.Attribute) and n.func.attr == fi.name \
                and isinstance(n.func.value, ast.Call) and dotted(n.func.value.func) == "super":
            return n
    return None


def _next_in_mro(cls: ClassInfo, fi: FunctionInfo, name: str) -> Optional[FunctionInfo]:
    mro = cls.mro()
    seen = False
    for c in mro:
        if seen and name in c.methods:
            return c.methods[name]
        if fi.cls is not None and c.qualname == fi.cls.qualname:
            seen = True
    return None


def signature_of(run, cls: ClassInfo) -> Sig:
    m = cls.lookup_method("__call__")
    if m is None:
        raise AnalysisError(f"{cls.qualname}: no __call__")
    sig = _own_sig(m)
    sc = _super_call(m)
    if sc is not None and sig.vararg and any(isinstance(a, ast.Starred) and norm(a.value) == sig.vararg for a in sc.args):
        parent = _next_in_mro(cls, m, "__call__")
        if parent is not None:
            ps = _own_sig(parent)
            return Sig(ps.positional, ps.required_pos, ps.vararg, ps.kwonly + sig.kwonly,
                       ps.required_kwonly + sig.required_kwonly, ps.kwarg, m)
    return sig


def variables_of(run, cls: ClassInfo) -> Optional[Vars]:
    m = cls.lookup_method("__call__")
    hops = 0
    while m is not None and hops < 4:
        stores = [n for n in own_nodes(m.node) if isinstance(n, (ast.Assign, ast.AnnAssign))
                  and any(norm(t) == "self.variables" for t in (n.targets if isinstance(n, ast.Assign) else [n.target]))
                  and getattr(n, "value", None) is not None]
        if stores:
            break
        if _super_call(m) is None:
            return None
        m = _next_in_mro(cls, m, "__call__")
        hops += 1
    if m is None or not stores:
        return None
    a = m.node.args
    params = [x.arg for x in a.posonlyargs + a.args][1:]
    star = a.vararg.arg if a.vararg else None
    # aliases self.X = X
    alias: Dict[str, str] = {}
    for n in own_nodes(m.node):
        if isinstance(n, ast.Assign) and len(n.targets) == 1 and isinstance(n.value, ast.Name) \
                and isinstance(n.targets[0], ast.Attribute) and norm(n.targets[0].value) == "self":
            alias[norm(n.targets[0])] = n.value.id
    v = stores[0].value
    elts: Optional[List[ast.expr]] = None
    is_star = False
    if isinstance(v, ast.Tuple):
        elts = list(v.elts)
    elif isinstance(v, ast.Name) and v.id == star:
        is_star = True
    elif isinstance(v, ast.Call) and dotted(v.func) == "tuple" and v.args:
        inner = v.args[0]
        if isinstance(inner, ast.Name) and inner.id == star:
            is_star = True
        elif isinstance(inner, ast.GeneratorExp) and isinstance(inner.generators[0].iter, ast.Tuple) \
                and isinstance(inner.elt, ast.Name) and norm(inner.generators[0].target) == inner.elt.id:
            elts = list(inner.generators[0].iter.elts)
        elif isinstance(inner, ast.Tuple):
            elts = list(inner.elts)
    if is_star:
        return Vars([f"*{star}"], [f"*{star}"], True, m, stores)
    if elts is None:
        return None
    exprs, ps = [], []
    for e in elts:
        t = norm(e)
        exprs.append(t)
        if isinstance(e, ast.Name):
            ps.append(e.id)
        elif t in alias:
            ps.append(alias[t])
        else:
            ps.append("?" + t)
    return Vars(exprs, ps, False, m, stores)


# ---------------------------------------------------------------------------------------------- call sites
@dataclass
class OpSite:
    fi: FunctionInfo
    call: ast.Call
    kind: str                    # _op | _in_place_op
    op_expr: ast.expr
    op_cls: Optional[ClassInfo]
    tensors: List[ast.expr]
    star_tensors: bool
    op_args: Optional[List[ast.expr]]     # None = not a literal tuple (unknown arity)
    op_kwargs: Optional[Dict[str, ast.expr]]
    kwargs_open: bool            # a ** splat inside op_kwargs: key set not closed
    constant: Optional[ast.expr]
    out: Optional[ast.expr]
    why_unresolved: str = ""
    conds: Optional[List[ast.expr]] = None   # virtual site (one per path): the branch conditions that hold on that path


def _wrapped_op_annotation(run, fi: FunctionInfo) -> Optional[ClassInfo]:
    if fi.cls is None:
        return None
    for c in fi.cls.mro():
        for st in c.node.body:
            if isinstance(st, ast.AnnAssign) and isinstance(st.target, ast.Name) and st.target.id == "_wrapped_op":
                ann = st.annotation
                if isinstance(ann, ast.Subscript):
                    r = run.project.resolve(c.module, ann.slice)
                    if isinstance(r, ClassInfo):
                        return r
                    if isinstance(ann.slice, ast.Subscript) or isinstance(ann.slice, ast.Tuple):
                        return None
    return None


def op_sites(run) -> List[OpSite]:
    fx = facts(run)
    opbase = run.project.cls(OPERATION)
    out: List[OpSite] = []
    for fi in run.project.all_functions():
        for n in own_nodes(fi.node):
            if not (isinstance(n, ast.Call) and isinstance(n.func, ast.Attribute) and n.func.attr in ("_op", "_in_place_op")):
                continue
            if not n.args:
                continue
            op_expr = n.args[0]
            r = fx.resolve_in(fi, op_expr)
            why = ""
            op_cls = r if isinstance(r, ClassInfo) and r.is_subclass_of(opbase) else None
            if op_cls is None:
                if norm(op_expr).endswith("._wrapped_op"):
                    op_cls = _wrapped_op_annotation(run, fi)
                    if op_cls is None:
                        why = "op class is a class attribute without a resolvable Type[...] annotation"
                else:
                    why = "op class is a parameter / computed value"
            tensors, star = [], False
            for a in n.args[1:]:
                if isinstance(a, ast.Starred):
                    star = True
                else:
                    tensors.append(a)
            oa = kw(n, "op_args")
            op_args: Optional[List[ast.expr]]
            if oa is None or (isinstance(oa, ast.Constant) and oa.value is None):
                op_args = []
            elif isinstance(oa, ast.Tuple) and not any(isinstance(e, ast.Starred) for e in oa.elts):
                op_args = list(oa.elts)
            else:
                op_args = None
            ok_ = kw(n, "op_kwargs")
            op_kwargs: Optional[Dict[str, ast.expr]] = {}
            open_ = False
            if ok_ is None or (isinstance(ok_, ast.Constant) and ok_.value is None):
                op_kwargs = {}
            elif isinstance(ok_, ast.Dict):
                for k, v in zip(ok_.keys, ok_.values):
                    if k is None:
                        open_ = True
                    elif isinstance(k, ast.Constant) and isinstance(k.value, str):
                        op_kwargs[k.value] = v
                    else:
                        open_ = True
            elif isinstance(ok_, ast.Call) and dotted(ok_.func) == "dict" and not ok_.args:
                for k in ok_.keywords:
                    if k.arg is None:
                        open_ = True
                    else:
                        op_kwargs[k.arg] = k.value
            else:
                # a local dict built incrementally: kwargs = {...}; kwargs["k"] = v; kwargs.update(...)  -- as seen by *this* call
                df = dict_facts_at(fi, ok_.id, n) if isinstance(ok_, ast.Name) else None
                if df is not None:
                    op_kwargs, open_ = df
                else:
                    op_kwargs = _local_dict_keys(fi, ok_)
                    if op_kwargs is None:
                        open_ = True
            site = OpSite(fi, n, n.func.attr, op_expr, op_cls, tensors, star, op_args, op_kwargs, open_,
                          kw(n, "constant"), kw(n, "out"), why)
            virt = _expand_selector_locals(run, fx, opbase, site) if isinstance(op_expr, ast.Name) or any(
                isinstance(a, ast.Starred) and isinstance(a.value, ast.Name) for a in n.args[1:]) else None
            if virt:
                out.extend(virt)
            else:
                out.append(site)
    out.sort(key=lambda s: (s.fi.qualname, s.call.lineno, s.call.col_offset))
    return out


def _expand_selector_locals(run, fx, opbase, site: "OpSite") -> Optional[List["OpSite"]]:
    """`Op, operands = Power, (self, other)` ... `if other == 1: Op, operands = Positive, (self,)` ... `self._in_place_op(Op, *operands)`:
    the operation and its operands are chosen into locals first and one call serves every choice.  The call is expanded into one *virtual* site per
    acyclic path that reaches it (bounded), with the locals replaced by the values last assigned on that path and with the branch conditions of
    the path attached -- the same facts the several-call spelling states syntactically.  None if any path leaves a selector unresolved."""
    import networkx as nx
    from ..cfg import CFG, ENTRY as _E
    from ..normal import _negate, _clone
    fi, call = site.fi, site.call
    params = set(fi.params())
    sel = set()
    stored_n = {x.id for x in ast.walk(fi.node) if isinstance(x, ast.Name) and isinstance(x.ctx, ast.Store)}
    n_defs = sum(1 for x in ast.walk(fi.node) if isinstance(x, ast.Name) and isinstance(x.ctx, ast.Store) and isinstance(site.op_expr, ast.Name) and x.id == site.op_expr.id)
    if isinstance(site.op_expr, ast.Name) and site.op_expr.id not in params and site.op_expr.id in stored_n and (site.op_cls is None or n_defs > 1):
        sel.add(site.op_expr.id)
    for a in call.args[1:]:
        if isinstance(a, ast.Starred) and isinstance(a.value, ast.Name) and a.value.id not in params:
            sel.add(a.value.id)
    if not sel:
        return None
    try:
        cfg = CFG(fi.node)
    except Exception:  # noqa
        return None
    target = cfg.stmt_node_containing(call)
    if target is None:
        return None
    paths = []
    try:
        for p in nx.all_simple_paths(cfg.g, _E, target, cutoff=60):
            paths.append(p)
            if len(paths) > 64:
                return None
    except Exception:  # noqa
        return None
    out, seen = [], set()
    for p in paths:
        env: Dict[str, ast.expr] = {}
        conds: List[ast.expr] = []
        infeasible = False
        for a_, b_ in zip(p, p[1:]):
            st = cfg.stmt.get(a_)
            if st is None:
                continue
            if cfg.label.get(a_) in ("If", "While") and isinstance(st, ast.expr):
                kinds = cfg.g[a_][b_]["kinds"]
                # a test of a selector local against None is decided by what this path assigned to it: infeasible paths are dropped
                if isinstance(st, ast.Compare) and len(st.ops) == 1 and isinstance(st.ops[0], (ast.Is, ast.IsNot)) and isinstance(st.left, ast.Name) \
                        and st.left.id in env and isinstance(st.comparators[0], ast.Constant) and st.comparators[0].value is None:
                    is_none = isinstance(env[st.left.id], ast.Constant) and env[st.left.id].value is None
                    truth = is_none if isinstance(st.ops[0], ast.Is) else not is_none
                    if ("true" in kinds and "false" not in kinds and not truth) or ("false" in kinds and "true" not in kinds and truth):
                        infeasible = True
                        break
                if "true" in kinds and "false" not in kinds:
                    conds.extend(st.values if isinstance(st, ast.BoolOp) and isinstance(st.op, ast.And) else [st])
                elif "false" in kinds and "true" not in kinds:
                    vals = st.values if isinstance(st, ast.BoolOp) and isinstance(st.op, ast.Or) else [st]
                    conds.extend(_negate(_clone(v)) for v in vals)
                continue
            if isinstance(st, ast.Assign) and len(st.targets) == 1:
                t, v = st.targets[0], st.value
                if isinstance(t, ast.Name) and t.id in sel:
                    env[t.id] = v
                elif isinstance(t, ast.Tuple) and isinstance(v, ast.Tuple) and len(t.elts) == len(v.elts):
                    for te, ve in zip(t.elts, v.elts):
                        if isinstance(te, ast.Name) and te.id in sel:
                            env[te.id] = ve
                elif any(isinstance(x, ast.Name) and x.id in sel for x in ast.walk(t)):
                    return None
            elif isinstance(st, (ast.AugAssign, ast.For, ast.With)) and any(isinstance(x, ast.Name) and x.id in sel and isinstance(x.ctx, ast.Store) for x in ast.walk(st)):
                return None
        if infeasible:
            continue
        if not all(k in env for k in sel):
            return None
        op_expr = env.get(site.op_expr.id, site.op_expr) if isinstance(site.op_expr, ast.Name) else site.op_expr
        r = fx.resolve_in(fi, op_expr)
        op_cls = r if isinstance(r, ClassInfo) and r.is_subclass_of(opbase) else site.op_cls
        if op_cls is None:
            return None
        tensors, star = [], False
        for a in call.args[1:]:
            if isinstance(a, ast.Starred) and isinstance(a.value, ast.Name) and a.value.id in env:
                v = env[a.value.id]
                if not isinstance(v, (ast.Tuple, ast.List)) or any(isinstance(e, ast.Starred) for e in v.elts):
                    return None
                tensors.extend(v.elts)
            elif isinstance(a, ast.Starred):
                star = True
            else:
                tensors.append(a)
        key = (norm(op_expr), tuple(norm(t) for t in tensors), tuple(sorted(norm(c) for c in conds)))
        if key in seen:
            continue
        seen.add(key)
        out.append(OpSite(fi, call, site.kind, op_expr, op_cls, tensors, star, site.op_args, site.op_kwargs, site.kwargs_open,
                          site.constant, site.out, "", conds))
    return out or None


def _dict_literal(v: ast.expr):
    """(keys, open) of a dict display / dict(...) call, or None"""
    if isinstance(v, ast.Dict):
        keys, open_ = {}, False
        for k, val in zip(v.keys, v.values):
            if k is None or not (isinstance(k, ast.Constant) and isinstance(k.value, str)):
                open_ = True
            else:
                keys[k.value] = val
        return keys, open_
    if isinstance(v, ast.Call) and dotted(v.func) == "dict" and not v.args:
        keys, open_ = {}, False
        for k in v.keywords:
            if k.arg is None:
                open_ = True
            else:
                keys[k.arg] = k.value
        return keys, open_
    return None


def dict_facts_at(fi: FunctionInfo, name: str, call: ast.Call):
    """Flow-sensitive key set of the local dict `name` as seen by `call`: the keys of every full assignment reaching the call, plus the keys
    added by `name[k] = v` / `name.update(...)` statements that lie on some path from such an assignment to the call.
    Returns (keys, open) -- open: a ** splat or an update with a non-literal argument may contribute unknown keys -- or None."""
    from ..cfg import CFG, ENTRY, reaching_defs
    cfg = CFG(fi.node)
    at = cfg.stmt_node_containing(call)
    if at is None:
        return None
    defs = reaching_defs(cfg, name, at)
    if not defs or ENTRY in defs:
        return None
    keys: Dict[str, ast.expr] = {}
    open_ = False
    for d in defs:
        lit = _dict_literal(getattr(cfg.stmt[d], "value", None))
        if lit is None:
            return None
        keys.update(lit[0])
        open_ = open_ or lit[1]
    def_nodes = {n for n, st in cfg.stmt.items() if isinstance(st, (ast.Assign, ast.AnnAssign)) and any(
        isinstance(t, ast.Name) and t.id == name for t in (st.targets if isinstance(st, ast.Assign) else [st.target]))}
    for n, st in cfg.stmt.items():
        add = None
        if isinstance(st, ast.Assign) and len(st.targets) == 1 and isinstance(st.targets[0], ast.Subscript) and norm(st.targets[0].value) == name:
            sl = st.targets[0].slice
            add = ({sl.value: st.value}, False) if isinstance(sl, ast.Constant) and isinstance(sl.value, str) else ({}, True)
        elif isinstance(st, ast.Expr) and isinstance(st.value, ast.Call) and isinstance(st.value.func, ast.Attribute) \
                and norm(st.value.func.value) == name and st.value.func.attr in ("update", "setdefault"):
            c = st.value
            if c.func.attr == "update" and len(c.args) == 1 and _dict_literal(c.args[0]) is not None:
                add = _dict_literal(c.args[0])
            elif c.func.attr == "update" and not c.args and all(k.arg for k in c.keywords):
                add = ({k.arg: k.value for k in c.keywords}, False)
            elif c.func.attr == "setdefault" and c.args and isinstance(c.args[0], ast.Constant):
                add = ({c.args[0].value: c.args[1] if len(c.args) > 1 else ast.Constant(None)}, False)
            else:
                add = ({}, True)
        if add is None or n == at:
            continue
        # the modification counts if it can happen after a reaching assignment and before the call without another assignment in between
        h = cfg.g.copy()
        h.remove_nodes_from(def_nodes - set(defs))
        import networkx as nx
        if n in h and at in h and any(d in h and nx.has_path(h, d, n) for d in defs) and nx.has_path(h, n, at):
            keys.update(add[0])
            open_ = open_ or add[1]
    return keys, open_


def _local_dict_keys(fi: FunctionInfo, expr: ast.expr) -> Optional[Dict[str, ast.expr]]:
    if not isinstance(expr, ast.Name):
        return None
    name = expr.id
    keys: Dict[str, ast.expr] = {}
    inited = False
    for n in own_nodes(fi.node):
        if isinstance(n, ast.Assign) and len(n.targets) == 1:
            t = n.targets[0]
            if isinstance(t, ast.Name) and t.id == name:
                if isinstance(n.value, ast.Dict) and all(isinstance(k, ast.Constant) for k in n.value.keys):
                    for k, v in zip(n.value.keys, n.value.values):
                        keys[k.value] = v
                    inited = True
                elif isinstance(n.value, ast.Call) and dotted(n.value.func) == "dict" and not n.value.args \
                        and all(k.arg for k in n.value.keywords):
                    for k in n.value.keywords:
                        keys[k.arg] = k.value
                    inited = True
                else:
                    return None
            elif isinstance(t, ast.Subscript) and isinstance(t.value, ast.Name) and t.value.id == name:
                if isinstance(t.slice, ast.Constant) and isinstance(t.slice.value, str):
                    keys[t.slice.value] = n.value
                else:
                    return None
    return keys if inited else None


def r01_5(run):
    fx = facts(run)
    ops = run.project.concrete_ops()
    run.count("concrete_operation_classes", len(ops))
    sigs: Dict[str, Sig] = {}
    varsd: Dict[str, Optional[Vars]] = {}
    checked_fns: Set[str] = set()
    for c in ops:
        v = variables_of(run, c)
        varsd[c.qualname] = v
        sg = signature_of(run, c)
        sigs[c.qualname] = sg
        if v is None:
            run.ob("R01.5", loc(c.module, c.node), c.qualname[7:], "self.variables is assigned a recognisable tuple of parameters", False,
                   "__call__ (through super().__call__) never assigns self.variables to a tuple of its parameters")
            continue
        if v.fn.qualname in checked_fns:
            run.ob("R01.5", loc(v.fn, v.stmts[0]), c.qualname[7:], f"inherits variables contract of {v.fn.short}", True,
                   f"variables = {v.exprs}", nontrivial=False)
            continue
        checked_fns.add(v.fn.qualname)
        cfg = build_cfg(run, v.fn)
        ns = {cfg.node_for(s) for s in v.stmts}
        ns.discard(None)
        w = cfg.all_paths_hit(ENTRY, ns, exits=(EXIT,))
        run.ob("R01.5", loc(v.fn, v.stmts[0]), v.fn.short, "self.variables definitely assigned on every normal path", w is None,
               "graph-cut ENTRY->EXIT" if w is None else "a forward pass can finish without recording its inputs",
               path=cfg.path_text(w) if w else None)
        own = _own_sig(v.fn)
        if v.star:
            ok = own.vararg is not None and not own.positional
            run.ob("R01.5", loc(v.fn, v.stmts[0]), v.fn.short, f"variables = all star operands ({v.exprs[0]})", ok,
                   "every positional operand is recorded" if ok else "positional parameters precede *args but are not recorded")
        else:
            k = len(v.params)
            lead = own.positional[:k]
            ok = lead == v.params
            run.ob("R01.5", loc(v.fn, v.stmts[0]), v.fn.short, f"variables {v.exprs} are the leading positional parameters, in order", ok,
                   f"parameters {lead}" if ok else
                   f"recorded inputs {v.params} differ from the leading parameters {lead}: an operand is dropped from, or misplaced in, the graph")
    # call sites
    sites = op_sites(run)
    run.count("op_call_sites", len(sites))
    for s in sites:
        where = loc(s.fi, s.call)
        if s.op_cls is None:
            run.ob("R01.5", where, s.fi.short, f"{s.kind}({norm(s.op_expr)}, ...) generic pass-through", True,
                   f"not bound: {s.why_unresolved}", nontrivial=False)
            run.unresolved_item(f"{where} {s.fi.short}: {s.kind}({norm(s.op_expr)}) -- {s.why_unresolved}")
            continue
        sg = sigs.get(s.op_cls.qualname) or signature_of(run, s.op_cls)
        v = varsd.get(s.op_cls.qualname) if s.op_cls.qualname in varsd else variables_of(run, s.op_cls)
        problems = []
        nt = len(s.tensors)
        if v is not None and not v.star and not s.star_tensors:
            if nt != len(v.params):
                problems.append(f"{nt} tensor operand(s) passed but the op records {len(v.params)} variable(s)")
        if v is not None and v.star != s.star_tensors and not (v.star and not s.star_tensors):
            problems.append("star operands passed to an op with a fixed number of variables")
        if s.op_args is not None and not s.star_tensors and sg.vararg is None:
            if nt + len(s.op_args) > len(sg.positional):
                problems.append(f"{nt}+{len(s.op_args)} positional arguments for {len(sg.positional)} positional parameters")
        keys = set(s.op_kwargs or {})
        if s.kind == "_in_place_op":
            keys_out = {"out"}  # _in_place_op always supplies out=<private copy>
        elif s.out is not None and not (isinstance(s.out, ast.Constant) and s.out.value is None):
            keys_out = {"out"}
        else:
            keys_out = set()
        accepted = set(sg.positional) | set(sg.kwonly)
        if sg.kwarg is None:
            bad = (keys | keys_out) - accepted
            if bad:
                problems.append(f"keyword(s) {sorted(bad)} not accepted by {sg.fn.short}")
        if s.op_args is not None and not s.star_tensors and v is not None and not v.star:
            bound_pos = set(sg.positional[: nt + len(s.op_args)])
            dup = bound_pos & keys
            if dup:
                problems.append(f"parameter(s) {sorted(dup)} bound both positionally and by keyword")
            if not s.kwargs_open:
                missing = [p for p in sg.positional[: sg.required_pos] if p not in bound_pos and p not in keys]
                missing += [p for p in sg.required_kwonly if p not in keys and p not in keys_out]
                if missing:
                    problems.append(f"required parameter(s) {missing} of {sg.fn.short} not bound")
        desc = f"{s.kind}({s.op_cls.name}, {nt}{'+*' if s.star_tensors else ''} tensors, op_args={'?' if s.op_args is None else len(s.op_args)}, op_kwargs={sorted(keys)}{'+**' if s.kwargs_open else ''})"
        run.ob("R01.5", where, s.fi.short, desc, not problems,
               f"binds against {sg.fn.short}({', '.join(sg.positional)}{', *' + sg.vararg if sg.vararg else ''}; {', '.join(sg.kwonly)})"
               if not problems else "; ".join(problems))
