"""C10 -- constant semantics."""
from __future__ import annotations

import ast

from ..cfg import ENTRY, EXIT, RAISE, reaching_defs
from ..common import calls_named, dotted, kw, loc, norm, stmt_of
from ..model import AnalysisError, own_nodes
from .util import anchor_func, assigned_name, build_cfg, facts, switch_assumptions
from .c14 import is_none_value, tensor_grad_stores
from . import opcontract

TENSOR = "mygrad.tensor_base.Tensor"
INIT = f"{TENSOR}.__init__"
OP = f"{TENSOR}._op"
BACKWARD = f"{TENSOR}.backward"


def r10_1(run):
    fi = anchor_func(run, INIT)
    stores = [n for n in own_nodes(fi.node) if isinstance(n, ast.Assign) and any(norm(t) == "self._constant" for t in n.targets)]
    if len(stores) != 1:
        raise AnalysisError(f"{fi.short}: expected one store to self._constant")
    st = stores[0]
    # which local carries "is a float dtype"?
    isf = None
    for n in own_nodes(fi.node):
        if isinstance(n, ast.Assign) and isinstance(n.value, ast.Call) and "np.floating" in norm(n.value) and assigned_name(n):
            isf = assigned_name(n)
    if isf is None:
        # the fact is tested in place (`if not issubclass(dtype, np.floating) and ...`): the expression text is the key
        for n in own_nodes(fi.node):
            if isinstance(n, ast.Call) and "np.floating" in norm(n) and (dotted(n.func) or "") in ("issubclass", "np.issubdtype", "numpy.issubdtype"):
                isf = norm(n)
                break
    if isf is None:
        raise AnalysisError(f"{fi.short}: cannot find the float-dtype test")
    real_test = None
    for n in own_nodes(fi.node):
        if isinstance(n, ast.If) and "CONSTANT_ONLY_DTYPES" in norm(n.test):
            # the atomic fact `issubclass(dtype, CONSTANT_ONLY_DTYPES)`: whatever else the test mentions stays unknown in the scenarios below, so
            # an added escape hatch (`not already_vetted and ...`) leaves the store reachable and is reported
            for c_ in ast.walk(n.test):
                if isinstance(c_, ast.Call) and "CONSTANT_ONLY_DTYPES" in norm(c_) and (dotted(c_.func) or "") in ("issubclass", "isinstance", "np.issubdtype"):
                    real_test = norm(c_)
            if real_test is None:
                real_test = norm(n.test.operand) if isinstance(n.test, ast.UnaryOp) else norm(n.test)
    if real_test is None:
        raise AnalysisError(f"{fi.short}: integer/bool dtype test not found")
    base = switch_assumptions(fi, track=True, extra={"NP_IS_V2": True, isf: False})
    # non-real dtype -> raise
    a1 = dict(base)
    a1[real_test] = False
    cfg = build_cfg(run, fi, a1)
    n = cfg.node_for(st)
    ok = n is None or not cfg.reachable(n)
    run.ob("R10.1", loc(fi, st), fi.short, "non-real dtype while tracking: constructor raises before the flag is stored", ok,
           "`self._constant = ...` unreachable under {is_float: False, int/bool dtype: False, TRACK_GRAPH: True}" if ok else
           "complex/object data is accepted as a tensor while tracking is on")
    # int/bool dtype with constant=False -> raise
    a2 = dict(base)
    a2[real_test] = True
    a2["constant is False"] = True
    a2["constant is None"] = False
    cfg = build_cfg(run, fi, a2)
    n = cfg.node_for(st)
    ok = n is None or not cfg.reachable(n)
    run.ob("R10.1", loc(fi, st), fi.short, "integer/bool data with constant=False: constructor raises", ok,
           "`self._constant = ...` unreachable under {int/bool dtype, constant is False, TRACK_GRAPH: True}" if ok else
           "an integer tensor can be made non-constant")
    # default
    for isfloat in (True, False):
        a3 = switch_assumptions(fi, track=True, extra={"NP_IS_V2": True, isf: isfloat, "constant is None": True,
                                                        real_test: True, "constant is False": False})
        cfg = build_cfg(run, fi, a3)
        n = cfg.node_for(st)
        v = st.value
        ok = False
        if n is not None and isinstance(v, ast.Name):
            defs = reaching_defs(cfg, v.id, n)
            ok = bool(defs) and all(d != ENTRY and norm(getattr(cfg.stmt[d], "value", ast.Constant(0))) == f"not {isf}" for d in defs)
        run.ob("R10.1", loc(fi, st), fi.short, f"default flag for {'float' if isfloat else 'integer/bool'} data is `not is_float`", ok,
               "the only reaching definition under `constant is None` is `constant = not is_float`" if ok else
               "default constant-ness is not derived from the dtype")
    # explicit
    a4 = switch_assumptions(fi, track=True, extra={"NP_IS_V2": True, isf: True, "constant is None": False})
    cfg = build_cfg(run, fi, a4)
    n = cfg.node_for(st)
    ok = False
    if n is not None and isinstance(st.value, ast.Name):
        ok = reaching_defs(cfg, st.value.id, n) == [ENTRY]
    run.ob("R10.1", loc(fi, st), fi.short, "an explicit constant= argument is stored unchanged", ok,
           "the parameter is the only reaching definition under `constant is not None`" if ok else "explicit flag overridden")
    # non-bool rejected
    cfg = build_cfg(run, fi, {"constant is not None and (not isinstance(constant, bool))": True})
    n = cfg.node_for(st)
    ok = n is None or not cfg.reachable(n)
    run.ob("R10.1", loc(fi, st), fi.short, "non-boolean constant= is rejected", ok,
           "store unreachable when the type test is true" if ok else "constant accepts arbitrary truthy objects")


def _const_guarded(run, fi, cfg, node, recv: str) -> bool:
    tests = [n for n, s in cfg.stmt.items() if cfg.label[n] == "If"]
    for t in tests:
        txt = norm(cfg.stmt[t])
        if txt in (f"{recv}.constant", f"{recv}._constant") and cfg.edge_dominates(t, "false", node):
            return True
        if txt in (f"not {recv}.constant", f"not {recv}._constant", f"{recv}.constant is False") and cfg.edge_dominates(t, "true", node):
            return True
    return False


def _only_own_grad(cfg, e, at, recv, depth) -> bool:
    """`e` evaluates to None or to (a copy of) what `<recv>.grad` reports -- nothing else flows into it"""
    from ..cfg import reaching_defs, ENTRY as _ENTRY
    if depth > 5:
        return False
    if isinstance(e, ast.Constant) and e.value is None:
        return True
    if isinstance(e, ast.Attribute):
        return norm(e) == f"{recv}.grad"
    if isinstance(e, ast.IfExp):
        return _only_own_grad(cfg, e.body, at, recv, depth + 1) and _only_own_grad(cfg, e.orelse, at, recv, depth + 1)
    if isinstance(e, ast.Call):
        d = dotted(e.func) or ""
        if d.split(".")[-1] in ("copy", "array", "asarray", "ascontiguousarray") and d.split(".")[0] in ("np", "numpy") and e.args:
            return _only_own_grad(cfg, e.args[0], at, recv, depth + 1)
        if isinstance(e.func, ast.Attribute) and e.func.attr in ("copy", "astype") and not d.startswith(("np.", "numpy.")):
            return _only_own_grad(cfg, e.func.value, at, recv, depth + 1)
        return False
    if isinstance(e, ast.Name):
        defs = reaching_defs(cfg, e.id, at)
        return bool(defs) and _ENTRY not in defs and all(
            getattr(cfg.stmt[d], "value", None) is not None and not isinstance(cfg.stmt[d], ast.AugAssign)
            and _only_own_grad(cfg, cfg.stmt[d].value, d, recv, depth + 1) for d in defs)
    return False


def r10_2(run):
    n = 0
    for fi, mod, st, t, val, kind in tensor_grad_stores(run):
        if is_none_value(val) or fi is None:
            continue
        n += 1
        recv = norm(t.value)
        assume = switch_assumptions(fi, track=True)
        cfg = build_cfg(run, fi, assume)
        node = cfg.node_for(st)
        if node is None or not cfg.reachable(node):
            continue
        ok = _const_guarded(run, fi, cfg, node, recv)
        why = f"dominated by the non-constant edge of a `{recv}.constant` test"
        construct = f"value store to {recv}._grad"
        if not ok and val is not None and _only_own_grad(cfg, val, node, recv, 0):
            # the tensor's own slot is set to what its grad property already reports; a constant tensor reports None
            # (owners never receive a gradient, views: the getter's constant guard, checked below)
            ok, why = True, f"re-stores {recv}.grad, the value the tensor itself reports (None for constant tensors: obligation discharged at the getter)"
        if not ok and fi.short == "nnet.layers.gru.GRUnit.backward":
            # exemption (DESIGN App. C): the op's own output; a constant tensor's creator is never scheduled
            src = fi.cls.methods.get("backward")
            hs = [x for x in own_nodes(fi.node) if isinstance(x, ast.Assign) and assigned_name(x) == recv
                  and "self._hidden_seq" in norm(x.value)]
            if hs:
                ok, why = True, "exempt: the receiver is the op's own output (self._hidden_seq()); collect_all_... never schedules a constant tensor"
        run.ob("R10.2", loc(mod, st), fi.short, construct, ok,
               why if ok else f"a gradient can be stored on {recv} although it is (or was requested to be) constant")
    run.count("value stores to Tensor._grad", n)
    # the gradient a *view* reports is derived on demand from its base and cached in _view_grad: same obligation
    m = 0
    for fi, mod, st, t, val, kind in facts(run).attribute_stores():
        if t.attr != "_view_grad" or fi is None or is_none_value(val) or kind == "del":
            continue
        m += 1
        recv = norm(t.value)
        cfg = build_cfg(run, fi, switch_assumptions(fi, track=True))
        node = cfg.node_for(st)
        if node is None or not cfg.reachable(node):
            continue
        ok = _const_guarded(run, fi, cfg, node, recv)
        run.ob("R10.2", loc(mod, st), fi.short, f"value store to {recv}._view_grad", ok,
               f"dominated by the non-constant edge of a `{recv}._constant` test" if ok else
               f"a view made with constant=True of a non-constant base derives a gradient from its base: a constant tensor reports a .grad")
    run.count("value stores to Tensor._view_grad", m)


def r10_3(run):
    fi = anchor_func(run, OP)
    cfg = build_cfg(run, fi, switch_assumptions(fi, track=True, memguard=True))
    tests = [n for n, s in cfg.stmt.items() if cfg.label[n] == "If" and norm(s) == "constant is None"]
    assigns = [n for n in own_nodes(fi.node) if isinstance(n, ast.Assign) and assigned_name(n) == "constant"]
    assigns = [a for a in assigns if cfg.node_for(a) is not None and cfg.reachable(cfg.node_for(a))]
    tests_any = [n for n, s in cfg.stmt.items() if cfg.label[n] == "If" and "constant is None" in norm(s).replace("constant is not None", "constant is None")]
    if not tests and not tests_any:
        run.ob("R10.3", loc(fi, fi.node), fi.short, "constant inference is guarded by `constant is None`", False,
               "no `constant is None` test: an explicit constant=False is treated like 'not given' and can be overridden")
    # semantic form: with an explicit flag (`constant is None` false) no assignment to `constant` is reachable -- whatever the spelling of the
    # guard (nested ifs, one conjunction, an early `if constant is not None:` branch)
    cfg_explicit = build_cfg(run, fi, switch_assumptions(fi, track=True, memguard=True, extra={"constant is None": False}))
    for a in assigns:
        na = cfg_explicit.node_for(a)
        ok = na is None or not cfg_explicit.reachable(na)
        run.ob("R10.3", loc(fi, a), fi.short, f"`{norm(a)}` only when no explicit flag was given", ok,
               "unreachable once `constant is None` is false" if ok else "an explicit constant=True/False can be overridden")
        v = a.value
        okv = (isinstance(v, ast.Constant) and v.value in (True, None))
        run.ob("R10.3", loc(fi, a), fi.short, f"inferred value `{norm(v)}` is True (all inputs constant) or None (defer to dtype)", okv,
               "inference never forces constant=False" if okv else "inference can force a flag that the dtype gate would reject")
    # inference test looks at all tensor inputs
    infer = [n for n, s in cfg.stmt.items() if cfg.label[n] == "If" and "constant" in norm(s) and "tensor_vars" in norm(s)]
    ok = any(norm(cfg.stmt[n]).replace(" ", "") in ("any((notvar.constantforvarintensor_vars))", "any(notvar.constantforvarintensor_vars)")
             or ("any(" in norm(cfg.stmt[n]) and "not" in norm(cfg.stmt[n])) or ("all(" in norm(cfg.stmt[n])) for n in infer)
    run.ob("R10.3", loc(fi, fi.node), fi.short, "inference quantifies over every element of tensor_vars", ok,
           "any(not var.constant for var in tensor_vars)" if ok else "constant inference does not look at all inputs")
    # value reaching the output constructor under an explicit flag is the parameter
    cfg2 = build_cfg(run, fi, switch_assumptions(fi, track=True, memguard=True, extra={"constant is None": False}))
    ctor = [c for c in own_nodes(fi.node) if isinstance(c, ast.Call) and kw(c, "_creator") is not None and norm(kw(c, "_creator")) != "None"]
    if not ctor:
        raise AnalysisError(f"{fi.short}: output tensor construction not found")
    for c in ctor:
        k = kw(c, "constant")
        n = cfg2.stmt_node_containing(c)
        ok = k is not None and isinstance(k, ast.Name) and n is not None and reaching_defs(cfg2, k.id, n) == [ENTRY]
        run.ob("R10.3", loc(fi, c), fi.short, "explicit constant reaches the output tensor unchanged", ok,
               "under `constant is not None` the parameter is the only reaching definition at cls(op_out, constant=...)" if ok else
               "the explicit flag does not reach the output tensor")
    # untracked path forwards the flag too
    cfg3 = build_cfg(run, fi, switch_assumptions(fi, track=False, memguard=True))
    for c in own_nodes(fi.node):
        if isinstance(c, ast.Call) and kw(c, "_creator") is not None and norm(kw(c, "_creator")) == "None":
            k = kw(c, "constant")
            n = cfg3.stmt_node_containing(c)
            ok = k is not None and isinstance(k, ast.Name) and n is not None and reaching_defs(cfg3, k.id, n) == [ENTRY]
            run.ob("R10.3", loc(fi, c), fi.short, "untracked result gets the caller's constant flag", ok,
                   "parameter forwarded" if ok else "flag dropped in no_autodiff mode")


def r10_4(run):
    fi = anchor_func(run, BACKWARD)
    cfg = build_cfg(run, fi, switch_assumptions(fi, track=True, extra={"self.constant": True}))
    bad = []
    for n, s in cfg.stmt.items():
        if not cfg.reachable(n):
            continue
        if isinstance(s, ast.Assign) and any(isinstance(t, ast.Attribute) and t.attr == "_grad" for t in s.targets) and not is_none_value(s.value):
            bad.append(s)
        if isinstance(s, (ast.Expr, ast.For)) and calls_named(s, "_backward") and not isinstance(s, ast.For):
            bad.append(s)
        if isinstance(s, ast.Expr) and calls_named(s, "collect_all_tensors_and_clear_grads"):
            bad.append(s)
    run.ob("R10.4", loc(fi, fi.node), fi.short, "backward() on a constant tensor stores no gradient and walks nothing", not bad,
           "no _grad store / _backward call / traversal reachable under `self.constant`" if not bad else
           f"reachable on a constant tensor: {norm(bad[0])[:60]}")
    cl = {cfg.stmt_node_containing(c) for c in calls_named(fi.node, "clear_graph")}
    cl.discard(None)
    w = cfg.all_paths_hit(ENTRY, cl, exits=(EXIT,)) if cl else [ENTRY, EXIT]
    run.ob("R10.4", loc(fi, fi.node), fi.short, "backward() on a constant tensor clears its graph", w is None,
           "graph-cut" if w is None else "graph of a constant result is never released")


def r10_5(run):
    """every public wrapper that exposes `constant` forwards it to _op/_in_place_op unchanged"""
    sites = opcontract.op_sites(run)
    n = 0
    for s in sites:
        params = s.fi.params()
        if "constant" not in params:
            continue
        if s.op_cls is not None and s.op_cls.module.name == "mygrad._utils.duplicating_graph":
            # exemption: UnView / ApplyMask are internal graph-surgery ops created by _in_place_op; their result's flag
            # is overwritten from the in-place target's own flag (checked below), not taken from the user
            run.ob("R10.5", loc(s.fi, s.call), s.fi.short, f"{s.kind}({norm(s.op_expr)}) internal graph-surgery op", True,
                   "exempt: not a user-visible operation", nontrivial=False)
            continue
        n += 1
        k = s.constant
        ok = k is not None and isinstance(k, ast.Name) and k.id == "constant"
        # the parameter itself must reach the call (no reassignment on any path to it)
        if ok:
            cfgs = build_cfg(run, s.fi)
            nn = cfgs.stmt_node_containing(s.call)
            ok = nn is not None and reaching_defs(cfgs, "constant", nn) == [ENTRY]
        run.ob("R10.5", loc(s.fi, s.call), s.fi.short, f"{s.kind}({norm(s.op_expr)}) forwards constant=constant", ok,
               "the wrapper's `constant` parameter is passed through unchanged" if ok else
               "the caller's constant= is dropped or replaced: `constant=True/False always wins` is violated")
    run.count("wrappers exposing constant", n)
    # in-place target keeps its own flag
    fi = anchor_func(run, f"{TENSOR}._in_place_op")
    cfg = build_cfg(run, fi, switch_assumptions(fi, track=True))
    keep = [x for x in own_nodes(fi.node) if isinstance(x, ast.Assign) and any(isinstance(t, ast.Attribute) and t.attr == "_constant" for t in x.targets)]
    mirrors = [cfg.stmt_node_containing(c) for c in calls_named(fi.node, "mirror_tensor")]
    ok = False
    chain = {}
    for x in keep:
        chain[norm(x.targets[0].value)] = norm(x.value)
    # placeholder_mutant_view._constant <- inplace_target._constant <- mutant_base.constant (copy of the base)
    seen = set()
    cur = None
    for recv, src in chain.items():
        pass
    srcs = set(chain.values())
    ok = any(v.endswith(".constant") or v.endswith("._constant") for v in srcs) and len(keep) >= 2 and all(
        any(cfg.dominates(cfg.node_for(x), m) for m in mirrors if m is not None) for x in keep if cfg.node_for(x) is not None)
    for x in keep:
        v = x.value
        plain = isinstance(v, ast.Attribute) and v.attr in ("constant", "_constant")
        run.ob("R10.5", loc(fi, x), fi.short, f"`{norm(x.targets[0])}` is a verbatim copy of another tensor's flag", plain,
               f"= {norm(v)}" if plain else
               f"`{norm(v)[:60]}` mixes in the flag inferred from the op's inputs: an in-place update from constant operands turns a non-constant target constant")
    root_ok = False
    for x in keep:
        src = x.value
        if isinstance(src, ast.Attribute) and src.attr in ("constant", "_constant") and isinstance(src.value, ast.Name):
            nn = cfg.node_for(x)
            defs = reaching_defs(cfg, src.value.id, nn) if nn is not None else []
            vals = [norm(getattr(cfg.stmt[d], "value", ast.Constant(0))) for d in defs if d != ENTRY]
            if vals and all(v == "graph.base.tensor.copy()" for v in vals):
                root_ok = True
    run.ob("R10.5", loc(fi, keep[0] if keep else fi.node), fi.short, "the flag re-imposed on the in-place result is the memory owner's (the private copy of the base)", root_ok,
           "flag read from the tensor produced by graph.base.tensor.copy()" if root_ok else
           "flag is taken from another tensor (e.g. the view being written): an update through a non-constant view flips the owner's flag")
    # the internal follow-up operations that splice the updated memory back into the graph (UnView, ApplyMask) infer their flag from their
    # operands -- the mutated tensor whose flag was just re-imposed and a placeholder; the caller's constant= belongs to the user's operation only
    for s_ in opcontract.op_sites(run):
        if s_.fi.qualname != fi.qualname or s_.op_cls is None or not s_.op_cls.qualname.startswith("mygrad._utils.duplicating_graph."):
            continue
        k_ = kw(s_.call, "constant")
        okk = k_ is None or (isinstance(k_, ast.Constant) and k_.value is None)
        run.ob("R10.5", loc(fi, s_.call), fi.short, f"internal {s_.op_cls.name} op takes no constant= from the caller", okk,
               "flag inferred from its operands" if okk else
               f"`constant={norm(k_)}` is handed to the internal {s_.op_cls.name} op: its result is mirrored into the target, so an out=/where= update with an "
               f"explicit constant= flips the target's own flag (and can cut the gradient path through the update)")
    run.ob("R10.5", loc(fi, keep[0] if keep else fi.node), fi.short, "in-place result inherits the target's own constant flag before being mirrored", ok,
           f"_constant propagated {chain} and dominates mirror_tensor" if ok else
           "an in-place update can change the constant flag of its target")


def _element_aliases(fn_node) -> Dict[str, ast.expr]:
    """locals bound exactly once (possibly in a tuple assignment) to an element of a sequence: `first = tensors[0]` / `first, last = tensors[0], tensors[-1]`"""
    counts: Dict[str, int] = {}
    vals: Dict[str, ast.expr] = {}
    for n in own_nodes(fn_node):
        if isinstance(n, ast.Name) and isinstance(n.ctx, (ast.Store, ast.Del)):
            counts[n.id] = counts.get(n.id, 0) + 1
        if isinstance(n, ast.Assign) and len(n.targets) == 1:
            t, v = n.targets[0], n.value
            pairs = [(t, v)] if isinstance(t, ast.Name) else (list(zip(t.elts, v.elts)) if isinstance(t, ast.Tuple) and isinstance(v, ast.Tuple)
                                                                and len(t.elts) == len(v.elts) else [])
            for tt, vv in pairs:
                if isinstance(tt, ast.Name) and isinstance(vv, ast.Subscript) and isinstance(vv.value, ast.Name):
                    vals[tt.id] = vv
    return {k: v for k, v in vals.items() if counts.get(k) == 1}


def r10_6(run):
    n = 0
    for fi in run.project.all_functions():
        el = _element_aliases(fi.node)
        for c in own_nodes(fi.node):
            if not isinstance(c, ast.Call):
                continue
            k = kw(c, "constant")
            if k is None or not c.args:
                continue
            src = None
            for x in ast.walk(k):
                if isinstance(x, ast.Attribute) and x.attr == "constant" and not isinstance(x.value, ast.Name) or \
                        (isinstance(x, ast.Attribute) and x.attr == "constant" and isinstance(x.value, ast.Name) and x.value.id not in ("self",)):
                    src = x.value
            if src is None or not isinstance(src, (ast.Subscript, ast.Name)):
                continue
            a0 = c.args[0]
            # an element of the operand sequence held in a local (`first = tensors[0]`) is that element
            if isinstance(src, ast.Name) and src.id in el and isinstance(a0, ast.Name) and a0.id in el:
                src_, a0_ = el[src.id], el[a0.id]
                if norm(src_.value) == norm(a0_.value):
                    n += 1
                    ok = norm(src_) == norm(a0_)
                    run.ob("R10.6", loc(fi, c), fi.short, f"{norm(c.func)}({norm(a0_)}, ..., constant=<flag of {norm(src_)}>)", ok,
                           "the re-wrapped operand keeps its own constant flag" if ok else
                           f"operand {norm(a0_)} is re-wrapped with the constant flag of {norm(src_)}: a non-constant operand silently stops receiving gradient")
                continue
            if isinstance(c.args[0], (ast.Subscript, ast.Name)) and type(c.args[0]) is type(src) and isinstance(src, ast.Subscript) \
                    and norm(src.value) == norm(c.args[0].value):
                n += 1
                ok = norm(src) == norm(c.args[0])
                run.ob("R10.6", loc(fi, c), fi.short, f"{norm(c.func)}({norm(c.args[0])}, ..., constant=<flag of {norm(src)}>)", ok,
                       "the re-wrapped operand keeps its own constant flag" if ok else
                       f"operand {norm(c.args[0])} is re-wrapped with the constant flag of {norm(src)}: a non-constant operand silently stops receiving gradient")
    run.count("operand re-wrapping sites with a derived constant flag", n)


def r10_7(run):
    """every function that accepts `constant` uses it (forwarding it to a tensor constructor / wrapper / _op)"""
    n = 0
    for fi in run.project.all_functions():
        if "constant" not in fi.params():
            continue
        body = [b for b in fi.node.body if not (isinstance(b, ast.Expr) and isinstance(b.value, ast.Constant))]
        if not body or all(isinstance(b, (ast.Pass, ast.Raise)) or (isinstance(b, ast.Expr) and isinstance(b.value, ast.Constant)) for b in body):
            continue  # signature stubs (ufunc declarations, abstract methods)
        if fi.has_decorator("overload"):
            continue
        n += 1
        used = any(isinstance(x, ast.Name) and x.id == "constant" and isinstance(x.ctx, ast.Load) for x in ast.walk(fi.node))
        run.ob("R10.7", loc(fi, fi.node), fi.short, "the `constant` parameter is used", used,
               "read in the body" if used else "`constant=` is accepted and silently ignored: the result's constant-ness is inferred although the caller fixed it")
    run.count("functions accepting constant=", n)


def r10_9(run):
    """operand normalisation keeps arrays arrays.  A NumPy array / Python number handed to a mygrad function is a constant input; wrapping it with
    astensor(x) / tensor(x) / Tensor(x) and *no* constant= turns a float array into a non-constant tensor, so the result of an all-constant call is
    inferred non-constant (and the array acquires a .grad).  Wrapping is fine with an explicit constant=, or when the value was produced by an
    operation of this function (then it already is a tensor)."""
    from ..cfg import CFG, reaching_defs
    n = 0
    for fi in run.project.all_functions():
        if fi.module.name.endswith(("tensor_base", "tensor_creation.funcs")) or fi.module.name.startswith("mygrad.nnet.initializers"):
            continue
        calls = [c for c in own_nodes(fi.node) if isinstance(c, ast.Call) and (dotted(c.func) or "").split(".")[-1] in ("astensor", "tensor", "Tensor")
                 and c.args and kw(c, "constant") is None and not any(k.arg is None for k in c.keywords)]
        if not calls:
            continue
        params = {a_.arg for a_ in fi.node.args.posonlyargs + fi.node.args.args + fi.node.args.kwonlyargs} - {"self", "cls"}
        cfg = CFG(fi.node)
        for c in calls:
            at = cfg.stmt_node_containing(c)
            if at is None:
                continue
            n += 1
            raw = None
            comp_vars = {}
            p_ = getattr(c, "_parent", None)
            while p_ is not None and p_ is not fi.node:
                if isinstance(p_, (ast.ListComp, ast.GeneratorExp, ast.SetComp)):
                    for g in p_.generators:
                        for x in ast.walk(g.target):
                            if isinstance(x, ast.Name):
                                comp_vars[x.id] = g.iter
                p_ = getattr(p_, "_parent", None)
            arg0 = c.args[0]
            while isinstance(arg0, ast.Subscript):
                arg0 = arg0.value
            for x in ([arg0] if isinstance(arg0, ast.Name) else []):  # the operand itself (or an item of it), not values computed from it
                src = comp_vars.get(x.id)
                names = [y.id for y in ast.walk(src) if isinstance(y, ast.Name)] if src is not None else [x.id]
                for nm in names:
                    if nm in params and ENTRY in reaching_defs(cfg, nm, at):
                        raw = nm
            run.ob("R10.9", loc(fi, c), fi.short, f"`{norm(c)[:50]}` does not re-wrap an operand the caller may have passed as an array", raw is None,
                   "the wrapped value is produced by this function's own operations (already a tensor), or constant= is explicit" if raw is None else
                   f"parameter `{raw}` reaches astensor/tensor without constant=: a float ndarray operand becomes a NON-constant tensor, so a call whose "
                   f"inputs are all constant yields a non-constant result and the array receives a gradient")
    run.count("tensor re-wrapping calls without constant=", n)


def r10_10(run):
    """the constant flag of a result is inferred in one place, Tensor._op.  A function that routes to an operation (it contains an _op /
    _in_place_op call site) must not *also* have a path on which it builds its result tensor itself -- Tensor(np.<kernel>(...), constant=constant):
    with `constant` unspecified that result is non-constant for float data although every input is constant (and no graph is recorded)."""
    fx = facts(run)
    by_fn = {}
    for s_ in opcontract.op_sites(run):
        by_fn.setdefault(s_.fi.qualname, (s_.fi, []))[1].append(s_)
    n = 0
    for q, (fi, ss) in sorted(by_fn.items()):
        if q == OP or q.endswith("._in_place_op") or q.endswith("._replay_op"):
            continue
        n += 1
        cls_name = fi.node.args.args[0].arg if fi.node.args.args and fi.node.args.args[0].arg in ("cls",) else None
        bad = []
        for r in own_nodes(fi.node):
            if not (isinstance(r, ast.Return) and r.value is not None):
                continue
            vals = [r.value]
            if isinstance(r.value, ast.Name):
                vals = [a_.value for a_ in own_nodes(fi.node) if isinstance(a_, ast.Assign) and assigned_name(a_) == r.value.id]
            for v in vals:
                for c in ([v] if isinstance(v, ast.Call) else []):
                    tgt = fx.resolve_call(fi, c)
                    qn = getattr(tgt, "qualname", "")
                    if qn in (TENSOR, f"{TENSOR}.__init__", "mygrad.tensor_base.tensor", "mygrad.tensor_base.astensor") or (
                            cls_name and isinstance(c.func, ast.Name) and c.func.id == cls_name):
                        # re-wrapping an operand the caller passed (astensor(x, constant=...)) is R10.9's business; here: a fresh result
                        if c.args and isinstance(c.args[0], ast.Call):
                            bad.append(c)
        run.ob("R10.10", loc(fi, bad[0] if bad else fi.node), fi.short, "results are produced by the operation machinery on every path", not bad,
               f"{len(ss)} operation site(s); no return builds a tensor from a kernel result" if not bad else
               f"`return {norm(bad[0])[:60]}` bypasses Tensor._op: the result's constant flag is not inferred from the inputs (an all-constant call "
               f"returns a non-constant tensor) and nothing is recorded")
    run.count("functions routing to operations checked for by-passing returns", n)


def check(run):
    run.rule("R10.10", "a function that routes to an operation builds no result tensor by itself on any path", floor=60)
    run.do(r10_10)
    run.rule("R10.1", "Tensor.__init__ (tracking on): dtype gate raises before `_constant` is stored; default is `not is_float`; explicit flag kept", floor=6)
    run.rule("R10.2", "every value store to a tensor's _grad is on the non-constant edge of a `.constant` test (or is the seed after the constant early-exit)", floor=5)
    run.rule("R10.3", "Tensor._op: `constant` is only inferred when it is None; the explicit flag reaches the output tensor", floor=5)
    run.rule("R10.4", "backward() on a constant tensor only clears the graph", floor=2)
    run.rule("R10.7", "no function accepts `constant` without using it", floor=100)
    run.rule("R10.6", "an operand that is re-wrapped (expand_dims/astensor...) with constant=<X>.constant uses its own flag", floor=2)
    run.rule("R10.5", "all wrappers forward constant=; in-place targets keep their flag", floor=80)
    run.do(r10_1)
    run.do(r10_2)
    run.do(r10_3)
    run.do(r10_4)
    run.do(r10_5)
    run.do(r10_6)
    run.do(r10_7)
    run.rule("R10.9", "no operand parameter is re-wrapped as a tensor without an explicit constant=", floor=0)
    run.do(r10_9)
    run.control("R10.9", r10_9, [("math/misc/funcs.py", None, None, "def _verif_control_r10_9(a, b, *, constant=None):\n    a = mg.astensor(a)\n    return matmul(a, b, constant=constant)")],
                "astensor(<operand parameter>) without constant=")
    run.rule("R10.8", "`constant` is consulted on every path of every function that accepts and uses it (2 reasoned exemptions)", floor=40)
    from .util import path_dead_option
    n = run.do(lambda r: path_dead_option(r, "R10.8", "constant", "the result's flag is decided by inference (or the operand is handed back as it is) although the "
                                          "caller passed constant=True/False -- 'constant=... always wins' fails on that branch"))
    run.count("functions with a `constant` option", n or 0)
