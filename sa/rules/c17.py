"""C17 -- construction and conversion: defaults/routing, pass-through guard, creation routines, detachment."""
from __future__ import annotations

import ast

from ..cfg import ENTRY, EXIT, RAISE, reaching_defs
from ..common import calls_named, dotted, kw, loc, norm
from ..model import AnalysisError, External, own_nodes
from .util import specialise_defaults, anchor_func, assigned_name, build_cfg, facts, switch_assumptions
from . import c10

TB = "mygrad.tensor_base"
CREATION = "mygrad.tensor_creation.funcs"

# literal defaults documented for the creation routines (float32 for zeros/ones/empty is MyGrad's documented
# deviation; everything else is NumPy's default)
DEFAULTS = {
    "empty": {"dtype": "np.float32"}, "ones": {"dtype": "np.float32"}, "zeros": {"dtype": "np.float32"},
    "empty_like": {"dtype": "None", "shape": "None"}, "ones_like": {"dtype": "None", "shape": "None"},
    "zeros_like": {"dtype": "None", "shape": "None"}, "full_like": {"dtype": "None", "shape": "None"},
    "full": {"dtype": "None"}, "eye": {"M": "None", "k": "0", "dtype": "float"}, "identity": {"dtype": "float"},
    "linspace": {"num": "50", "endpoint": "True", "dtype": "None", "axis": "0"},
    "logspace": {"num": "50", "endpoint": "True", "base": "10", "dtype": "None", "axis": "0"},
    "geomspace": {"num": "50", "endpoint": "True", "dtype": "None", "axis": "0"},
    "arange": {},
}


def _defaults(fn: ast.FunctionDef):
    a = fn.args
    pos = a.posonlyargs + a.args
    out = {}
    for p, d in zip(pos[len(pos) - len(a.defaults):], a.defaults):
        out[p.arg] = norm(d)
    for p, d in zip(a.kwonlyargs, a.kw_defaults):
        if d is not None:
            out[p.arg] = norm(d)
    return out


def r17_1(run):
    fx = facts(run)
    t = anchor_func(run, f"{TB}.tensor")
    init = anchor_func(run, f"{TB}.Tensor.__init__")
    at = anchor_func(run, f"{TB}.astensor")
    asa = anchor_func(run, f"{TB}.asarray")
    for f in (t, init):
        d = _defaults(f.node)
        run.ob("R17.1", loc(f, f.node), f.short, "copy defaults to True", d.get("copy") == "True",
               "copy: bool = True" if d.get("copy") == "True" else f"default copy={d.get('copy')}: tensor(x) aliases the caller's array")
        run.ob("R17.1", loc(f, f.node), f.short, "constant/dtype default to None, ndmin to 0",
               d.get("constant") == "None" and d.get("dtype") == "None" and d.get("ndmin") == "0", str(d))
    # tensor() -> Tensor(arr_like, dtype=dtype, constant=constant, copy=copy, ndmin=ndmin)
    ctor = [c for c in own_nodes(t.node) if isinstance(c, ast.Call) and dotted(c.func) == "Tensor"]
    # (every constructor call of tensor(): early-return guards may duplicate it)
    ok = len(ctor) >= 1 and all(all(kw(c_, k) is not None and norm(kw(c_, k)) == k for k in ("dtype", "constant", "copy", "ndmin"))
                                and c_.args and norm(c_.args[0]) == t.node.args.args[0].arg for c_ in ctor)
    run.ob("R17.1", loc(t, ctor[0] if ctor else t.node), t.short, "tensor() forwards dtype/constant/copy/ndmin to Tensor(...) by name", ok,
           "every option reaches the constructor under its own name" if ok else "an option of tensor() is dropped or crossed")
    # astensor
    calls = [c for c in own_nodes(at.node) if isinstance(c, ast.Call) and dotted(c.func) == "tensor"]
    ok = len(calls) == 1 and kw(calls[0], "copy") is not None and norm(kw(calls[0], "copy")) == "False" \
        and norm(kw(calls[0], "dtype") or ast.Constant(0)) == "dtype" and norm(kw(calls[0], "constant") or ast.Constant(0)) == "constant"
    run.ob("R17.1", loc(at, at.node), at.short, "astensor routes to tensor(..., copy=False) forwarding dtype and constant", ok,
           "tensor(t, dtype=dtype, constant=constant, copy=False, ...)" if ok else "astensor copies / drops an option")
    # asarray unwraps
    a0 = asa.node.args.args[0].arg
    from .util import default_assume
    cfg = build_cfg(run, asa, default_assume(asa.node, keep=(a0, "dtype", "order")))
    unwrap = [n for n in own_nodes(asa.node) if isinstance(n, ast.Assign) and assigned_name(n) == a0 and norm(n.value) == f"{a0}.data"]
    tests = [n for n, s in cfg.stmt.items() if cfg.label[n] == "If" and norm(s) == f"isinstance({a0}, Tensor)"]
    ok = bool(unwrap) and any(cfg.edge_dominates(tt, "true", cfg.node_for(unwrap[0])) for tt in tests)
    rets = [r for r in own_nodes(asa.node) if isinstance(r, ast.Return) and cfg.node_for(r) is not None and cfg.reachable(cfg.node_for(r))]
    def _opt(call_, name_, pos_):
        v_ = kw(call_, name_)
        if v_ is None and len(call_.args) > pos_:
            v_ = call_.args[pos_]   # np.asarray(a, dtype, order): the same parameters by position
        return norm(v_) if v_ is not None else None
    # the unwrapping may be written in place: np.asarray(a.data if isinstance(a, Tensor) else a, ...)
    inplace_unwrap = f"{a0}.data if isinstance({a0}, Tensor) else {a0}"
    ok2 = bool(rets) and all(isinstance(r.value, ast.Call) and fx.ext_name_of(asa, r.value.func) == "numpy.asarray" and r.value.args
                             and norm(r.value.args[0]) in (a0, inplace_unwrap) and _opt(r.value, "dtype", 1) == "dtype"
                             and _opt(r.value, "order", 2) == "order" for r in rets)
    if rets and all(isinstance(r.value, ast.Call) and r.value.args and norm(r.value.args[0]) == inplace_unwrap for r in rets):
        ok = True
    run.ob("R17.1", loc(asa, asa.node), asa.short, "asarray unwraps a tensor's .data and defers to np.asarray(a, dtype=, order=)", ok and ok2,
           "no copy unless NumPy needs one" if ok and ok2 else "asarray does not reuse the tensor's memory / drops dtype or order")
    d = _defaults(asa.node)
    ok = d.get("dtype") == "None" and d.get("order") == "None"
    run.ob("R17.1", loc(asa, asa.node), asa.short, "asarray defaults are NumPy's (dtype=None, order=None)", ok,
           "no layout/dtype is requested unless the caller asks" if ok else
           f"defaults {d}: a default order/dtype forces a copy of inputs that do not already have it (memory is not reused)")
    # Tensor.__array__: NumPy (np.array(t, copy=True), np.asarray(t, dtype=...)) delegates the copy decision to this protocol method and trusts
    # the result; Tensor.__init__/tensor() obtain their defensive copy of a tensor argument through it
    arr = anchor_func(run, f"{TB}.Tensor.__array__")
    cfga = build_cfg(run, arr, {"NP_IS_V2": True, "not NP_IS_V2": False})
    from ..cfg import reaching_defs as _rd
    rets = [r for r in own_nodes(arr.node) if isinstance(r, ast.Return) and cfga.node_for(r) is not None and cfga.reachable(cfga.node_for(r))]
    ok = bool(rets)
    why = "np.asarray(self.data, dtype=dtype, copy=copy) with both options as the caller gave them"
    for r in rets:
        v = r.value
        if not (isinstance(v, ast.Call) and fx.ext_name_of(arr, v.func) in ("numpy.asarray", "numpy.array") and v.args and norm(v.args[0]) == "self.data"
                and norm(kw(v, "dtype") or ast.Constant(0)) == "dtype" and norm(kw(v, "copy") or ast.Constant(0)) == "copy"):
            ok, why = False, f"`{norm(v)[:60]}` does not hand self.data, dtype and copy to NumPy"
            break
        for p_ in ("dtype", "copy"):
            if _rd(cfga, p_, cfga.node_for(r)) != [ENTRY]:
                ok, why = False, f"`{p_}` is re-bound before it reaches NumPy: a copy the caller (or NumPy on behalf of Tensor(x) / tensor(x)) asked for can be skipped, " \
                                 f"so the 'copy' aliases the tensor's memory"
    run.ob("R17.1", loc(arr, arr.node), arr.short, "__array__ forwards dtype and copy to NumPy unchanged", ok, why)
    # Tensor.__init__ copy handling (NumPy 2)
    cfgi = build_cfg(run, init, {"NP_IS_V2": True, "not NP_IS_V2": False})
    stores = [n for n in own_nodes(init.node) if isinstance(n, ast.Assign) and any(norm(t_) == "self.data" for t_ in n.targets)
              and cfgi.node_for(n) is not None and cfgi.reachable(cfgi.node_for(n))]
    x = init.node.args.args[1].arg
    for s in stores:
        v = s.value
        if isinstance(v, ast.Call) and fx.ext_name_of(init, v.func) == "numpy.asarray":
            def _has_conj(st):  # `copy is False`, possibly as one conjunct (`NP_IS_V2 and copy is False`)
                parts = st.values if isinstance(st, ast.BoolOp) and isinstance(st.op, ast.And) else [st]
                return any(norm(p) == "copy is False" for p in parts)

            tt = [n for n, st in cfgi.stmt.items() if cfgi.label[n] == "If" and _has_conj(st)]
            ok = any(cfgi.edge_dominates(q, "true", cfgi.node_for(s)) for q in tt) and norm(v.args[0]) == x \
                and norm(kw(v, "dtype") or ast.Constant(0)) == "dtype"
            run.ob("R17.1", loc(init, s), init.short, "np.asarray(x, dtype=dtype) used exactly when copy is False", ok,
                   "memory reused only on request" if ok else "constructor aliases the input although copy was not False / drops dtype")
        elif isinstance(v, ast.Call) and fx.ext_name_of(init, v.func) == "numpy.array":
            ok = norm(v.args[0]) == x and all(norm(kw(v, k) or ast.Constant(0)) == k for k in ("dtype", "copy", "ndmin"))
            run.ob("R17.1", loc(init, s), init.short, "np.array(x, dtype=dtype, copy=copy, ndmin=ndmin) otherwise", ok,
                   "all options forwarded by name" if ok else "an option of the constructor is dropped")
        else:
            ok = norm(v).startswith("self.data[")
            run.ob("R17.1", loc(init, s), init.short, f"ndmin padding {norm(v)[:40]}", ok, "new leading axes are a view of the same data" if ok else "?")


def r17_2(run):
    t = anchor_func(run, f"{TB}.tensor")
    a0 = t.node.args.args[0].arg
    rets = [r for r in own_nodes(t.node) if isinstance(r, ast.Return) and r.value is not None and norm(r.value) == a0]
    if not rets:
        raise AnalysisError(f"{t.short}: pass-through `return {a0}` not found")
    conds = [
        ("copy is not False", {"copy is False": False}),
        ("input is not a Tensor", {f"isinstance({a0}, Tensor)": False}),
        ("constant flag differs", {"constant is None": False, f"{a0}.constant is constant": False}),
        ("dtype differs", {"dtype is None": False, f"{a0}.dtype == np.dtype(dtype)": False}),
    ]
    for label, assume in conds:
        cfg = build_cfg(run, t, assume)
        reach = [r for r in rets if cfg.node_for(r) is not None and cfg.reachable(cfg.node_for(r))]
        run.ob("R17.2", loc(t, rets[0]), t.short, f"no pass-through when {label}", not reach,
               f"`return {a0}` is dead under {assume}" if not reach else
               f"tensor() can return its argument itself although {label}")
    cfg = build_cfg(run, t, {"copy is False": True, f"isinstance({a0}, Tensor)": True, "constant is None": True, "dtype is None": True,
                             "not isinstance(ndmin, Integral)": False})
    w = cfg.all_paths_hit(ENTRY, {cfg.node_for(r) for r in rets}, exits=(EXIT,))
    run.ob("R17.2", loc(t, rets[0]), t.short, "matching tensor with copy=False is returned itself (graph and gradient intact)", w is None,
           "under the matching assumptions every normal path ends in the pass-through return" if w is None else
           "astensor(t) builds a new tensor although nothing needs to change", path=cfg.path_text(w) if w else None)


def r17_3(run):
    fx = facts(run)
    mod = run.project.module(CREATION)
    n = 0
    for name, fi in sorted(mod.functions.items()):
        if name.startswith("_"):
            continue
        n += 1
        rets = [r for r in own_nodes(fi.node) if isinstance(r, ast.Return)]
        if len(rets) != 1 or not isinstance(rets[0].value, ast.Call) or dotted(rets[0].value.func) != "Tensor":
            run.ob("R17.3", loc(fi, fi.node), fi.short, "routine returns Tensor(np.<name>(...), constant=constant, copy=False)", False,
                   "unrecognised body shape")
            continue
        tc = rets[0].value
        inner = tc.args[0] if tc.args else None
        ext = fx.ext_name_of(fi, inner.func) if isinstance(inner, ast.Call) else None
        ok = ext == f"numpy.{name}"
        run.ob("R17.3", loc(fi, rets[0]), fi.short, f"delegates to numpy.{name}", ok, f"calls {ext}" if ok else f"calls {ext}: not the NumPy namesake")
        ok = kw(tc, "copy") is not None and norm(kw(tc, "copy")) == "False" and kw(tc, "constant") is not None and norm(kw(tc, "constant")) == "constant" \
            and kw(tc, "dtype") is None
        run.ob("R17.3", loc(fi, rets[0]), fi.short, "wrapped with constant=constant, copy=False and no second dtype", ok,
               "the fresh array is adopted as is" if ok else "result copied again / constant dropped / dtype re-cast")
        if not isinstance(inner, ast.Call):
            continue
        a = fi.node.args
        pos = [x.arg for x in a.posonlyargs + a.args]
        allp = pos + [x.arg for x in a.kwonlyargs]
        if a.vararg or a.kwarg:
            okv = (not a.vararg or any(isinstance(x, ast.Starred) and norm(x.value) == a.vararg.arg for x in inner.args)) and \
                  (not a.kwarg or any(k.arg is None and norm(k.value) == a.kwarg.arg for k in inner.keywords))
            run.ob("R17.3", loc(fi, rets[0]), fi.short, "*args/**kwargs forwarded wholesale", okv,
                   "np.<name>(*args, **kwargs)" if okv else "star arguments not forwarded")
        for i, p in enumerate(allp):
            if p == "constant":
                continue
            how = None
            for j, arg in enumerate(inner.args):
                if _is_param(arg, p):
                    how = ("pos", j)
            for k in inner.keywords:
                if k.arg is not None and _is_param(k.value, p):
                    how = ("kw", k.arg)
            ok = how is not None and ((how[0] == "kw" and how[1] == p) or (how[0] == "pos" and p in pos and how[1] == pos.index(p)))
            run.ob("R17.3", loc(fi, rets[0]), fi.short, f"parameter {p} forwarded to numpy.{name}", ok,
                   f"as {'keyword ' + how[1] if how and how[0] == 'kw' else 'positional #' + str(how[1]) if how else '-'}" if ok else
                   (f"parameter {p} never reaches numpy.{name}: the option is silently ignored" if how is None else
                    f"parameter {p} is passed as {how}: crossed with another option"))
        rebound = set()
        for x in own_nodes(fi.node):
            if isinstance(x, ast.Name) and isinstance(x.ctx, (ast.Store, ast.Del)) and x.id in allp and x.id != "constant":
                stx = getattr(x, "_parent", None)
                val = norm(stx.value) if isinstance(stx, ast.Assign) and len(stx.targets) == 1 else None
                p_ = x.id
                unwrap = (f"_anything_but_tensor({p_})", f"{p_}.data", f"{p_}.data if isinstance({p_}, Tensor) else {p_}")
                if val in unwrap:
                    continue  # unwrapping a Tensor to its array keeps dtype and shape
                rebound.add(p_)
        rebound = sorted(rebound)
        run.ob("R17.3", loc(fi, rets[0]), fi.short, "parameters reach NumPy as the caller gave them (none is rebound first)", not rebound,
               "no parameter is assigned in the body" if not rebound else
               f"{rebound} rebound before the NumPy call: NumPy's result-type rules see a different object than the caller passed "
               f"(a 0-d array turned into a Python scalar loses its dtype)")
        d = _defaults(fi.node)
        want = DEFAULTS.get(name)
        if want is None:
            run.ob("R17.3", loc(fi, fi.node), fi.short, "defaults table has an entry for this routine", False,
                   "new creation routine without a frozen default table entry")
        else:
            got = {k: v for k, v in d.items() if k != "constant"}
            ok = got == want
            run.ob("R17.3", loc(fi, fi.node), fi.short, f"literal defaults {got}", ok,
                   "equal to the documented table" if ok else f"defaults differ from the documented/NumPy ones {want}")
    run.count("creation routines", n)


def _is_param(e: ast.AST, p: str) -> bool:
    if isinstance(e, ast.Name) and e.id == p:
        return True
    if isinstance(e, ast.Call) and dotted(e.func) == "_anything_but_tensor" and len(e.args) == 1 and norm(e.args[0]) == p:
        return True
    return False


def r17_4(run):
    fx = facts(run)
    cp = specialise_defaults(anchor_func(run, f"{TB}.Tensor.copy"), keep=("constant",))
    rets = [r for r in own_nodes(cp.node) if isinstance(r, ast.Return)]
    builds = [c for c in own_nodes(cp.node) if isinstance(c, ast.Call) and dotted(c.func) in ("Tensor", "type(self)")]
    ok = len(builds) == 1 and builds[0].args and norm(builds[0].args[0]) in ("np.copy(self.data)", "self.data.copy()") \
        and kw(builds[0], "_creator") is None and kw(builds[0], "_base") is None and kw(builds[0], "copy") is None
    run.ob("R17.4", loc(cp, cp.node), cp.short, "copy() builds a new tensor from np.copy(self.data) with no creator/base", ok,
           "detached, own memory" if ok else "copy() shares memory or graph with the original")
    k = kw(builds[0], "constant") if builds else None
    ok = k is not None and norm(k).replace(" ", "") in ("self.constantifconstantisNoneelseconstant", "constantifconstantisnotNoneelseself.constant")
    if not ok and isinstance(k, ast.Name) and builds:
        # statement form:  if constant is None: constant = self.constant   ...   Tensor(..., constant=constant)
        cfgc = build_cfg(run, cp)
        at = cfgc.stmt_node_containing(builds[0])
        defs = reaching_defs(cfgc, k.id, at) if at is not None else []
        tests = [t for t, st_ in cfgc.stmt.items() if cfgc.label.get(t) == "If" and norm(st_) == f"{k.id} is None"]
        inner = [d for d in defs if d != ENTRY]
        ok = ENTRY in defs and bool(inner) and k.id in {a_.arg for a_ in cp.node.args.args + cp.node.args.kwonlyargs} and all(
            norm(getattr(cfgc.stmt[d], "value", ast.Constant(0))) == "self.constant" and any(cfgc.edge_dominates(t, "true", d) for t in tests) for d in inner)
    run.ob("R17.4", loc(cp, cp.node), cp.short, "copy() keeps the flag unless constant= is given", ok, norm(k) if k is not None else "-")
    ast_ = anchor_func(run, f"{TB}.Tensor.astype")
    cast = [n for n in own_nodes(ast_.node) if isinstance(n, ast.Assign) and isinstance(n.value, ast.Call)
            and norm(n.value.func) == "self.data.astype"]
    ok = len(cast) == 1 and all(norm(kw(cast[0].value, x) or ast.Constant(0)) == x for x in ("dtype", "casting", "copy"))
    run.ob("R17.4", loc(ast_, ast_.node), ast_.short, "astype casts with self.data.astype(dtype=, casting=, copy=)", ok,
           "all three options forwarded" if ok else "an option is dropped")
    cd = assigned_name(cast[0]) if cast else None
    rets = [r for r in own_nodes(ast_.node) if isinstance(r, ast.Return)]
    for r in rets:
        if norm(r.value) == "self":
            cfg = build_cfg(run, ast_)
            tests = [n for n, s in cfg.stmt.items() if cfg.label[n] == "If" and f"{cd} is self.data" in norm(s) and "constant" in norm(s)]
            ok = any(cfg.edge_dominates(t, "true", cfg.node_for(r)) for t in tests)
            for label, assume in (("an explicit, different constant= was given", {"constant is None": False, "self.constant is constant": False}),
                                  ("a cast produced a new array", {f"{cd} is self.data": False})):
                c2 = build_cfg(run, ast_, assume)
                n2 = c2.node_for(r)
                dead = n2 is None or not c2.reachable(n2)
                run.ob("R17.4", loc(ast_, r), ast_.short, f"astype does not return self when {label}", dead,
                       f"`return self` is dead under {assume}" if dead else
                       f"astype can hand back the (graph-attached, unchanged) original although {label}")
            run.ob("R17.4", loc(ast_, r), ast_.short, "astype returns self only if no cast happened and the flag matches", ok,
                   "guarded by `cast_data is self.data and (constant is None or self.constant is constant)`" if ok else
                   "astype can return the (graph-attached) original although a change was requested")
        else:
            c = r.value
            ok = isinstance(c, ast.Call) and norm(c.func) in ("type(self)", "Tensor") and c.args and norm(c.args[0]) == cd \
                and kw(c, "_creator") is None and kw(c, "_base") is None and norm(kw(c, "copy") or ast.Constant(0)) == "False" \
                and norm(kw(c, "constant") or ast.Constant(0)) == "constant"
            run.ob("R17.4", loc(ast_, r), ast_.short, "astype result is a detached tensor over the cast array", ok,
                   "type(self)(cast_data, copy=False, constant=constant)" if ok else "cast result keeps graph links or is copied twice")


def check(run):
    run.rule("R17.1", "tensor()/Tensor() default copy=True and forward every option; astensor routes copy=False; asarray unwraps .data; "
             "Tensor.__init__ aliases only when copy is False", floor=8)
    run.rule("R17.2", "tensor(): returning the input itself is dead unless copy is False, the input is a Tensor, and constant and dtype match", floor=5)
    run.rule("R17.3", "every creation routine delegates to its NumPy namesake, forwards every parameter by name/position, adopts the array "
             "with copy=False, and has the documented literal defaults", floor=60)
    run.rule("R17.4", "copy()/astype() return tensors detached from any graph", floor=5)
    run.rule("R17.5", "= R10.1 dtype gate of Tensor.__init__ while tracking", floor=5)
    run.do(r17_1)
    run.do(r17_2)
    run.do(r17_3)
    run.do(r17_4)
    before = len(run.obligations)
    run.do(c10.r10_1)
    for o in run.obligations[before:]:
        o.rule = "R17.5"
