"""C06 -- a view's gradient is the corresponding view of its base's gradient."""
from __future__ import annotations

import ast

from ..cfg import ENTRY, EXIT, RAISE, reaching_defs
from ..common import calls_named, dotted, kw, loc, norm, stmt_of
from ..model import AnalysisError, own_nodes
from .util import anchor_func, assigned_name, build_cfg, facts, is_none_transfer_arm, switch_assumptions
from .c14 import is_none_value, tensor_grad_stores

TENSOR = "mygrad.tensor_base.Tensor"
CLEAR = f"{TENSOR}.clear_graph"
GRAD = f"{TENSOR}.grad"
OP_BACKWARD = "mygrad.operation_base.Operation.backward"


def r06_1(run):
    fi = anchor_func(run, CLEAR)
    cfg = build_cfg(run, fi, {"self._base is not None": True, "self.base is not None": True})
    drops = [n for n in own_nodes(fi.node) if isinstance(n, ast.Assign) and any(norm(t) == "self._creator" for t in n.targets)]
    reads = set()
    for n, s in cfg.stmt.items():
        if isinstance(s, (ast.Assign, ast.Expr)):
            for x in ast.walk(s):
                if isinstance(x, ast.Attribute) and x.attr == "grad" and norm(x.value) == "self" and isinstance(x.ctx, ast.Load):
                    reads.add(n)
    if not drops:
        raise AnalysisError(f"{fi.short}: `self._creator = None` not found")
    for d in drops:
        nd = cfg.node_for(d)
        ok = bool(reads) and cfg.set_dominates(reads, nd)
        run.ob("R06.1", loc(fi, d), fi.short, "a view pulls its gradient (reads self.grad) before its creator is dropped", ok,
               "under `self._base is not None` a read of self.grad cuts every path to `self._creator = None`" if ok else
               "after backward() a view's .grad reads None: the creator needed to replay the view on the base's gradient is gone")
    # also before the children/consumers are cleared? not required.  The pull must be guarded by the base test only
    cfg0 = build_cfg(run, fi, {"self._base is not None": False, "self.base is not None": False})
    r0 = [n for n in reads if cfg0.stmt.get(n) is not None]
    run.ob("R06.1", loc(fi, fi.node), fi.short, "the pull is executed for every view (guard is exactly the base test)", bool(reads),
           "read present on the base-is-not-None edge" if reads else "no pull")


def r06_2(run):
    """paired nulling: whoever sets _grad to None sets _view_grad to None on the same paths"""
    by_fn = {}
    for fi, mod, st, t, val, kind in tensor_grad_stores(run):
        if fi is None or not is_none_value(val):
            continue
        if is_none_transfer_arm(st):
            continue  # `t._grad = f(src) if src is not None else None`: a transfer of the source's state, not a discard
        by_fn.setdefault(fi.qualname, (fi, []))[1].append((st, norm(t.value)))
    if len(by_fn) < 3:
        raise AnalysisError(f"expected >= 3 functions nulling Tensor._grad, found {len(by_fn)}")
    for q, (fi, lst) in sorted(by_fn.items()):
        cfg = build_cfg(run, fi, switch_assumptions(fi, track=True, memguard=True))
        for st, recv in lst:
            a = cfg.node_for(st)
            if a is None or not cfg.reachable(a):
                continue
            partners = [n for n in own_nodes(fi.node) if isinstance(n, (ast.Assign, ast.AnnAssign)) and is_none_value(n.value)
                        and any(norm(t) == f"{recv}._view_grad" for t in (n.targets if isinstance(n, ast.Assign) else [n.target]))]
            ok = False
            for p in partners:
                b = cfg.node_for(p)
                if b is None:
                    continue
                if cfg.dominates(b, a) and cfg.all_paths_hit(b, {a}, exits=(EXIT,)) is None:
                    ok = True
                if cfg.dominates(a, b) and cfg.all_paths_hit(a, {b}, exits=(EXIT,)) is None:
                    ok = True
            run.ob("R06.2", loc(fi, st), fi.short, f"{recv}._grad = None is paired with {recv}._view_grad = None", ok,
                   "the two stores dominate / post-dominate each other on normal paths" if ok else
                   "a tensor's own gradient can be nulled while its cached view-gradient survives (stale .grad on a view)")


def r06_4(run):
    """Tensor.grad obtains a view's gradient by replaying the view op on the base's gradient; that only yields a view
    if the base's gradient has the base *data's* memory layout. The first contribution must be allocated accordingly."""
    fi = anchor_func(run, OP_BACKWARD)
    cfg = build_cfg(run, fi, {"NP_IS_V2": True})
    loops = [n for n in own_nodes(fi.node) if isinstance(n, ast.For) and "self.variables" in norm(n.iter)]
    var = [x.id for x in ast.walk(loops[0].target) if isinstance(x, ast.Name)][-1]
    plain = [n for n in own_nodes(fi.node) if isinstance(n, ast.Assign) and any(norm(t) == f"{var}._grad" for t in n.targets)
             and not is_none_value(n.value)]
    if not plain:
        raise AnalysisError(f"{fi.short}: first-contribution store not found")
    fx = facts(run)
    _RESOLVE["f"] = lambda call: (lambda r: r if hasattr(r, "node") and hasattr(r, "qualname") else None)(fx.resolve_call(fi, call))
    for s in plain:
        ok = _layout_of_var(cfg, s.value, cfg.node_for(s), var, 0)
        run.ob("R06.4", loc(fi, s), fi.short, f"first contribution to {var}._grad is laid out like {var}.data", ok,
               f"allocated with *_like({var}.data) (memory order of the tensor's own array)" if ok else
               f"stored as produced / np.copy(order='K') of the producer's result: {var}.grad can have a different memory layout "
               f"than {var}.data, so replaying a reshape-like view op on it copies (or fails) instead of viewing")
    # whatever is done about D5, a copy made here must at least keep the producer's layout (np.copy: order='K'); ndarray.copy() is order='C'
    copies = []
    for n in own_nodes(fi.node):
        if isinstance(n, ast.Call):
            d = dotted(n.func) or ""
            if d in ("np.copy", "numpy.copy") or (isinstance(n.func, ast.Attribute) and n.func.attr == "copy" and not d.startswith("np.")):
                copies.append(n)
    for c in copies:
        o = kw(c, "order")
        is_np = (dotted(c.func) or "") in ("np.copy", "numpy.copy")
        ok = (is_np and (o is None or norm(o) in ("'K'", "'A'"))) or (not is_np and o is not None and norm(o) in ("'K'", "'A'"))
        run.ob("R06.4", loc(fi, c), fi.short, f"copy `{norm(c)[:40]}` of a gradient contribution preserves its memory layout", ok,
               "np.copy (order='K')" if ok else
               "ndarray.copy() defaults to C order: a column-major first contribution is re-laid out, so views of an F-ordered base can no longer "
               "be views of its gradient")
    # the grad property: replays the creator's op on the parent's grad, inside no_autodiff, validated by base identity
    g = anchor_func(run, GRAD)
    cfgg = build_cfg(run, g)
    rp = calls_named(g.node, "_replay_op")
    ok = bool(rp) and all(norm(c.func.value) == "self" for c in rp)
    withs = [n for n in own_nodes(g.node) if isinstance(n, ast.With) and any("no_autodiff" in norm(i.context_expr) for i in n.items)]
    inside = bool(rp) and any(any(x is rp[0] for x in ast.walk(w)) for w in withs)
    run.ob("R06.4", loc(g, rp[0] if rp else g.node), g.short, "view gradient = self._replay_op(parent.grad) evaluated under no_autodiff", ok and inside,
           "replay of the creator's view op on the parent's gradient, untracked" if ok and inside else
           "the view's gradient is not obtained by replaying its view op on the parent's gradient (or the replay is recorded in the graph)")
    valid = [n for n, s in cfgg.stmt.items() if cfgg.label[n] == "If" and "_view_grad.base is self._base._grad" in norm(s).replace("(", "").replace(")", "")]
    run.ob("R06.4", loc(g, g.node), g.short, "cached view gradient is validated by base identity with the base's current gradient", bool(valid),
           "`self._view_grad.base is self._base._grad`" if valid else "a stale cached view-gradient can be returned after the base's gradient changed")
    rets_vg = [n for n, s in cfgg.stmt.items() if isinstance(s, ast.Return) and s.value is not None and norm(s.value) == "self._view_grad"]
    stores_vg = {n for n, s in cfgg.stmt.items() if isinstance(s, ast.Assign) and any(norm(t) == "self._view_grad" for t in s.targets)}
    for rn in rets_vg:
        ok = cfgg.set_dominates(stores_vg, rn) or any(cfgg.edge_dominates(t, "true", rn) for t in valid)
        run.ob("R06.5", loc(g, cfgg.stmt[rn]), g.short, "a cached view gradient is returned only after the base-identity validation (or right after it was recomputed)", ok,
               "return is edge-dominated by the validation test / dominated by a fresh store" if ok else
               "an unvalidated cached view gradient can be returned: stale .grad on a view after its base received a new gradient")
    # scenario: the base's gradient was discarded (None) while the view still caches a gradient that is not a view (its .base is None, e.g. the
    # replay of ravel/reshape on an F-ordered gradient copied): `None is None` must not validate the cache
    sc = build_cfg(run, g, {"self._base is None": False, "self._constant": False, "self._view_grad is not None": True,
                            "self._view_grad.base is self._base._grad": True, "self._base._grad is None": True, "self._base._grad is not None": False})
    cached = [n for n, s in sc.stmt.items() if isinstance(s, ast.Return) and s.value is not None and norm(s.value) == "self._view_grad"
              and sc.reachable(n) and not sc.set_dominates({m for m, s2 in sc.stmt.items() if isinstance(s2, ast.Assign)
                                                            and any(norm(t) == "self._view_grad" for t in s2.targets)}, n)]
    run.ob("R06.5", loc(g, sc.stmt[cached[0]] if cached else g.node), g.short, "no cached view gradient is returned while the base has no gradient", not cached,
           "under {base._grad is None} every cached return is unreachable" if not cached else
           "with base._grad None and a cached view gradient that owns its memory, `_view_grad.base is base._grad` reads `None is None`: the view keeps "
           "reporting the gradient its base has already discarded")
    base_ret = [n for n, s in cfgg.stmt.items() if cfgg.label[n] == "If" and norm(s) in ("self._base is None", "self.base is None")]
    ok = False
    for t in base_ret:
        for n, s in cfgg.stmt.items():
            if isinstance(s, ast.Return) and s.value is not None and norm(s.value) == "self._grad" and cfgg.edge_dominates(t, "true", n):
                ok = True
    run.ob("R06.4", loc(g, g.node), g.short, "a memory owner returns its own accumulated gradient", ok,
           "`if self._base is None: return self._grad`" if ok else "owners do not return their own gradient")


_RESOLVE = {}


def _layout_of_var(cfg, value, at, var, depth) -> bool:
    """The value stored at node `at` is laid out in memory like <var>.data on every path: it is a buffer allocated *_like(<var>.data)
    (then filled), or it reaches the store only over the equal-strides edge of a test comparing its strides with <var>.data.strides,
    through layout-preserving maps (astype / np.copy keep order 'K')."""
    import networkx as nx
    from ..cfg import stmt_defines
    from .util import buffer_fill
    if depth > 6 or value is None:
        return False
    if isinstance(value, ast.Call):
        d = (dotted(value.func) or "").split(".")[-1]
        return d in ("empty_like", "zeros_like", "ones_like", "full_like") and bool(value.args) and norm(value.args[0]) == f"{var}.data" \
            and (kw(value, "order") is None or norm(kw(value, "order")) in ("'K'", "'A'"))
    if not isinstance(value, ast.Name):
        return False
    g = value.id
    defs = reaching_defs(cfg, g, at)
    if not defs:
        return False
    tests = []
    for n, st in cfg.stmt.items():
        if cfg.label.get(n) == "If" and isinstance(st, ast.Compare) and len(st.ops) == 1 and isinstance(st.ops[0], (ast.NotEq, ast.Eq)) \
                and {norm(st.left), norm(st.comparators[0])} == {f"{g}.strides", f"{var}.data.strides"}:
            tests.append((n, "false" if isinstance(st.ops[0], ast.NotEq) else "true"))
    for d in defs:
        if d == ENTRY:
            return False
        st = cfg.stmt[d]
        v = getattr(st, "value", None)
        if isinstance(v, ast.Name) and v.id != g:
            bf = buffer_fill(cfg, v.id, d)
            if bf is not None and norm(bf[1]) == f"{var}.data" and (kw(bf[0], "order") is None or norm(kw(bf[0], "order")) in ("'K'", "'A'")):
                continue  # re-laid-out copy
            return False
        def _keeps_layout(e):
            if isinstance(e, ast.Name):
                return e.id == g
            if isinstance(e, ast.IfExp):
                return _keeps_layout(e.body) and _keeps_layout(e.orelse)
            if isinstance(e, ast.Call):
                if isinstance(e.func, ast.Attribute) and e.func.attr == "astype" and norm(e.func.value) == g and kw(e, "order") is None:
                    return True
                return (dotted(e.func) or "") in ("np.copy", "numpy.copy") and bool(e.args) and norm(e.args[0]) == g \
                    and (kw(e, "order") is None or norm(kw(e, "order")) in ("'K'", "'A'"))
            return False
        selfmap = (isinstance(v, ast.IfExp) and _keeps_layout(v)) or isinstance(st, ast.AugAssign) or (isinstance(v, ast.Call) and (
            (isinstance(v.func, ast.Attribute) and v.func.attr == "astype" and norm(v.func.value) == g and kw(v, "order") is None)
            or ((dotted(v.func) or "") in ("np.copy", "numpy.copy") and v.args and norm(v.args[0]) == g and (kw(v, "order") is None or norm(kw(v, "order")) in ("'K'", "'A'")))))
        if not selfmap and isinstance(v, ast.Call) and isinstance(v.func, ast.Name) and _RESOLVE.get("f") is not None:
            # a small repo helper every return of which is its parameter, np.copy(parameter) (order 'K') or parameter.astype(...)
            h = _RESOLVE["f"](v)
            if h is not None and hasattr(h, "node") and not h.node.args.vararg:
                params = [a_.arg for a_ in h.node.args.args]
                pos = [i for i, a_ in enumerate(v.args) if norm(a_) == g]
                rets = [r for r in own_nodes(h.node) if isinstance(r, ast.Return)]
                if len(pos) == 1 and pos[0] < len(params) and rets:
                    pn = params[pos[0]]

                    def keeps(e):
                        if isinstance(e, ast.IfExp):
                            return keeps(e.body) and keeps(e.orelse)
                        if isinstance(e, ast.Name):
                            return e.id == pn
                        if isinstance(e, ast.Call):
                            dd = dotted(e.func) or ""
                            if dd in ("np.copy", "numpy.copy") and e.args and norm(e.args[0]) == pn and (kw(e, "order") is None or norm(kw(e, "order")) in ("'K'", "'A'")):
                                return True
                            if isinstance(e.func, ast.Attribute) and e.func.attr == "astype" and norm(e.func.value) == pn and kw(e, "order") is None:
                                return True
                        return False
                    selfmap = all(r.value is not None and keeps(r.value) for r in rets) and \
                        not any(isinstance(x, ast.Name) and x.id == pn and isinstance(x.ctx, ast.Store) for x in own_nodes(h.node))
        if selfmap:
            if not _layout_of_var(cfg, ast.Name(id=g, ctx=ast.Load()), d, var, depth + 1):
                return False
            continue
        if isinstance(v, ast.Call) and _layout_of_var(cfg, v, d, var, depth + 1):
            continue
        # any other definition: every definition-clear path from it to `at` must take the equal-strides edge
        if not tests:
            return False
        h = cfg.g.copy()
        h.remove_nodes_from([n for n, s2 in cfg.stmt.items() if n not in (d, at) and s2 is not None and stmt_defines(s2, g)])
        for t, kind in tests:
            if t not in h:
                continue
            for b in list(h.successors(t)):
                kinds = cfg.g[t][b].get("kinds", set())
                if kind in kinds and len(kinds) == 1:
                    h.remove_edge(t, b)
        if d in h and at in h and nx.has_path(h, d, at):
            return False
    return True


def check(run):
    run.rule("R06.1", "clear_graph: on the view path a read of self.grad dominates `self._creator = None`", floor=2)
    run.rule("R06.2", "every function nulling _grad nulls _view_grad on the same paths", floor=3)
    run.rule("R06.3", "= R12.3 (engine-owned, distinct gradient storage) -- decided under C12", floor=0)
    run.rule("R06.5", "Tensor.grad returns the cached view gradient only validated or freshly recomputed", floor=2)
    run.rule("R06.4", "the first contribution stored into var._grad has var.data's memory layout; Tensor.grad replays the view op, "
             "untracked, and validates its cache by base identity", floor=4)
    run.do(r06_1)
    run.do(r06_2)
    run.do(r06_4)
