"""C02 -- each op's backward is the VJP of its own forward: derivative-table agreement (term domain) for closed-form ops,
linearity in grad, index exhaustiveness, state defined before use."""
from __future__ import annotations

import ast
from typing import Dict, List, Optional, Set, Tuple

import sympy as sp

from ..cfg import ENTRY, EXIT, RAISE
from ..common import calls_named, dotted, kw, loc, norm
from ..model import AnalysisError, ClassInfo, External, FunctionInfo, own_nodes
from ..symeval import TensorSym, eval_function, run_body, Ctx
from ..terms import NP_FUNCS, Untranslatable
from .util import anchor_func, assigned_name, build_cfg, facts, switch_assumptions
from . import opcontract

OB = "mygrad.operation_base"
G = sp.Symbol("g", real=True)
X = [sp.Symbol(f"x{i}", real=True) for i in range(3)]

EXTRA_UFUNCS = {"arctan2": lambda a, b: sp.atan2(a, b)}

# deterministic sample points (exact rationals); points where the kernel or its derivative is not real/finite are skipped,
# so each kernel is effectively sampled on its own differentiable domain
SAMPLES_1 = [sp.Rational(n, 10) for n in (-23, -17, -11, -7, -3, 3, 7, 11, 13, 17, 23, 31, -31, 5, -5, 19, -19, 29, -29, 41)]
SAMPLES_2 = [(sp.Rational(a, 10), sp.Rational(b, 10)) for a, b in
             ((13, 7), (-13, 7), (7, -13), (-7, -11), (23, 3), (3, 23), (17, 19), (-19, 5), (5, 5.0 and 9), (29, -3),
              (11, 2), (2, 11), (-2, 31), (31, 13), (9, -17), (-9, 17), (15, 21), (21, 15), (-21, -15), (6, 1))]


def _ufunc_name(run, cls: ClassInfo) -> Optional[str]:
    r = facts(run).class_attr_value(cls, "numpy_ufunc")
    if isinstance(r, External) and r.name.startswith("numpy."):
        return r.name.split(".")[-1]
    return None


def forward_term(run, cls: ClassInfo, nvars: int, tparams: List[str], call: FunctionInfo) -> Tuple[object, Dict[str, object], Dict[str, object]]:
    """(F, self_attrs, extra symbols)"""
    fx = facts(run)
    unary = run.project.cls(f"{OB}.UnaryUfunc")
    binary = run.project.cls(f"{OB}.BinaryUfunc")
    extra: Dict[str, object] = {}
    # attributes initialised by the constructors (cache slots set to None, ...)
    init_attrs: Dict[str, object] = {}
    for k in reversed(cls.mro()):
        m = k.methods.get("__init__")
        if m is None:
            continue
        c0 = Ctx(fx, m, {})
        c0.self_attrs = init_attrs
        for st in m.node.body:
            try:
                run_body([st], c0, 0)
            except Untranslatable:
                continue
        init_attrs = c0.self_attrs
    base_call = call.cls is not None and call.cls.qualname in (unary.qualname, binary.qualname)
    delegating = opcontract._super_call(call) is not None
    if base_call or delegating:
        nm = _ufunc_name(run, cls)
        if nm is None:
            raise Untranslatable("numpy_ufunc does not resolve")
        fn = NP_FUNCS.get(nm) or EXTRA_UFUNCS.get(nm)
        if fn is None:
            raise Untranslatable(f"no term for numpy.{nm}")
        attrs: Dict[str, object] = dict(init_attrs)
        if delegating:
            # statements before `return super().__call__(...)` only record options on self
            c = Ctx(fx, call, switch_assumptions(call, track=True))
            a = call.node.args
            for p, d in zip(a.kwonlyargs, a.kw_defaults):
                if isinstance(d, ast.Constant) and isinstance(d.value, bool):
                    c.env[p.arg] = sp.true if d.value else sp.false
            body = [s for s in call.node.body if not isinstance(s, ast.Return)]
            c.self_attrs = dict(init_attrs)
            run_body(body, c, 0)
            attrs = c.self_attrs
        return fn(*X[:nvars]), attrs, extra
    args = []
    a = call.node.args
    names = [x.arg for x in a.posonlyargs + a.args][1:]
    kwargs = {}
    i = 0
    for n in names:
        if n in tparams:
            args.append(TensorSym(X[tparams.index(n)]))
        else:
            s = sp.Symbol(f"p_{n}", positive=True)
            extra[n] = s
            args.append(s)
    for x in a.kwonlyargs:
        s = sp.Symbol(f"p_{x.arg}", positive=True)
        extra[x.arg] = s
        kwargs[x.arg] = s
    c = eval_function(fx, call, args, kwargs, assume=switch_assumptions(call, track=True, extra={"TRACK_GRAPH": True}), want_ctx=True,
                      self_attrs=init_attrs)
    return c.ret, c.self_attrs, extra


def _valid(v) -> bool:
    try:
        if v is None:
            return False
        if v.has(sp.zoo, sp.nan, sp.oo, -sp.oo) or v.has(sp.I):
            return False
        return bool(v.is_real) or bool(v.is_number and sp.im(v) == 0)
    except Exception:
        return False


def compare(F, B, k: int, nvars: int, extra: Dict[str, object], nsamples: int):
    """-> (verdict, detail)   verdict in agree-proved | agree-sampled | disagree | undecided"""
    dF = sp.diff(F, X[k])
    D = B - G * dF
    sub_extra = {s: sp.Rational(13, 10) for s in extra.values()}
    pts = SAMPLES_1 if nvars == 1 else SAMPLES_2
    used = 0
    worst = None
    for p in pts:
        if used >= nsamples:
            break
        sub = dict(sub_extra)
        sub[G] = sp.Rational(7, 5)
        if nvars == 1:
            sub[X[0]] = p
        else:
            sub[X[0]], sub[X[1]] = p
        try:
            fv = sp.N(F.subs(sub), 40)
            dv = sp.N(dF.subs(sub).doit(), 40)
            bv = sp.N(B.subs(sub).doit(), 40)
        except Exception:
            continue
        if not (_valid(fv) and _valid(dv)):
            continue
        if not _valid(bv):
            return "disagree", f"backward is not finite/real at {sub} where the forward is differentiable (dF={dv})"
        used += 1
        err = abs(bv - sub[G] * dv)
        if err > sp.Float(10) ** -25 * (1 + abs(bv)):
            return "disagree", f"at {{{', '.join(f'{a}={b}' for a, b in sub.items())}}}: backward = {sp.N(bv, 8)}, g*dF/dx{k} = {sp.N(sub[G] * dv, 8)}"
    if used < 3:
        return "undecided", f"only {used} admissible sample point(s)"
    try:
        if sp.simplify(D) == 0:
            return "agree-proved", f"simplify(B - g*dF/dx{k}) == 0; also {used} exact sample points"
    except Exception:
        pass
    return "agree-sampled", f"equal (40 digits) at {used} points of the kernel's domain; difference term not reduced to 0 symbolically"


CONVENTIONS = {
    # class name -> list of (point substitution for x0[,x1], self attr overrides, expected backward value, description)
    "Abs": [({0: 0}, {"_nan_to_num": sp.true}, 0, "d|x|/dx = 0 at 0 (nan_to_num=True)"),
            ({0: 0}, {"_nan_to_num": sp.false}, sp.nan, "d|x|/dx = nan at 0 when nan_to_num=False")],
    "Arcsin": [({0: 1}, {}, 0, "0 rather than inf/nan at x=1"), ({0: -1}, {}, 0, "0 rather than inf/nan at x=-1")],
    "Arccos": [({0: 1}, {}, 0, "0 rather than inf/nan at x=1"), ({0: -1}, {}, 0, "0 rather than inf/nan at x=-1")],
    "Maximum": [({0: 1, 1: 1}, {}, 0, "tie: zero gradient to the first operand", 0), ({0: 1, 1: 1}, {}, 0, "tie: zero gradient to the second operand", 1)],
    "Minimum": [({0: 1, 1: 1}, {}, 0, "tie: zero gradient to the first operand", 0), ({0: 1, 1: 1}, {}, 0, "tie: zero gradient to the second operand", 1)],
}


def r02_1(run):
    fx = facts(run)
    nsamples = 6 if run.tier == "quick" else 20
    covered = 0
    proved = 0
    not_covered: List[str] = []
    for c in run.project.concrete_ops():
        v = opcontract.variables_of(run, c)
        bv = c.lookup_method("backward_var")
        call = c.lookup_method("__call__")
        if v is None or v.star or bv is None or call is None or len(v.params) > 2 or c.methods.get("backward") is not None:
            not_covered.append(f"{c.name}: variable arity / custom backward / >2 operands")
            continue
        nvars = len(v.params)
        try:
            F, attrs, extra = forward_term(run, c, nvars, v.params, call)
            if F is None or not isinstance(F, sp.Basic) or not any(F.has(x) for x in X[:nvars]):
                raise Untranslatable("forward is not a closed-form term of its operands")
        except Untranslatable as e:
            not_covered.append(f"{c.name}: forward {e}")
            continue
        except Exception as e:  # sympy corner cases -> not covered, never an alarm
            not_covered.append(f"{c.name}: forward {type(e).__name__}")
            continue
        # a truth test of an array's rank anywhere in a branch condition (alone, negated, or as an operand of and/or)
        def _rank_atoms(t_):
            if isinstance(t_, ast.Attribute) and t_.attr in ("ndim", "size"):
                return True
            if isinstance(t_, ast.UnaryOp) and isinstance(t_.op, ast.Not):
                return _rank_atoms(t_.operand)
            if isinstance(t_, ast.BoolOp):
                return any(_rank_atoms(v_) for v_ in t_.values)
            return False
        rank_tests = any(isinstance(n, ast.If) and _rank_atoms(n.test) for n in own_nodes(bv.node))
        scenarios = [("", {})] if not rank_tests else [(" [operands of rank > 0]", {"__rank__": True}), (" [0-d operands]", {"__rank__": False})]
        for k in range(nvars):
          for slabel, sassume in scenarios:
            try:
                B = eval_function(fx, bv, [G, sp.Integer(k)], {}, assume={"index": k, **sassume}, self_attrs=attrs, self_cls=c)
                if B is None or not isinstance(B, sp.Basic):
                    raise Untranslatable("no term")
            except Untranslatable as e:
                not_covered.append(f"{c.name}[{k}]{slabel}: backward {e}")
                continue
            except Exception as e:
                not_covered.append(f"{c.name}[{k}]{slabel}: backward {type(e).__name__}: {e}")
                continue
            try:
                verdict, detail = compare(F, B, k, nvars, extra, nsamples)
            except Exception as e:
                verdict, detail = "undecided", f"{type(e).__name__}: {e}"
            if verdict == "undecided":
                not_covered.append(f"{c.name}[{k}]{slabel}: {detail}")
                continue
            covered += 1
            proved += verdict == "agree-proved"
            run.ob("R02.1", loc(bv, bv.node), bv.short if bv.cls.qualname == c.qualname else f"{c.qualname[7:]} (via {bv.short})",
                   f"{c.name}.backward_var(index={k}){slabel} == g * d(forward)/dx{k}", verdict != "disagree",
                   f"forward term {str(F)[:60]}; {detail}" if verdict != "disagree" else
                   f"forward term {str(F)[:60]}; backward term {str(B)[:80]}; {detail}")
        for conv in CONVENTIONS.get(c.name, []):
            sub, over, want, desc = conv[:4]
            kk = conv[4] if len(conv) > 4 else 0
            for slabel, sassume in scenarios:
              try:
                at = dict(attrs)
                at.update(over)
                B = eval_function(fx, bv, [G, sp.Integer(kk)], {}, assume={"index": kk, **sassume}, self_attrs=at, self_cls=c)
                val = B.subs({X[i]: val_ for i, val_ in sub.items()})
                val = sp.simplify(val)
                ok = (val is sp.nan or val == sp.nan) if want is sp.nan else (val == want)
                run.ob("R02.1", loc(bv, bv.node), bv.short, f"{c.name}: convention `{desc}`{slabel}", bool(ok),
                       f"backward term at the point evaluates to {val}" if ok else f"backward term at the point evaluates to {val}, documented convention is {want}")
              except Untranslatable as e:
                not_covered.append(f"{c.name}: convention `{desc}` not translatable ({e})")
              except Exception as e:
                not_covered.append(f"{c.name}: convention `{desc}`: {type(e).__name__}")
    run.count("VJP identities checked in the term domain", covered)
    run.count("of which proved symbolically", proved)
    run.count("op/operand pairs not covered by the term domain", len(not_covered))
    for n in not_covered:
        run.unresolved_item("R02.1 not covered: " + n)


def r02_3(run):
    """index exhaustiveness: for every k < arity, backward_var | index=k cannot fall through to an implicit `return None`"""
    seen: Set[Tuple[str, int]] = set()
    for c in run.project.concrete_ops():
        bv = c.lookup_method("backward_var")
        v = opcontract.variables_of(run, c)
        if bv is None or v is None:
            continue
        idx = bv.node.args.args[2].arg if len(bv.node.args.args) > 2 else "index"
        ks: List[Optional[int]] = [None] if v.star else list(range(len(v.params)))
        for k in ks:
            key = (bv.qualname, -1 if k is None else k)
            if key in seen:
                continue
            seen.add(key)
            cfg = build_cfg(run, bv, {idx: k} if k is not None else {})
            good = {n for n, s in cfg.stmt.items() if isinstance(s, ast.Return) and s.value is not None
                    and not (isinstance(s.value, ast.Constant) and s.value.value is None)}
            w = cfg.all_paths_hit(ENTRY, good, exits=(EXIT,))
            run.ob("R02.3", loc(bv, bv.node), bv.short, f"backward_var(index={'any' if k is None else k}) returns a value on every normal path", w is None,
                   "every path to EXIT passes a `return <value>` (or raises)" if w is None else
                   f"for index={k} control can fall off the end: the operand silently receives `None` (InvalidGradient at run time / no gradient)",
                   path=cfg.path_text(w) if w else None)


def _definitely_assigned(run, fi: FunctionInfo, assume) -> Set[str]:
    cfg = build_cfg(run, fi, assume)
    out = set()
    cands: Dict[str, Set[int]] = {}
    for n, s in cfg.stmt.items():
        tg = []
        if isinstance(s, ast.Assign):
            tg = s.targets
        elif isinstance(s, (ast.AnnAssign, ast.AugAssign)) and getattr(s, "value", None) is not None:
            tg = [s.target]
        flat = []
        for t in tg:
            flat += list(t.elts) if isinstance(t, (ast.Tuple, ast.List)) else [t]
        for t in flat:
            if isinstance(t, ast.Attribute) and norm(t.value) == "self":
                cands.setdefault(t.attr, set()).add(n)
        # delegation: super().__call__(...) / super().__init__() assign the parent's attributes
    for a, ns in cands.items():
        if cfg.all_paths_hit(ENTRY, ns, exits=(EXIT,)) is None:
            out.add(a)
    return out


def _assigned_via_mro(run, cls: ClassInfo, mname: str, assume_for) -> Set[str]:
    """attributes definitely assigned by cls.<mname>, following super().<mname>(...) calls that lie on every path"""
    out: Set[str] = set()
    m = cls.lookup_method(mname)
    hops = 0
    while m is not None and hops < 5:
        out |= _definitely_assigned(run, m, assume_for(m))
        sc = opcontract._super_call(m)
        if sc is None:
            break
        cfg = build_cfg(run, m, assume_for(m))
        n = cfg.stmt_node_containing(sc)
        if n is None or cfg.all_paths_hit(ENTRY, {n}, exits=(EXIT,)) is not None:
            break
        m = opcontract._next_in_mro(cls, m, mname)
        hops += 1
    return out


def r02_4(run):
    fx = facts(run)
    opbase = run.project.cls(f"{OB}.Operation")

    def assume_for(m):
        a = switch_assumptions(m, track=True)
        a["TRACK_GRAPH"] = True  # stale `from ... import TRACK_GRAPH` reads are the same switch
        return a

    # external stores on op instances made by the public wrappers (gru: s.creator._hidden_seq = weakref.ref(s))
    external: Dict[str, Set[str]] = {}
    for (fi, mod, st, t, val, kind) in fx.attribute_stores():
        if kind == "assign" and isinstance(t.value, ast.Attribute) and t.value.attr in ("creator", "_creator") and fi is not None:
            for s in opcontract.op_sites(run):
                if s.fi.qualname == fi.qualname and s.op_cls is not None:
                    external.setdefault(s.op_cls.qualname, set()).add(t.attr)
    n = 0
    for c in run.project.concrete_ops():
        have = _assigned_via_mro(run, c, "__call__", assume_for) | _assigned_via_mro(run, c, "__init__", assume_for)
        for k in c.mro():
            have |= set(k.attrs) | set(k.methods)
            for st in k.node.body:
                if isinstance(st, ast.AnnAssign) and isinstance(st.target, ast.Name) and st.value is not None:
                    have.add(st.target.id)
        have |= external.get(c.qualname, set())
        for mname in ("backward", "backward_var"):
            m = c.lookup_method(mname)
            if m is None or (m.cls is not None and m.cls.qualname == opbase.qualname and mname == "backward"):
                continue
            own = _definitely_assigned(run, m, assume_for(m)) if mname == "backward" else set()
            reads = []
            cfg = None
            for x in own_nodes(m.node):
                if isinstance(x, ast.Attribute) and norm(x.value) == "self" and isinstance(x.ctx, ast.Load):
                    reads.append(x)
            missing = []
            for x in reads:
                if x.attr in have:
                    continue
                # assigned earlier in this very method on every path to the read (cache idiom / backward override)
                cfg = cfg or build_cfg(run, m, assume_for(m))
                nr = cfg.stmt_node_containing(x)
                defs = {nn for nn, s in cfg.stmt.items() if isinstance(s, (ast.Assign, ast.AnnAssign)) and any(
                    isinstance(t, ast.Attribute) and norm(t.value) == "self" and t.attr == x.attr
                    for t in (s.targets if isinstance(s, ast.Assign) else [s.target]))}
                if nr is not None and defs and cfg.set_dominates(defs, nr):
                    continue
                if mname == "backward_var":
                    bo = c.lookup_method("backward")
                    if bo is not None and bo.cls.qualname != opbase.qualname and x.attr in _definitely_assigned(run, bo, assume_for(bo)):
                        continue
                missing.append(x.attr)
            n += 1
            missing = sorted(set(missing))
            run.ob("R02.4", loc(m, m.node), m.short if m.cls.qualname == c.qualname else f"{c.qualname[7:]} (via {m.short})",
                   f"{c.name}.{mname}: every self.<attr> it reads is defined by the forward pass / constructor", not missing,
                   f"{len(set(x.attr for x in reads))} attribute(s) read; all definitely assigned in __call__ (tracking on), __init__, the class body, "
                   f"the wrapper, or earlier in the method" if not missing else
                   f"reads self.{', self.'.join(missing)} which the forward pass does not assign on every path: AttributeError or a stale value "
                   f"from another call (options silently not the ones used forward)")
    run.count("backward methods checked for state-before-use", n)
    # every __init__ override reaches super().__init__()
    for c in run.project.operation_classes():
        m = c.methods.get("__init__")
        if m is None:
            continue
        sc = opcontract._super_call(m)
        cfg = build_cfg(run, m)
        ok = sc is not None and cfg.all_paths_hit(ENTRY, {cfg.stmt_node_containing(sc)}, exits=(EXIT,)) is None
        run.ob("R02.4", loc(m, m.node), m.short, "__init__ override reaches super().__init__() on every path", ok,
               "Operation.__init__ initialises where/replay_*" if ok else "self.where / replay_* are never initialised for this op")


BOOL_MAKERS = {"isclose", "isnan", "isinf", "isfinite", "logical_not", "logical_and", "logical_or", "logical_xor", "greater", "less",
               "greater_equal", "less_equal", "equal", "not_equal", "signbit", "any", "all"}


def _proven_bool(run, fi: FunctionInfo, e: ast.AST, cls: Optional[ClassInfo], depth=0) -> bool:
    fx = facts(run)
    if depth > 4:
        return False
    if isinstance(e, ast.Compare):
        return True
    if isinstance(e, ast.UnaryOp) and isinstance(e.op, (ast.Invert, ast.Not)):
        return _proven_bool(run, fi, e.operand, cls, depth + 1)
    if isinstance(e, ast.BoolOp) or (isinstance(e, ast.BinOp) and isinstance(e.op, (ast.BitAnd, ast.BitOr, ast.BitXor))):
        parts = e.values if isinstance(e, ast.BoolOp) else [e.left, e.right]
        return all(_proven_bool(run, fi, p, cls, depth + 1) for p in parts)
    if isinstance(e, ast.Call):
        ext = fx.ext_name_of(fi, e.func) or ""
        if ext.split(".")[-1] in BOOL_MAKERS:
            return True
        d = kw(e, "dtype")
        if ext.split(".")[-1] in ("asarray", "array", "zeros", "ones", "zeros_like", "ones_like", "full") and d is not None and norm(d) in ("bool", "np.bool_"):
            return True
        if isinstance(e.func, ast.Attribute) and e.func.attr == "astype" and e.args and norm(e.args[0]) in ("bool", "np.bool_"):
            return True
        return False
    if isinstance(e, ast.IfExp):
        return _proven_bool(run, fi, e.body, cls, depth + 1) and _proven_bool(run, fi, e.orelse, cls, depth + 1)
    if isinstance(e, ast.Name):
        vals = [n.value for n in own_nodes(fi.node) if isinstance(n, ast.Assign) and any(isinstance(t, ast.Name) and t.id == e.id for t in n.targets)]
        return bool(vals) and all(_proven_bool(run, fi, v, cls, depth + 1) for v in vals)
    if isinstance(e, ast.Attribute) and norm(e.value) == "self" and cls is not None:
        vals = []
        for k in cls.mro():
            for m in k.methods.values():
                for n in own_nodes(m.node):
                    if isinstance(n, (ast.Assign, ast.AnnAssign)) and getattr(n, "value", None) is not None and any(
                            norm(t) == f"self.{e.attr}" for t in (n.targets if isinstance(n, ast.Assign) else [n.target])):
                        vals.append((m, n.value))
        return bool(vals) and all(_proven_bool(run, m, v, cls, depth + 1) for m, v in vals)
    return False


def r02_5(run):
    """bitwise `~` used as logical negation must act on a proven-boolean value (on integer arrays it is a bitwise NOT)"""
    n = 0
    seen = set()
    for c in run.project.operation_classes():
        for mname in ("__call__", "backward", "backward_var"):
            m = c.methods.get(mname)
            if m is None or m.qualname in seen:
                continue
            seen.add(m.qualname)
            for x in own_nodes(m.node):
                if isinstance(x, ast.UnaryOp) and isinstance(x.op, ast.Invert):
                    n += 1
                    ok = _proven_bool(run, m, x.operand, c)
                    run.ob("R02.5", loc(m, x), m.short, f"`~{norm(x.operand)[:40]}` negates a boolean mask", ok,
                           "operand is a comparison / logical ufunc / explicitly cast to bool on every assignment" if ok else
                           "operand is not guaranteed boolean: for an integer-valued mask `~m` is the bitwise NOT (all non-zero), so the "
                           "complementary operand receives gradient everywhere")
    run.count("bitwise-not sites in op methods", n)


DEAD_STATE_OK = {
    ("BatchNorm", "var"): "diagnostic copy; backward uses self.x_norm / self.std-free formulation",
    ("BatchNorm", "mean"): "diagnostic copy",
    ("BatchNorm", "beta"): "d(out)/d(beta) does not depend on beta",
    ("Sequential", "out_shape"): "recorded for subclasses; none needs it today",
    ("Sequential", "initial"): "forwarded to the kernel only; no op differentiates through `initial`",
}


def r02_6(run):
    """an option or cached array recorded on self by a forward pass must have a reader (otherwise the backward pass cannot be using it)"""
    ops = run.project.operation_classes() + [run.project.cls(f"{OB}.Operation")]
    n = 0
    for c in ops:
        m = c.methods.get("__call__")
        if m is None:
            continue
        assigned = {x.attr for x in own_nodes(m.node) if isinstance(x, ast.Attribute) and isinstance(x.ctx, ast.Store) and norm(x.value) == "self"}
        assigned.discard("variables")
        if not assigned:
            continue
        readers = set()
        cone = [k for k in ops if k.is_subclass_of(c)]
        for k in set(cone) | set(c.mro()):
            for mm in k.methods.values():
                if mm.qualname == m.qualname:
                    continue
                for x in own_nodes(mm.node):
                    if isinstance(x, ast.Attribute) and isinstance(x.ctx, ast.Load) and norm(x.value) == "self":
                        readers.add(x.attr)
        # external readers (wrappers reading op state through `.creator`)
        for a in sorted(assigned):
            n += 1
            if (c.name, a) in DEAD_STATE_OK:
                run.ob("R02.6", loc(m, m.node), m.short, f"state self.{a} recorded by the forward pass", True, "exempt: " + DEAD_STATE_OK[(c.name, a)], nontrivial=False)
                continue
            ok = a in readers
            run.ob("R02.6", loc(m, m.node), m.short, f"state self.{a} recorded by the forward pass has a reader", ok,
                   "read by backward/backward_var (of this class or a subclass)" if ok else
                   f"self.{a} is recorded but never read: the backward pass cannot be differentiating with respect to the option/cache the forward pass used")
    run.count("recorded state attributes", n)


# The log-domain family, confirmed by reading: ops/helpers that exist because the naive formula overflows.  Their exact derivative is
# bounded by |g| for every finite operand.  (class or function qualname, number of tensor operands, why it belongs)
LOG_DOMAIN_OPS = [
    ("mygrad.math.exp_log.ops.Logaddexp", 2, "log(exp a + exp b): derivative is a two-element softmax in [0, 1]"),
    ("mygrad.math.exp_log.ops.Logaddexp2", 2, "log2(2**a + 2**b): derivative in [0, 1]"),
    ("mygrad.nnet.activations.softmax.Softmax", 1, "max-shifted softmax: values and Jacobian entries in [-1, 1]"),
    ("mygrad.nnet.activations.softmax.LogSoftmax", 1, "x - logsumexp(x): Jacobian I - softmax"),
    ("mygrad.nnet.activations.sigmoid.Sigmoid", 1, "1/(1+exp(-x)): derivative in [0, 1/4]"),
    ("mygrad.nnet.losses.softmax_crossentropy.SoftmaxCrossEntropy", 1, "log-softmax based loss: gradient (softmax - onehot)/N"),
]
LOG_DOMAIN_HELPERS = [
    ("mygrad.nnet.activations.softmax._softmax", "max-shifted softmax"),
    ("mygrad.math._special.logsumexp", "max-shifted log-sum-exp"),
    ("mygrad.nnet.layers.gru.sig", "logistic function of the GRU gates"),
]


def r02_7(run):
    """finite operands and finite incoming gradients give finite, nan-free results throughout the log-domain family (extended-sign
    abstract interpretation, sa/rules/ieee.py).  Breaks: a 'simplified' backward such as exp(a)/(exp(a)+exp(b)) or exp(x)/sum(exp(x))
    is the same function on the reals but evaluates inf/inf or 0/0 once |x| > ~710: nan gradients exactly in the regime these ops exist for."""
    from . import ieee
    fx = facts(run)
    covered = 0
    for q, arity, why in LOG_DOMAIN_OPS:
        cls = run.project.cls(q)
        for fi, label, v in ieee.analyse_op(fx, cls, arity):
            if isinstance(v, str):
                run.ob("R02.7", loc(fi, fi.node), fi.short, f"{label} stays finite on finite operands", True, v, nontrivial=False, note="not covered")
                run.unresolved.append(f"R02.7 {fi.short} {label}: {v}")
                continue
            covered += 1
            bad = set(v.s) & ({"NAN"} if label == "forward value" else {"NAN", "PI", "NI"})
            run.ob("R02.7", loc(fi, fi.node), fi.short, f"{label} stays finite on finite operands", not bad,
                   f"abstract value {v}: no inf/inf, 0/0, 0*inf or inf-inf is reachable ({why})" if not bad else
                   f"abstract value {v}: `{v.why or '?'}` can evaluate " + ("inf/inf, 0/0, 0*inf or inf-inf" if "NAN" in bad else "to an infinity") +
                   f" for finite operands of large magnitude (exp over/underflows), although the exact derivative is bounded ({why})")
    for q, why in LOG_DOMAIN_HELPERS:
        fi = anchor_func(run, q)
        v = ieee.analyse_helper(fx, fi)
        if isinstance(v, str):
            run.ob("R02.7", loc(fi, fi.node), fi.short, "helper value stays finite on finite operands", True, v, nontrivial=False, note="not covered")
            run.unresolved.append(f"R02.7 {fi.short}: {v}")
            continue
        covered += 1
        bad = set(v.s) & {"NAN", "PI", "NI"}
        run.ob("R02.7", loc(fi, fi.node), fi.short, "helper value stays finite on finite operands", not bad,
               f"abstract value {v} ({why})" if not bad else f"abstract value {v}: `{v.why or '?'}` can produce a non-finite value for finite operands ({why})")
    run.count("log-domain bodies interpreted in the extended-sign domain", covered)
    # discovery (listed, never judged): other bodies that exponentiate outside the family
    fam = {q for q, _, _ in LOG_DOMAIN_OPS} | {q for q, _ in LOG_DOMAIN_HELPERS}
    for fi in run.project.all_functions():
        if any(fi.qualname.startswith(q) for q in fam) or "exp_log.ops.Exp" in fi.qualname or fi.qualname.endswith(("funcs.exp", "funcs.exp2", "funcs.expm1")):
            continue
        if any(isinstance(c, ast.Call) and (dotted(c.func) or "").split(".")[-1] in ("exp", "exp2", "expm1") and (dotted(c.func) or "").startswith(("np.", "numpy."))
               for c in own_nodes(fi.node)):
            run.notes.append(f"R02.7: {fi.short} exponentiates but is outside the log-domain family (its exact derivative is unbounded or it selects with where): not judged")
    if covered < 12:
        raise AnalysisError(f"R02.7: only {covered} log-domain bodies could be interpreted (12 expected at least): the rule has gone blind")


def r02_8(run):
    """flattening / reshaping inside op code uses C element order.  The incoming gradient, NumPy's cumulative/reduction kernels over axis=None
    and the final reshape back to the operand's shape all enumerate elements in C order; `ravel(order="K"|"A"|"F")` enumerates them in memory
    (or Fortran) order, which differs for every non-C-contiguous operand -- gradients are silently permuted for transposed / F-ordered inputs."""
    opmods = {c.module.name for c in run.project.operation_classes()}
    n = 0
    for fi in run.project.all_functions():
        if fi.module.name not in opmods:
            continue
        for call in own_nodes(fi.node):
            if not isinstance(call, ast.Call):
                continue
            leaf = (dotted(call.func) or "").split(".")[-1] or (call.func.attr if isinstance(call.func, ast.Attribute) else "")
            if leaf not in ("ravel", "flatten", "reshape"):
                continue
            o = kw(call, "order")
            n += 1
            ok = o is None or (isinstance(o, ast.Constant) and o.value == "C")
            run.ob("R02.8", loc(fi, call), fi.short, f"`{norm(call)[:50]}` enumerates elements in C order", ok,
                   "default / explicit C order" if ok else
                   f"order={norm(o)}: elements are read in memory order while the gradient and the reshape back use C order -- wrong pairing of "
                   f"gradient entries for non-C-contiguous operands (transposes, F-ordered arrays)")
    run.count("flatten/reshape calls in op modules", n)


_MAYCOPY = {"reshape", "ravel"}
_ALWAYSCOPY = {"flatten", "astype", "copy", "ascontiguousarray", "array"}


def _c_contiguous(cfg, e, at, depth=0) -> bool:
    """`e` is provably a freshly allocated C-ordered array (so reshape / ravel of it are views)"""
    from ..cfg import reaching_defs
    if depth > 4:
        return False
    if isinstance(e, ast.Call):
        d = dotted(e.func) or ""
        leaf = d.split(".")[-1] if d else (e.func.attr if isinstance(e.func, ast.Attribute) else "")
        if kw(e, "order") is not None and norm(kw(e, "order")) != "'C'":
            return False
        if d.split(".")[0] in ("np", "numpy") and leaf in ("zeros", "ones", "empty", "full", "arange", "ascontiguousarray"):
            return True
        if isinstance(e.func, ast.Attribute) and leaf == "copy" and not d.startswith(("np.", "numpy.")):
            return True  # ndarray.copy(): order='C'
        return False
    if isinstance(e, ast.Name):
        defs = reaching_defs(cfg, e.id, at)
        return bool(defs) and ENTRY not in defs and all(
            not isinstance(cfg.stmt[d], ast.AugAssign) and getattr(cfg.stmt[d], "value", None) is not None
            and _c_contiguous(cfg, cfg.stmt[d].value, d, depth + 1) for d in defs)
    return False


def r02_9(run):
    """no store through a temporary that may be a copy.  `X.reshape(...)[i] = v` / `X.ravel()[i] += v` writes into X only when the reshape is a
    view, i.e. when X is C-contiguous; for an array allocated like a transposed / F-ordered operand (zeros_like keeps the layout) the reshape
    copies and the write is lost -- the gradient silently stays zero.  (`.flat[...]` always writes through.)"""
    n = 0
    for fi in run.project.all_functions():
        cfg = None
        for st in own_nodes(fi.node):
            tgt = None
            if isinstance(st, ast.Assign) and len(st.targets) == 1 and isinstance(st.targets[0], ast.Subscript):
                tgt = st.targets[0].value
            elif isinstance(st, ast.AugAssign) and isinstance(st.target, ast.Subscript):
                tgt = st.target.value
            if not isinstance(tgt, ast.Call):
                continue
            d = dotted(tgt.func) or ""
            leaf = d.split(".")[-1] if d else (tgt.func.attr if isinstance(tgt.func, ast.Attribute) else "")
            if leaf not in _MAYCOPY | _ALWAYSCOPY:
                continue
            recv = tgt.func.value if isinstance(tgt.func, ast.Attribute) and not d.startswith(("np.", "numpy.")) else (tgt.args[0] if tgt.args else None)
            n += 1
            if cfg is None:
                cfg = build_cfg(run, fi)
            at = cfg.node_for(st)
            ok = leaf in _MAYCOPY and recv is not None and at is not None and _c_contiguous(cfg, recv, at)
            run.ob("R02.9", loc(fi, st), fi.short, f"store through the temporary `{norm(tgt)[:50]}` reaches its receiver", ok,
                   "the receiver is a freshly allocated C-ordered array: the reshape is a view" if ok else
                   (f"`.{leaf}()` always copies: the store is lost" if leaf in _ALWAYSCOPY else
                    f"`{norm(recv)[:30] if recv is not None else '?'}` is not provably C-contiguous (e.g. allocated *_like an operand, which keeps a transposed / "
                    f"F-ordered layout): the reshape then copies and the store is lost -- the value (a gradient entry) silently stays as allocated"))
    run.count("stores through reshape/ravel temporaries", n)


_REC_CONV = {"asarray", "array", "asanyarray", "ascontiguousarray", "astype", "bool", "int", "float", "tuple", "list"}


def r02_10(run):
    """the forward kernel consumes the value the op records for its backward pass.  When __call__ converts a parameter and keeps the converted
    value on self (`self.condition = np.asarray(condition, dtype=bool)`), backward differentiates w.r.t. *that* value; if the kernel is handed
    the raw parameter instead, the two passes can disagree (a float mask [0.5, 1, 0] is truthy forward but a different boolean/number backward)
    and a Tensor-valued parameter reaches NumPy raw and is dispatched back to mygrad (unbounded recursion)."""
    n = 0
    for c in run.project.concrete_ops():
        m = c.methods.get("__call__")
        if m is None:
            continue
        params = {a_.arg for a_ in m.node.args.args[1:] + m.node.args.kwonlyargs}
        v = opcontract_variables(run, c)
        for st in own_nodes(m.node):
            if not (isinstance(st, ast.Assign) and len(st.targets) == 1 and isinstance(st.targets[0], ast.Attribute)
                    and norm(st.targets[0].value) == "self" and isinstance(st.value, ast.Call)):
                continue
            leaf = (dotted(st.value.func) or "").split(".")[-1] or getattr(st.value.func, "attr", "")
            if leaf not in _REC_CONV:
                continue
            for p_ in [a_.id for a_ in st.value.args if isinstance(a_, ast.Name) and a_.id in params and a_.id not in v]:
                if any(isinstance(x, ast.Name) and x.id == p_ and isinstance(x.ctx, ast.Store) for x in own_nodes(m.node)):
                    continue  # the parameter itself is re-bound: later uses see the converted value
                n += 1
                raw = [x for x in own_nodes(m.node) if isinstance(x, ast.Call) and x is not st.value and any(
                    isinstance(a_, ast.Name) and a_.id == p_ for a_ in list(x.args) + [k.value for k in x.keywords])
                    and (dotted(x.func) or "").split(".")[0] in ("np", "numpy")]
                run.ob("R02.10", loc(m, raw[0] if raw else st), m.short, f"the kernel uses self.{st.targets[0].attr}, the recorded conversion of `{p_}`", not raw,
                       f"`{p_}` reaches NumPy only through its recorded conversion" if not raw else
                       f"`{norm(raw[0])[:60]}` receives the raw `{p_}` although backward reads self.{st.targets[0].attr} = {leaf}({p_}, ...): the passes can "
                       f"disagree, and a Tensor-valued `{p_}` recurses through NumPy's dispatch")
    run.count("recorded parameter conversions", n)


def opcontract_variables(run, c):
    from . import opcontract
    v = opcontract.variables_of(run, c)
    return set(v.params) if v is not None and not v.star else set()


def r02_11(run):
    """a gradient is un-permuted with the *inverse* permutation.  The VJP of x.transpose(P) is g.transpose(argsort(P)); code that permutes an operand
    with P to compute on it and then hands back a gradient laid out in the permuted order must undo P the same way.  Re-using P itself is right
    only for self-inverse permutations -- every 2-d case and many 3-d ones -- so tests on low-rank operands cannot see it."""
    from ..cfg import CFG, ENTRY as _E, reaching_defs as _rd
    n = 0
    opmods = {c.module.name for c in run.project.operation_classes()}
    for fi in run.project.all_functions():
        if fi.module.name not in opmods or fi.name not in ("backward_var", "backward"):
            continue
        trans = []
        for c in own_nodes(fi.node):
            if isinstance(c, ast.Call) and ((isinstance(c.func, ast.Attribute) and c.func.attr == "transpose" and not (dotted(c.func) or "").startswith(("np.", "numpy.")))
                                            or (dotted(c.func) or "") in ("np.transpose", "numpy.transpose")):
                args = c.args[1:] if (dotted(c.func) or "") in ("np.transpose", "numpy.transpose") else c.args
                if len(args) == 1:
                    trans.append((c, args[0].value if isinstance(args[0], ast.Starred) else args[0]))
        if not trans:
            continue
        cfg = CFG(fi.node)
        returned = {r.value.id for r in own_nodes(fi.node) if isinstance(r, ast.Return) and isinstance(r.value, ast.Name)}
        for c, perm in trans:
            st = c
            while st is not None and not isinstance(st, ast.stmt):
                st = getattr(st, "_parent", None)
            on_return = isinstance(st, ast.Return) or (isinstance(st, ast.Assign) and any(isinstance(t, ast.Name) and t.id in returned for t in st.targets))
            if not on_return:
                continue
            n += 1

            def inverse(e, at, depth=0):
                if depth > 4:
                    return False
                if isinstance(e, ast.Call):
                    leaf = (dotted(e.func) or "").split(".")[-1]
                    if leaf == "argsort":
                        return True
                    if leaf in ("tuple", "list") and e.args:
                        return inverse(e.args[0], at, depth + 1)
                    return False
                if isinstance(e, ast.Name):
                    defs = _rd(cfg, e.id, at)
                    return bool(defs) and _E not in defs and all(getattr(cfg.stmt[d], "value", None) is not None and inverse(cfg.stmt[d].value, d, depth + 1) for d in defs)
                return False
            at = cfg.node_for(st)
            ok = at is not None and inverse(perm, at)
            run.ob("R02.11", loc(fi, c), fi.short, f"the returned gradient is un-permuted with an inverse permutation (`{norm(perm)[:40]}`)", ok,
                   "np.argsort(<permutation>) reaches the transpose on every path" if ok else
                   f"`{norm(perm)[:40]}` is not the argsort of the permutation that was applied: the gradient's axes come back in the wrong order for every "
                   f"permutation that is not its own inverse (rank >= 3)")
    run.count("un-permutations on gradient return paths", n)


def r02_13(run):
    """scalar-or-sequence classification of a recorded option: a 0-d integer array (a legal scalar axis / shift for NumPy) *has* `__iter__` but
    cannot be iterated, so `hasattr(x, "__iter__")` alone sends it down the sequence branch -- the forward kernel accepts it and the backward pass
    raises TypeError.  In operation code every such test is paired, in the same condition, with a rank test of the same value (np.ndim(x))."""
    n = 0
    seen = set()
    fns = []
    for c in run.project.operation_classes() + [run.project.cls("mygrad.operation_base.Operation")]:
        for m in c.methods.values():
            if m.qualname not in seen:
                seen.add(m.qualname)
                fns.append(m)
    for m in fns:
        for k in own_nodes(m.node):
            if not (isinstance(k, ast.Call) and dotted(k.func) == "hasattr" and len(k.args) == 2 and isinstance(k.args[1], ast.Constant)
                    and k.args[1].value == "__iter__"):
                continue
            n += 1
            subj = norm(k.args[0])
            top = k
            while isinstance(getattr(top, "_parent", None), (ast.BoolOp, ast.UnaryOp, ast.Compare)):
                top = top._parent
            paired = any(isinstance(x, ast.Call) and (dotted(x.func) or "").split(".")[-1] == "ndim" and x.args and norm(x.args[0]) == subj
                         for x in ast.walk(top)) or any(isinstance(x, ast.Attribute) and x.attr == "ndim" and norm(x.value) == subj for x in ast.walk(top))
            run.ob("R02.13", loc(m, k), m.short, f"`hasattr({subj}, '__iter__')` is paired with a rank test of `{subj}`", paired,
                   f"condition `{norm(top)[:70]}`" if paired else
                   f"`{norm(top)[:60]}` treats a 0-d integer array as a sequence: NumPy accepts it as a scalar option, the op records it, and "
                   f"iterating it in the backward pass raises TypeError")
    run.count("iterability tests of options in operation code", n)


def check(run):
    run.rule("R02.13", "operation code tells scalar options from sequences by rank, not by `__iter__` alone (0-d arrays)", floor=2)
    run.do(r02_13)
    run.rule("R02.1", "derivative-table agreement in the term domain: for every closed-form op and operand k, the symbolic term of "
             "backward_var|index=k equals g * d(forward term)/dx_k at exact sample points of the kernel's domain (and simplifies to 0 where "
             "sympy can show it); documented conventions at non-differentiable points", floor=35)
    run.rule("R02.2", "every backward_var is (abstractly) homogeneous-linear in grad (linearity domain)", floor=60)
    run.rule("R02.6", "every option/cache a forward pass records on self is read by some backward method (5 reasoned exemptions)", floor=60)
    run.rule("R02.5", "`~mask` in op methods acts on proven-boolean values", floor=2)
    run.rule("R02.3", "backward_var|index=k returns a value for every k < arity", floor=90)
    run.rule("R02.4", "state read by backward/backward_var is definitely assigned by __call__ (tracking on) / __init__ / class body / wrapper; "
             "__init__ overrides reach super().__init__()", floor=90)
    run.do(r02_1)
    from . import linearity
    run.do(linearity.r02_2)
    run.do(r02_3)
    run.do(r02_4)
    run.do(r02_5)
    run.do(r02_6)
    run.rule("R02.8", "ravel / flatten / reshape calls in op modules use C element order", floor=20)
    run.do(r02_8)
    run.rule("R02.9", "no store through a reshape/ravel/flatten temporary unless its receiver is provably a fresh C-ordered array", floor=0)
    run.do(r02_9)
    run.control("R02.9", r02_9, [("math/sequential/ops.py", None, None,
                                  "def _verif_control_r02_9(a, g):\n    out = np.zeros_like(a)\n    out.reshape(-1)[0] = g\n    return out")],
                "write through out.reshape(-1) of a zeros_like buffer")
    run.rule("R02.10", "a parameter whose conversion is recorded for backward reaches the forward kernel through that recorded value", floor=0)
    run.do(r02_10)
    run.control("R02.10", r02_10, [("indexing_routines/ops.py", None, None,
                                   "class _VerifControlR0210(Operation):\n    def __call__(self, a, *, mask):\n        self.variables = (a,)\n"
                                   "        self.mask = np.asarray(mask, dtype=bool)\n        return np.where(mask, a.data, 0)\n\n"
                                   "    def backward_var(self, grad, index, **kwargs):\n        return np.where(self.mask, grad, 0)")],
                "kernel fed the raw parameter while its conversion is recorded")
    run.rule("R02.11", "gradients are un-permuted with the inverse (argsort) of the permutation that was applied", floor=1)
    run.do(r02_11)
    run.rule("R02.7", "log-domain family (logaddexp, logaddexp2, softmax, logsoftmax, sigmoid, softmax-crossentropy, _softmax, logsumexp, gru.sig): "
             "finite operands and gradients give finite, nan-free forward values and gradients (extended-sign abstract interpretation of exp over/underflow)", floor=14)
    run.do(r02_7)
    run.assume("R02.7: operands and incoming gradients are finite; only exponentials over/underflow (sums, products and differences of finite values are "
               "taken to be finite); relational facts are limited to the tags MAX/GEMAX/NONPOS0/NONPOS/UNIT1/GE1 of sa/rules/ieee.py")
    run.assume("term domain: NumPy elementwise functions are identified with their mathematical definitions on the reals (table in sa/terms.py)")
