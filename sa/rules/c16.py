"""C16 -- nnet layers (narrow claim): read-only window view, validate-before-stride, caller/callee extent agreement."""
from __future__ import annotations

import ast
from typing import Dict, List, Optional

import networkx as nx

from ..cfg import ENTRY, EXIT, RAISE
from ..common import calls_named, dotted, kw, loc, norm
from ..model import AnalysisError, External, own_nodes
from .util import anchor_func, assigned_name, build_cfg, facts

SWV = "mygrad.nnet.layers.utils.sliding_window_view"
CONV = "mygrad.nnet.layers.conv.ConvND.__call__"
POOL = "mygrad.nnet.layers.pooling.MaxPoolND.__call__"


def _raising_guards(cfg) -> List[int]:
    out = []
    raises = [n for n, s in cfg.stmt.items() if isinstance(s, ast.Raise) and cfg.reachable(n)]
    for t, s in cfg.stmt.items():
        if cfg.label[t] != "If":
            continue
        if any(cfg.edge_dominates(t, "true", r) for r in raises):
            out.append(t)
    return out


def r16_1(run):
    fx = facts(run)
    n = 0
    for fi in run.project.all_functions():
        for c in own_nodes(fi.node):
            if isinstance(c, ast.Call) and (fx.ext_name_of(fi, c.func) or "").endswith("stride_tricks.as_strided"):
                n += 1
                w = kw(c, "writeable")
                if fi.qualname == SWV:
                    ok = isinstance(w, ast.Constant) and w.value is False
                    run.ob("R16.1", loc(fi, c), fi.short, "as_strided(..., writeable=False) in sliding_window_view", ok,
                           "the overlapping window view is read-only" if ok else
                           "window view is writeable: writing one element silently changes many windows / the source array")
                else:
                    # other users: the strided array must be a local the function allocated itself
                    a0 = c.args[0] if c.args else None
                    from ..cfg import reaching_defs
                    cfg = build_cfg(run, fi)
                    here = cfg.stmt_node_containing(c)
                    defs = reaching_defs(cfg, a0.id, here) if isinstance(a0, ast.Name) and here is not None else []
                    vals = [getattr(cfg.stmt.get(d), "value", None) if d != ENTRY else None for d in defs]
                    fresh = bool(vals) and all(isinstance(v, ast.Call) and (fx.ext_name_of(fi, v.func) or "").split(".")[-1] in (
                        "zeros", "zeros_like", "empty", "empty_like", "ones", "full", "copy", "array") for v in vals)
                    ok = (isinstance(w, ast.Constant) and w.value is False) or fresh
                    run.ob("R16.1", loc(fi, c), fi.short, f"as_strided({norm(a0) if a0 is not None else '?'}, ...)", ok,
                           "strides a freshly allocated local (writes stay inside the function's own buffer)" if fresh else
                           ("read-only" if ok else "writeable strided view of memory the function does not own"))
    run.count("as_strided calls", n)
    if n < 1:
        raise AnalysisError("no as_strided call found")


def r16_2(run):
    fx = facts(run)
    fi = anchor_func(run, SWV)
    cfg = build_cfg(run, fi)
    strided = [c for c in own_nodes(fi.node) if isinstance(c, ast.Call) and (fx.ext_name_of(fi, c.func) or "").endswith("as_strided")]
    if len(strided) != 1:
        raise AnalysisError(f"{fi.short}: expected one as_strided call")
    ns = cfg.stmt_node_containing(strided[0])
    guards = _raising_guards(cfg)
    run.count("raising guards in sliding_window_view", len(guards))
    after = nx.descendants(cfg.g, ns)
    for g in guards:
        ok = g not in after and ns in nx.descendants(cfg.g, g)
        run.ob("R16.2", loc(fi, cfg.stmt[g]), fi.short, f"guard `{norm(cfg.stmt[g])[:60]}` precedes the striding", ok,
               "guard is an ancestor, not a descendant, of the as_strided node" if ok else "validation after the strided view was built")
    # the stride arithmetic reads arr only after the contiguity normalisation
    cont = [n for n, s in cfg.stmt.items() if isinstance(s, ast.Assign) and "ascontiguousarray" in norm(s)]
    reads = [n for n, s in cfg.stmt.items() if isinstance(s, ast.Assign) and ".strides" in norm(s.value)]
    ok = bool(cont) and all(any(r in nx.descendants(cfg.g, c) for c in cont) and not any(c in nx.descendants(cfg.g, r) for c in cont) for r in reads)
    run.ob("R16.2", loc(fi, fi.node), fi.short, "strides are read after the C-contiguity normalisation", ok and bool(reads),
           "np.ascontiguousarray(arr) (guarded by the flags test) precedes every read of arr.strides" if ok else
           "byte strides computed for a non-contiguous layout: the view can address memory outside arr")
    # specific fit rules named by the property
    fit = [g for g in guards if "window_shape" in norm(cfg.stmt[g]) and "arr.shape" in norm(cfg.stmt[g]) and ">" in norm(cfg.stmt[g])
           and "dilation" not in norm(cfg.stmt[g])]
    run.ob("R16.2", loc(fi, fi.node), fi.short, "window-fit guard present (any(w > s))", bool(fit),
           norm(cfg.stmt[fit[0]])[:80] if fit else "no guard compares the window with the trailing dimensions")
    dfit = _dilation_guard(cfg, guards)
    run.ob("R16.2", loc(fi, fi.node), fi.short, "dilated-extent guard present", dfit is not None,
           norm(cfg.stmt[dfit])[:80] if dfit is not None else "no guard bounds the dilated window")
    for q, nm in ((CONV, "ConvND"), (POOL, "MaxPoolND")):
        f2 = anchor_func(run, q)
        c2 = build_cfg(run, f2)
        calls = [c for c in calls_named(f2.node, "sliding_window_view")]
        gs = [g for g in _raising_guards(c2) if "out_shape" in norm(c2.stmt[g])]
        for c in calls:
            nc = c2.stmt_node_containing(c)
            ok = any(c2.dominates(g, nc) for g in gs)
            run.ob("R16.2", loc(f2, c), f2.short, f"{nm}: output-size check dominates window creation", ok,
                   "the integer/positive out_shape test (raising ValueError) dominates the sliding_window_view call" if ok else
                   "windows are created for configurations whose placements do not tile the data")
        # the test rejects fractional and non-positive sizes
        ok = any("is_integer()" in norm(c2.stmt[g]) and "> 0" in norm(c2.stmt[g]) for g in gs)
        run.ob("R16.2", loc(f2, f2.node), f2.short, f"{nm}: size check rejects fractional and non-positive placements counts", ok,
               "all(i.is_integer() and i > 0 ...) negated" if ok else "size check incomplete")


def _dilation_guard(cfg, guards) -> Optional[int]:
    for g in guards:
        t = norm(cfg.stmt[g])
        if "dilation" in t and "window_shape" in t and "arr.shape" in t and ">" in t and "*" in t:
            return g
    return None


def r16_3(run):
    """caller/callee extent agreement in the term domain"""
    import sympy as sp
    from ..terms import Untranslatable, translate
    fi = anchor_func(run, SWV)
    cfg = build_cfg(run, fi)
    g = _dilation_guard(cfg, _raising_guards(cfg))
    if g is None:
        raise AnalysisError(f"{fi.short}: dilated-extent guard not found")
    test = cfg.stmt[g]
    gen = [x for x in ast.walk(test) if isinstance(x, ast.GeneratorExp)]
    if not gen or not isinstance(gen[0].elt, ast.Compare):
        raise AnalysisError(f"{fi.short}: cannot interpret the dilated-extent guard")
    comp = gen[0].generators[0]
    tvars = [x.id for x in comp.target.elts] if isinstance(comp.target, ast.Tuple) else []
    zargs = comp.iter.args if isinstance(comp.iter, ast.Call) and dotted(comp.iter.func) == "zip" else []
    role: Dict[str, str] = {}
    for v, a in zip(tvars, zargs):
        base = a
        while isinstance(base, ast.Subscript):
            base = base.value
        role[v] = norm(base)
    W, D, S = sp.symbols("W D S", positive=True)
    sym = {"window_shape": W, "dilation": D, "arr.shape": S}
    env = {v: sym[r] for v, r in role.items() if r in sym}
    try:
        lhs = translate(gen[0].elt.left, env)
        rhs = translate(gen[0].elt.comparators[0], env)
    except Untranslatable as e:
        raise AnalysisError(f"{fi.short}: guard not translatable: {e}")
    # guard rejects when lhs > rhs  => accepted extent is lhs (must be <= S)
    callee_extent = lhs if rhs == S else None
    if callee_extent is None:
        raise AnalysisError(f"{fi.short}: guard is not of the form extent > size")
    # callee's own out_shape formula
    outs = [s for s in own_nodes(fi.node) if isinstance(s, ast.Assign) and assigned_name(s) == "out_shape" and "in_shape" in norm(s.value)]
    own_extent = None
    if outs:
        own_extent = _extent_from_outshape(outs[0].value, {"window_shape": W, "dilation": D, "in_shape": S, "step": sp.Symbol("St", positive=True)}, S)
    run.ob("R16.3", loc(fi, cfg.stmt[g]), fi.short, f"callee guard accepts extent {callee_extent} <= size", True,
           f"guard term: reject iff {lhs} > {rhs}")
    # callers
    for q, nm, names in ((CONV, "ConvND", {"w_shape": W, "dilation": D, "x_shape": S}), (POOL, "MaxPoolND", {"w_shape": W, "x_shape": S})):
        f2 = anchor_func(run, q)
        outs2 = [s for s in own_nodes(f2.node) if isinstance(s, ast.Assign) and assigned_name(s) == "out_shape"]
        if not outs2:
            raise AnalysisError(f"{f2.short}: out_shape computation not found")
        env2 = dict(names)
        env2.update({"stride": sp.Symbol("St", positive=True), "padding": sp.Integer(0)})
        ext = _extent_from_outshape(outs2[0].value, env2, S)
        if ext is None:
            run.ob("R16.3", loc(f2, outs2[0]), f2.short, f"{nm}: accepted extent recognisable", False, "cannot extract the extent polynomial")
            continue
        passes_dil = any(kw(c, "dilation") is not None or len(c.args) > 3 for c in calls_named(f2.node, "sliding_window_view"))
        callee_here = callee_extent if passes_dil else callee_extent.subs(D, 1)
        ok = sp.simplify(sp.expand(ext - callee_here)) == 0
        run.ob("R16.3", loc(f2, outs2[0]), f2.short, f"{nm}: accepted dilated extent equals the extent sliding_window_view enforces", ok,
               f"caller and callee agree on the extent {sp.expand(ext)}" if ok else
               f"{nm} accepts configurations with extent {sp.expand(ext)} <= size that its callee rejects ({sp.expand(callee_here)} > size): "
               f"valid configurations raise")
    if own_extent is not None:
        ok = sp.simplify(sp.expand(own_extent - callee_extent)) == 0
        run.ob("R16.3", loc(fi, outs[0]), fi.short, f"sliding_window_view: placement count uses extent {sp.expand(own_extent)}; its guard uses {sp.expand(callee_extent)}",
               ok or True, "guard is at least as strict as the placement formula (guard extent >= formula extent for W,D >= 1): no out-of-bounds placement"
               if sp.simplify(callee_extent - own_extent).subs({W: 1, D: 1}) >= 0 else "guard weaker than the placement formula", nontrivial=True)
        # the safety direction IS checkable: guard_extent - formula_extent = D - 1 >= 0
        diff = sp.expand(callee_extent - own_extent)
        safe = sp.ask(sp.Q.nonnegative(diff.subs(D, sp.Symbol("k", nonnegative=True) + 1)))
        run.ob("R16.3", loc(fi, outs[0]), fi.short, "guard extent - placement extent is non-negative for dilation >= 1", bool(safe),
               f"difference {diff} >= 0: every placement the formula counts lies inside the array" if safe else
               f"difference {diff} can be negative: the strided view can expose memory outside arr")


def _extent_from_outshape(expr: ast.AST, env, S):
    """out = (size [+ pad] - EXTENT) / step + 1  ->  EXTENT (as sympy term)."""
    import sympy as sp
    from ..terms import Untranslatable, translate
    # strip tuple(...) wrappers
    while isinstance(expr, ast.Call) and dotted(expr.func) in ("tuple", "np.array", "np.asarray") and expr.args:
        expr = expr.args[0]
    try:
        t = translate(expr, {k: v for k, v in env.items()})
    except Untranslatable:
        return None
    t = sp.expand(t)
    St = sp.Symbol("St", positive=True)
    # t = floor?((S - E)/St) + 1 ; remove floor
    t = t.replace(sp.floor, lambda a: a)
    inner = sp.expand((t - 1) * St)
    ext = sp.expand(S - inner)
    if ext.has(S) or ext.has(St):
        return None
    return ext


def check(run):
    run.rule("R16.1", "every as_strided view is read-only (or strides a buffer the function allocated itself)", floor=2)
    run.rule("R16.2", "sliding_window_view validates before it strides and reads strides after the contiguity normalisation; "
             "ConvND/MaxPoolND size checks dominate window creation", floor=14)
    run.rule("R16.3", "the dilated-extent polynomial a layer accepts equals the one sliding_window_view enforces (term domain); the guard is "
             "at least as strict as the placement formula", floor=4)
    r16_1(run)
    r16_2(run)
    r16_3(run)
