"""C16 -- nnet layers (narrow claim): read-only window view, validate-before-stride, caller/callee extent agreement."""
from __future__ import annotations

import ast
from typing import Dict, List, Optional

import networkx as nx

from ..cfg import ENTRY, EXIT, RAISE, reaching_defs
from ..common import calls_named, dotted, kw, loc, norm
from ..model import AnalysisError, External, own_nodes
from .util import anchor_func, assigned_name, build_cfg, facts

SWV = "mygrad.nnet.layers.utils.sliding_window_view"
CONV = "mygrad.nnet.layers.conv.ConvND.__call__"
POOL = "mygrad.nnet.layers.pooling.MaxPoolND.__call__"


def _raising_guards(cfg) -> List[int]:
    out = []
    raises = [n for n, s in cfg.stmt.items() if isinstance(s, ast.Raise) and cfg.reachable(n)]
    for t, s in cfg.stmt.items():
        if cfg.label[t] != "If":
            continue
        if any(cfg.edge_dominates(t, "true", r) for r in raises):
            out.append(t)
    return out


def r16_1(run):
    fx = facts(run)
    n = 0
    for fi in run.project.all_functions():
        for c in own_nodes(fi.node):
            if isinstance(c, ast.Call) and (fx.ext_name_of(fi, c.func) or "").endswith("stride_tricks.as_strided"):
                n += 1
                w = kw(c, "writeable")
                if fi.qualname == SWV:
                    ok = isinstance(w, ast.Constant) and w.value is False
                    run.ob("R16.1", loc(fi, c), fi.short, "as_strided(..., writeable=False) in sliding_window_view", ok,
                           "the overlapping window view is read-only" if ok else
                           "window view is writeable: writing one element silently changes many windows / the source array")
                else:
                    # other users: the strided array must be a local the function allocated itself
                    a0 = c.args[0] if c.args else None
                    from ..cfg import reaching_defs
                    cfg = build_cfg(run, fi)
                    here = cfg.stmt_node_containing(c)
                    defs = reaching_defs(cfg, a0.id, here) if isinstance(a0, ast.Name) and here is not None else []
                    vals = [getattr(cfg.stmt.get(d), "value", None) if d != ENTRY else None for d in defs]
                    fresh = bool(vals) and all(isinstance(v, ast.Call) and (fx.ext_name_of(fi, v.func) or "").split(".")[-1] in (
                        "zeros", "zeros_like", "empty", "empty_like", "ones", "full", "copy", "array") for v in vals)
                    ok = (isinstance(w, ast.Constant) and w.value is False) or fresh
                    run.ob("R16.1", loc(fi, c), fi.short, f"as_strided({norm(a0) if a0 is not None else '?'}, ...)", ok,
                           "strides a freshly allocated local (writes stay inside the function's own buffer)" if fresh else
                           ("read-only" if ok else "writeable strided view of memory the function does not own"))
    run.count("as_strided calls", n)
    if n < 1:
        raise AnalysisError("no as_strided call found")


def r16_2(run):
    fx = facts(run)
    fi = anchor_func(run, SWV)
    cfg = build_cfg(run, fi)
    strided = [c for c in own_nodes(fi.node) if isinstance(c, ast.Call) and (fx.ext_name_of(fi, c.func) or "").endswith("as_strided")]
    if len(strided) != 1:
        raise AnalysisError(f"{fi.short}: expected one as_strided call")
    ns = cfg.stmt_node_containing(strided[0])
    guards = _raising_guards(cfg)
    run.count("raising guards in sliding_window_view", len(guards))
    after = nx.descendants(cfg.g, ns)
    for g in guards:
        ok = g not in after and ns in nx.descendants(cfg.g, g)
        run.ob("R16.2", loc(fi, cfg.stmt[g]), fi.short, f"guard `{norm(cfg.stmt[g])[:60]}` precedes the striding", ok,
               "guard is an ancestor, not a descendant, of the as_strided node" if ok else "validation after the strided view was built")
    # the stride arithmetic reads arr only after the contiguity normalisation
    cont = [n for n, s in cfg.stmt.items() if isinstance(s, ast.Assign) and "ascontiguousarray" in norm(s)]
    ok = bool(cont) and all(ns in nx.descendants(cfg.g, c) for c in cont)
    flagtest = [n for n, s in cfg.stmt.items() if cfg.label[n] == "If" and "C_CONTIGUOUS" in norm(s) and norm(s).startswith("not ")]
    ok = ok and (not flagtest or all(cfg.edge_dominates(t, "true", c) for t in flagtest for c in cont))
    # ... and a test that lets the copy be skipped must establish the contiguity of the *whole* array that is strided (the stride arithmetic
    # starts from the leading axis): its subject is that array itself, not a slice / sub-view of it
    a0_ = strided[0].args[0] if strided[0].args else None
    subj_ok = True
    for n_, s_ in cfg.stmt.items():
        if cfg.label[n_] == "If" and ("CONTIGUOUS" in norm(s_).upper()):
            e_ = s_.operand if isinstance(s_, ast.UnaryOp) and isinstance(s_.op, ast.Not) else s_
            base_ = e_.value if isinstance(e_, ast.Subscript) else e_          # <x>.flags['C_CONTIGUOUS']  |  <x>.flags.c_contiguous
            base_ = base_.value if isinstance(base_, ast.Attribute) and base_.attr in ("flags", "c_contiguous") else base_
            base_ = base_.value if isinstance(base_, ast.Attribute) and base_.attr == "flags" else base_
            if a0_ is None or norm(base_) != norm(a0_):
                subj_ok = False
    run.ob("R16.2", loc(fi, fi.node), fi.short, "the contiguity test that lets the copy be skipped looks at the whole strided array", subj_ok,
           f"subject of the flags test is `{norm(a0_) if a0_ is not None else '?'}` itself" if subj_ok else
           "contiguity is established for a slice / sub-view only: strides computed from the full shape address the wrong elements of an array "
           "that is strided along its leading axes (x[::2], x[:, 1:], a Tensor view)")
    run.ob("R16.2", loc(fi, fi.node), fi.short, "the C-contiguity normalisation precedes the striding", ok,
           "np.ascontiguousarray(arr) (guarded by the flags test) is an ancestor of the as_strided node" if ok else
           "strides computed for C order are applied to an array of another layout: the view can address memory outside arr")
    # D11: the byte unit of the stride arithmetic.  NumPy leaves the stride of a length-1 axis arbitrary (0 after x[..., None]) even for arrays
    # it flags C-contiguous, so nothing may be derived from arr.strides: shape x itemsize only
    sreads = [x for x in own_nodes(fi.node) if isinstance(x, ast.Attribute) and x.attr == "strides" and isinstance(x.ctx, ast.Load)]
    isz = [x for x in own_nodes(fi.node) if isinstance(x, ast.Attribute) and x.attr in ("itemsize",) and isinstance(x.ctx, ast.Load)]
    run.ob("R16.4", loc(fi, sreads[0] if sreads else (isz[0] if isz else fi.node)), fi.short, "window strides are derived from shape and itemsize, never from arr.strides",
           not sreads and bool(isz), f"{len(isz)} read(s) of .itemsize, no read of .strides" if (not sreads and isz) else
           f"`{norm(getattr(sreads[0], '_parent', sreads[0]))[:50]}` reads the array's own strides: for a C-contiguous array whose last axis has length 1 "
           f"(x[..., None]) that stride is 0, every window stride becomes 0 and all windows read arr[0]" if sreads else "no element size found")
    # positivity of every integer option, before it is used as a divisor / multiplier of strides
    for nm_ in ("window_shape", "step", "dilation"):
        pos = []
        for g_ in guards:
            gt = cfg.stmt[g_]
            for ge in ast.walk(gt):
                if isinstance(ge, ast.GeneratorExp) and norm(ge.generators[0].iter) == nm_ and isinstance(ge.generators[0].target, ast.Name):
                    v_ = ge.generators[0].target.id
                    fn_ = getattr(ge, "_parent", None)
                    quant = dotted(fn_.func) if isinstance(fn_, ast.Call) else None
                    negated = isinstance(getattr(fn_, "_parent", None), ast.UnaryOp) and isinstance(fn_._parent.op, ast.Not)
                    for cmp_ in ast.walk(ge.elt):
                        if not (isinstance(cmp_, ast.Compare) and len(cmp_.ops) == 1):
                            continue
                        t_ = norm(cmp_)
                        # raise unless all(... i > 0 ...)   |   raise if any(... i <= 0 ...)
                        if quant == "all" and negated and t_ in (f"{v_} > 0", f"{v_} >= 1", f"0 < {v_}", f"1 <= {v_}"):
                            pos.append(g_)
                        if quant == "any" and not negated and t_ in (f"{v_} <= 0", f"{v_} < 1", f"0 >= {v_}", f"1 > {v_}"):
                            pos.append(g_)
            if any(norm(x) in (f"min({nm_}) <= 0", f"min({nm_}) < 1", f"0 >= min({nm_})", f"1 > min({nm_})") for x in ast.walk(gt) if isinstance(x, ast.Compare)):
                pos.append(g_)
        ok = any(g_ not in after and ns in nx.descendants(cfg.g, g_) for g_ in pos)
        run.ob("R16.5", loc(fi, cfg.stmt[pos[0]] if pos else fi.node), fi.short, f"every entry of `{nm_}` is tested strictly positive before the striding", ok,
               f"raising guard `{norm(cfg.stmt[pos[0]])[:60]}`" if ok else
               f"no raising guard establishes {nm_}[i] > 0: a zero entry is accepted (division by zero yields a bogus placement count / all windows coincide)")
    # specific fit rules named by the property
    fit = [g for g in guards if "window_shape" in norm(cfg.stmt[g]) and "arr.shape" in norm(cfg.stmt[g]) and ">" in norm(cfg.stmt[g])
           and "dilation" not in norm(cfg.stmt[g])]
    run.ob("R16.2", loc(fi, fi.node), fi.short, "window-fit guard present (any(w > s))", bool(fit),
           norm(cfg.stmt[fit[0]])[:80] if fit else "no guard compares the window with the trailing dimensions")
    dfit = _dilation_guard(cfg, guards)
    run.ob("R16.2", loc(fi, fi.node), fi.short, "dilated-extent guard present", dfit is not None,
           norm(cfg.stmt[dfit])[:80] if dfit is not None else "no guard bounds the dilated window")
    for q, nm in ((CONV, "ConvND"), (POOL, "MaxPoolND")):
        f2 = anchor_func(run, q)
        c2 = build_cfg(run, f2)
        calls = [c for c in calls_named(f2.node, "sliding_window_view")]
        gs = [g for g in _raising_guards(c2) if "out_shape" in norm(c2.stmt[g])]
        for c in calls:
            nc = c2.stmt_node_containing(c)
            ok = any(c2.dominates(g, nc) for g in gs)
            run.ob("R16.2", loc(f2, c), f2.short, f"{nm}: output-size check dominates window creation", ok,
                   "the integer/positive out_shape test (raising ValueError) dominates the sliding_window_view call" if ok else
                   "windows are created for configurations whose placements do not tile the data")
        # ... and every value the forward pass returns: no shortcut computes a result for a configuration the check would reject
        for r in [x for x in own_nodes(f2.node) if isinstance(x, ast.Return) and x.value is not None]:
            nr = c2.node_for(r)
            if nr is None or not c2.reachable(nr):
                continue
            ok = any(c2.dominates(g, nr) for g in gs)
            run.ob("R16.2", loc(f2, r), f2.short, f"{nm}: output-size check dominates `return {norm(r.value)[:40]}`", ok,
                   "the placement check cuts every path to this result" if ok else
                   "a result is returned on a path that never passes the placement check: configurations in which the windows do not tile the "
                   "(padded) data are accepted instead of raising")
        # the test rejects fractional and non-positive sizes
        ok = any("is_integer()" in norm(c2.stmt[g]) and "> 0" in norm(c2.stmt[g]) for g in gs)
        run.ob("R16.2", loc(f2, f2.node), f2.short, f"{nm}: size check rejects fractional and non-positive placements counts", ok,
               "all(i.is_integer() and i > 0 ...) negated" if ok else "size check incomplete")


def _dilation_guard(cfg, guards) -> Optional[int]:
    for g in guards:
        t = norm(cfg.stmt[g])
        if "dilation" in t and "window_shape" in t and "arr.shape" in t and ">" in t and "*" in t:
            return g
    return None


def r16_3(run):
    """caller/callee extent agreement in the term domain"""
    import sympy as sp
    from ..terms import Untranslatable, translate
    fi = anchor_func(run, SWV)
    cfg = build_cfg(run, fi)
    g = _dilation_guard(cfg, _raising_guards(cfg))
    if g is None:
        raise AnalysisError(f"{fi.short}: dilated-extent guard not found")
    test = cfg.stmt[g]
    gen = [x for x in ast.walk(test) if isinstance(x, ast.GeneratorExp)]
    if not gen or not isinstance(gen[0].elt, ast.Compare):
        raise AnalysisError(f"{fi.short}: cannot interpret the dilated-extent guard")
    comp = gen[0].generators[0]
    tvars = [x.id for x in comp.target.elts] if isinstance(comp.target, ast.Tuple) else []
    zargs = comp.iter.args if isinstance(comp.iter, ast.Call) and dotted(comp.iter.func) == "zip" else []
    role: Dict[str, str] = {}
    for v, a in zip(tvars, zargs):
        base = a
        while isinstance(base, ast.Subscript):
            base = base.value
        role[v] = norm(base)
    W, D, S = sp.symbols("W D S", positive=True)
    sym = {"window_shape": W, "dilation": D, "arr.shape": S}
    env = {v: sym[r] for v, r in role.items() if r in sym}
    try:
        lhs = translate(gen[0].elt.left, env)
        rhs = translate(gen[0].elt.comparators[0], env)
    except Untranslatable as e:
        raise AnalysisError(f"{fi.short}: guard not translatable: {e}")
    # guard rejects when lhs > rhs  => accepted extent is lhs (must be <= S)
    callee_extent = lhs if rhs == S else None
    if callee_extent is None:
        raise AnalysisError(f"{fi.short}: guard is not of the form extent > size")
    # callee's own out_shape formula
    outs = [s for s in own_nodes(fi.node) if isinstance(s, ast.Assign) and assigned_name(s) == "out_shape" and "in_shape" in norm(s.value)]
    own_extent = None
    if outs:
        own_extent = _extent_from_outshape(outs[0].value, {"window_shape": W, "dilation": D, "in_shape": S, "step": sp.Symbol("St", positive=True)}, S)
    run.ob("R16.3", loc(fi, cfg.stmt[g]), fi.short, f"callee guard accepts extent {callee_extent} <= size", True,
           f"guard term: reject iff {lhs} > {rhs}")
    # callers
    for q, nm, names in ((CONV, "ConvND", {"w_shape": W, "dilation": D, "x_shape": S}), (POOL, "MaxPoolND", {"w_shape": W, "x_shape": S})):
        f2 = anchor_func(run, q)
        outs2 = [s for s in own_nodes(f2.node) if isinstance(s, ast.Assign) and assigned_name(s) == "out_shape"]
        if not outs2:
            raise AnalysisError(f"{f2.short}: out_shape computation not found")
        env2 = dict(names)
        env2.update({"stride": sp.Symbol("St", positive=True), "padding": sp.Integer(0)})
        ext = _extent_from_outshape(outs2[0].value, env2, S)
        if ext is None:
            run.ob("R16.3", loc(f2, outs2[0]), f2.short, f"{nm}: accepted extent recognisable", False, "cannot extract the extent polynomial")
            continue
        passes_dil = any(kw(c, "dilation") is not None or len(c.args) > 3 for c in calls_named(f2.node, "sliding_window_view"))
        callee_here = callee_extent if passes_dil else callee_extent.subs(D, 1)
        ok = sp.simplify(sp.expand(ext - callee_here)) == 0
        run.ob("R16.3", loc(f2, outs2[0]), f2.short, f"{nm}: accepted dilated extent equals the extent sliding_window_view enforces", ok,
               f"caller and callee agree on the extent {sp.expand(ext)}" if ok else
               f"{nm} accepts configurations with extent {sp.expand(ext)} <= size that its callee rejects ({sp.expand(callee_here)} > size): "
               f"valid configurations raise")
    if own_extent is not None:
        ok = sp.simplify(sp.expand(own_extent - callee_extent)) == 0
        run.ob("R16.3", loc(fi, outs[0]), fi.short, f"sliding_window_view: placement count uses extent {sp.expand(own_extent)}; its guard uses {sp.expand(callee_extent)}",
               ok or True, "guard is at least as strict as the placement formula (guard extent >= formula extent for W,D >= 1): no out-of-bounds placement"
               if sp.simplify(callee_extent - own_extent).subs({W: 1, D: 1}) >= 0 else "guard weaker than the placement formula", nontrivial=True)
        # the safety direction IS checkable: guard_extent - formula_extent = D - 1 >= 0
        diff = sp.expand(callee_extent - own_extent)
        safe = sp.ask(sp.Q.nonnegative(diff.subs(D, sp.Symbol("k", nonnegative=True) + 1)))
        run.ob("R16.3", loc(fi, outs[0]), fi.short, "guard extent - placement extent is non-negative for dilation >= 1", bool(safe),
               f"difference {diff} >= 0: every placement the formula counts lies inside the array" if safe else
               f"difference {diff} can be negative: the strided view can expose memory outside arr")


def _extent_from_outshape(expr: ast.AST, env, S):
    """out = (size [+ pad] - EXTENT) / step + 1  ->  EXTENT (as sympy term)."""
    import sympy as sp
    from ..terms import Untranslatable, translate
    # strip tuple(...) wrappers
    while isinstance(expr, ast.Call) and dotted(expr.func) in ("tuple", "np.array", "np.asarray") and expr.args:
        expr = expr.args[0]
    try:
        t = translate(expr, {k: v for k, v in env.items()})
    except Untranslatable:
        return None
    t = sp.expand(t)
    St = sp.Symbol("St", positive=True)
    # t = floor?((S - E)/St) + 1 ; remove floor
    t = t.replace(sp.floor, lambda a: a)
    inner = sp.expand((t - 1) * St)
    ext = sp.expand(S - inner)
    if ext.has(S) or ext.has(St):
        return None
    return ext


_BAD_IDENTITY = {"maximum": ("zeros", "zeros_like", "ones", "ones_like", "empty", "empty_like"),
                 "minimum": ("zeros", "zeros_like", "ones", "ones_like", "empty", "empty_like"),
                 "fmax": ("zeros", "zeros_like", "ones", "ones_like", "empty", "empty_like"),
                 "fmin": ("zeros", "zeros_like", "ones", "ones_like", "empty", "empty_like")}


def _running_extremum_sites(fn_node: ast.AST):
    """(loop, call, accumulator name, initialiser call) for  `np.maximum(acc, x, out=acc)` / `acc = np.maximum(acc, x)` inside a loop
    whose accumulator is initialised before the loop by a constant-filled allocation"""
    out = []
    for loop in [n for n in ast.walk(fn_node) if isinstance(n, (ast.For, ast.While))]:
        for c in ast.walk(loop):
            if not (isinstance(c, ast.Call) and (dotted(c.func) or "").split(".")[-1] in _BAD_IDENTITY and len(c.args) >= 2):
                continue
            kind = (dotted(c.func) or "").split(".")[-1]
            o = kw(c, "out")
            acc = None
            if o is not None and isinstance(o, ast.Name) and o.id in (norm(c.args[0]), norm(c.args[1])):
                acc = o.id
            par = getattr(c, "_parent", None)
            if acc is None and isinstance(par, ast.Assign) and len(par.targets) == 1 and isinstance(par.targets[0], ast.Name) \
                    and par.targets[0].id in (norm(c.args[0]), norm(c.args[1])):
                acc = par.targets[0].id
            if acc is None:
                continue
            for st in ast.walk(fn_node):
                if isinstance(st, ast.Assign) and len(st.targets) == 1 and isinstance(st.targets[0], ast.Name) and st.targets[0].id == acc \
                        and st.lineno < loop.lineno and isinstance(st.value, ast.Call):
                    init = (dotted(st.value.func) or "").split(".")[-1]
                    out.append((loop, c, acc, st, kind, init))
    return out


def r16_6(run):
    """a running max/min must start from the operation's identity (or the first slice), not from a constant-filled buffer"""
    import textwrap
    probe = ast.parse(textwrap.dedent("""
        def f(x, pool):
            out = np.zeros(x.shape)
            for off in pool:
                np.maximum(out, x[off], out=out)
            return out
    """))
    for n_ in ast.walk(probe):
        for ch in ast.iter_child_nodes(n_):
            ch._parent = n_
    if not any(init in _BAD_IDENTITY[kind] for *_r, kind, init in _running_extremum_sites(probe)):
        raise AnalysisError("R16.6 matcher no longer recognises its own positive example")
    n = 0
    for fi in run.project.all_functions():
        if not fi.qualname.startswith("mygrad.nnet."):
            continue
        n += 1
        for loop, c, acc, st, kind, init in _running_extremum_sites(fi.node):
            bad = init in _BAD_IDENTITY[kind]
            run.ob("R16.6", loc(fi, st), fi.short, f"running np.{kind} over `{acc}` starts from the identity of {kind}", not bad,
                   f"initialised by {init}" if not bad else
                   f"`{norm(st)[:50]}` seeds a running {kind} with a constant: windows whose true {kind} lies on the other side of that constant "
                   f"(all-negative data for a zero-seeded max) return the constant")
    run.count("nnet functions scanned for running extrema", n)
    run.ob("R16.6", "mygrad/nnet", "mygrad.nnet", "no running extremum is seeded with a constant buffer", True,
           f"{n} functions scanned; matcher validated on its built-in positive example", nontrivial=False)


def r16_7(run):
    """a forward pass never narrows one operand to another operand's dtype"""
    n = 0
    for c in run.project.operation_classes():
        m = c.methods.get("__call__")
        if m is None or not m.qualname.startswith("mygrad.nnet."):
            continue
        n += 1
        params = set(m.params()) - {"self"}
        alias = {}
        for st in own_nodes(m.node):
            if isinstance(st, ast.Assign) and len(st.targets) == 1 and isinstance(st.targets[0], ast.Name) and isinstance(st.value, ast.Attribute) \
                    and st.value.attr == "data" and isinstance(st.value.value, ast.Name) and st.value.value.id in params:
                alias[st.targets[0].id] = st.value.value.id
        def root(e):
            while isinstance(e, (ast.Attribute, ast.Subscript, ast.Call)):
                e = e.func if isinstance(e, ast.Call) else e.value
            return e.id if isinstance(e, ast.Name) else None
        for k in own_nodes(m.node):
            if isinstance(k, ast.Call) and isinstance(k.func, ast.Attribute) and k.func.attr == "astype" and (k.args or kw(k, "dtype") is not None):
                t = k.args[0] if k.args else kw(k, "dtype")
                if isinstance(t, ast.Attribute) and t.attr == "dtype":
                    tr, rr = root(t.value), root(k.func.value)
                    tr, rr = alias.get(tr, tr), alias.get(rr, rr)
                    bad = tr in params and rr in params and tr != rr
                    run.ob("R16.7", loc(m, k), m.short, f"`{norm(k)[:50]}` does not narrow an operand to another operand's dtype", not bad,
                           "cast target is not a sibling operand's dtype" if not bad else
                           f"operand `{rr}` is cast to the dtype of operand `{tr}`: integer data truncate real-valued filters (the documented formula "
                           f"uses NumPy's promoted type)")
    run.count("nnet forward passes scanned for operand casts", n)
    run.ob("R16.7", "mygrad/nnet", "mygrad.nnet", "no forward pass casts an operand to a sibling operand's dtype", True, f"{n} forward passes scanned", nontrivial=False)


def r16_9(run):
    """options are validated *as given*: the value an integrality guard of sliding_window_view tests is the caller's sequence itself (or a
    value-preserving re-wrap: tuple(p), list(p), np.asarray(p) without dtype) -- never an integer-cast copy, which would turn 2.5 into 2 before
    the guard can reject it"""
    fi = anchor_func(run, SWV)
    params = [a.arg for a in fi.node.args.args + fi.node.args.kwonlyargs]
    n = 0
    for nm_ in params[1:]:
        # the sequence form of the option: not None, not a bare integer
        cfg = build_cfg(run, fi, {f"isinstance({nm_}, Integral)": False, f"{nm_} is None": False, f"hasattr({nm_}, '__iter__')": True})
        guards = []
        for g_ in _raising_guards(cfg):
            gt = cfg.stmt[g_]
            for ge in ast.walk(gt):
                if isinstance(ge, ast.GeneratorExp) and norm(ge.generators[0].iter) == nm_ and "Integral" in norm(ge.elt):
                    guards.append(g_)
        for g_ in guards:
            if not cfg.reachable(g_):
                continue
            n += 1
            bad = []
            for d in reaching_defs(cfg, nm_, g_):
                if d == ENTRY:
                    continue
                v = getattr(cfg.stmt[d], "value", None)
                if _value_preserving_rewrap(v, nm_):
                    continue
                bad.append(norm(cfg.stmt[d])[:70])
            run.ob("R16.9", loc(fi, cfg.stmt[g_]), fi.short, f"the integrality guard of `{nm_}` tests the caller's values", not bad,
                   "reaching definitions: the parameter itself / tuple(...) / asarray without dtype" if not bad else
                   f"`{bad[0]}` converts the option before it is validated: non-integer entries are truncated and accepted instead of rejected")
    run.count("integrality guards of sliding_window_view options", n)


def _value_preserving_rewrap(v, nm_) -> bool:
    if isinstance(v, ast.Name) and v.id == nm_:
        return True
    if isinstance(v, ast.Call) and len(v.args) == 1 and norm(v.args[0]) == nm_:
        f = dotted(v.func) or ""
        if f in ("tuple", "list") and not v.keywords:
            return True
        if f in ("np.asarray", "numpy.asarray", "np.array", "numpy.array", "np.asanyarray") and not any(k.arg == "dtype" for k in v.keywords):
            return True
    return False


def check(run):
    run.rule("R16.9", "the integrality guards of sliding_window_view test the options as the caller gave them (no integer cast before validation)", floor=2)
    run.do(r16_9)
    run.rule("R16.1", "every as_strided view is read-only (or strides a buffer the function allocated itself)", floor=2)
    run.rule("R16.2", "sliding_window_view validates and normalises to C-contiguity before it strides; "
             "ConvND/MaxPoolND size checks dominate window creation", floor=14)
    run.rule("R16.3", "the dilated-extent polynomial a layer accepts equals the one sliding_window_view enforces (term domain); the guard is "
             "at least as strict as the placement formula", floor=4)
    run.rule("R16.4", "sliding_window_view derives its strides from shape x itemsize only", floor=1)
    run.rule("R16.5", "window_shape, step and dilation entries are validated strictly positive before use", floor=3)
    run.rule("R16.6", "running max/min accumulators in nnet code start from the identity, not a constant buffer", floor=1)
    run.rule("R16.7", "nnet forward passes do not narrow operands to a sibling operand's dtype", floor=1)
    run.rule("R16.8", "nnet code: a parameter inspected with isinstance is still used when it is of none of the tested types", floor=20)
    from .util import type_narrowed_dead_params
    n = type_narrowed_dead_params(run, "R16.8", [f for f in run.project.all_functions() if f.module.name.startswith("mygrad.nnet")])
    run.count("type-tested parameters (nnet)", n)
    run.do(r16_6)
    run.do(r16_7)
    run.do(r16_1)
    run.do(r16_2)
    run.do(r16_3)
