"""Extended-sign abstract interpretation of the *log-domain family* (R02.7).

The ops in this family exist because their naive formulas overflow: logaddexp, logaddexp2, softmax, logsoftmax, softmax-crossentropy,
sigmoid and the helpers `_softmax` / `logsumexp`.  Their forward values are finite for every finite operand, and so is their exact
derivative; a backward (or forward) body that can evaluate  inf/inf, 0/0, 0*inf  or  inf-inf  on finite operands returns nan where the
derivative exists -- for *every* input of large magnitude, which the test-suite (logits in [-10, 10]) never draws.

Domain.  An array-valued expression is abstracted by the set of IEEE classes its entries may take,
    Z (exactly 0)   P (finite > 0)   N (finite < 0)   PI (+inf)   NI (-inf)   NAN
plus one of a few *relational tags* that record the stabilising idioms of the repository:
    MAX(src)      amax/max of the array `src` along some axes
    GEMAX(src)    a value >= max(src)            (log(sum(exp(src - max))) + max)
    NONPOS0       src - MAX(src)      : <= 0, attains 0 along the reduced axes
    NONPOS        src - GEMAX(src)    : <= 0
    UNIT1         exp(NONPOS0)        : in [0, 1], attains 1
    GE1           sum(UNIT1) over the same axes, 1 + exp(.)   : >= 1
Idealisation (stated in the evidence): operands and incoming gradients are finite; only exponentials (exp, exp2, expm1, c ** x)
overflow or underflow -- sums/products/differences of finite values are taken to be finite.  The interpreter is a structured walk over
loop-free bodies (if/else joined, `index == k` specialised), inlines repo helpers, and raises NotCovered for anything it does not
understand: "not covered" is reported, never alarmed on.  Nothing is executed.
"""
from __future__ import annotations

import ast
import itertools
from typing import Dict, List, Optional, Tuple

from ..cfg import UNKNOWN as U3, eval3
from ..common import dotted, norm
from ..model import FunctionInfo

Z, P, N, PI, NI, NAN = "Z", "P", "N", "PI", "NI", "NAN"
FIN = frozenset({Z, P, N})
_ids = itertools.count(1)


class NotCovered(Exception):
    pass


class V:
    """abstract array value"""
    __slots__ = ("s", "tag", "src", "why")

    def __init__(self, s, tag=None, src=None, why=None):
        self.s = frozenset(s)
        self.tag = tag            # ("MAX", src, key) | ("GEMAX", src) | ("NONPOS0", key) | ("NONPOS",) | ("UNIT1", key) | ("GE1",)
        self.src = src if src is not None else next(_ids)
        self.why = why            # text of the expression that first produced NAN

    def __repr__(self):
        return "{" + ",".join(sorted(self.s)) + "}" + (f"<{self.tag[0]}>" if self.tag else "")


class T:
    """a tensor: .data is a V"""
    def __init__(self, data: V):
        self.data = data


class Seq:
    def __init__(self, items):
        self.items = list(items)


class Opaque:
    """a non-array python value we carry around untouched (kwargs dicts, axis specs, shapes, index objects)"""
    def __init__(self, text):
        self.text = text


def join(a, b):
    if isinstance(a, V) and isinstance(b, V):
        tag = a.tag if a.tag == b.tag else None
        return V(a.s | b.s, tag, a.src if a.src == b.src else None, a.why or b.why)
    if a is None:
        return b
    if b is None:
        return a
    if isinstance(a, Opaque) and isinstance(b, Opaque):
        return a
    if isinstance(a, T) and isinstance(b, T):
        return T(join(a.data, b.data))
    raise NotCovered("join of unlike values")


def _neg(c):
    return {Z: Z, P: N, N: P, PI: NI, NI: PI, NAN: NAN}[c]


def _add1(a, b):
    if NAN in (a, b):
        return {NAN}
    if a == Z:
        return {b}
    if b == Z:
        return {a}
    if {a, b} == {PI, NI}:
        return {NAN}
    if PI in (a, b):
        return {PI}
    if NI in (a, b):
        return {NI}
    if a == b:
        return {a}
    return {Z, P, N}


def _mul1(a, b):
    if NAN in (a, b):
        return {NAN}
    inf = {PI, NI}
    if (a == Z and b in inf) or (b == Z and a in inf):
        return {NAN}
    if Z in (a, b):
        return {Z}
    neg = (a in (N, NI)) != (b in (N, NI))
    if a in inf or b in inf:
        return {NI if neg else PI}
    return {N if neg else P}


def _div1(a, b):
    if NAN in (a, b):
        return {NAN}
    inf = {PI, NI}
    if a == Z and b == Z:
        return {NAN}
    if a in inf and b in inf:
        return {NAN}
    if b == Z:  # x / 0 -> signed infinity (sign of the zero unknown)
        return {PI, NI} if a not in inf else {a, _neg(a)}
    if b in inf:
        return {Z}
    if a == Z:
        return {Z}
    neg = (a in (N, NI)) != (b == N)
    if a in inf:
        return {NI if neg else PI}
    return {N if neg else P}


def _lift(f, a: V, b: V, text) -> V:
    out = set()
    for x in a.s:
        for y in b.s:
            out |= f(x, y)
    why = a.why or b.why
    if NAN in out and NAN not in a.s and NAN not in b.s:
        why = text
    return V(out, why=why)


def const(x) -> V:
    if x == 0:
        return V({Z})
    if x != x:
        return V({NAN}, why="nan literal")
    if x in (float("inf"),):
        return V({PI})
    if x in (float("-inf"),):
        return V({NI})
    return V({P} if x > 0 else {N})


def add(a: V, b: V, text) -> V:
    r = _lift(_add1, a, b, text)
    # 1 + {>=0}  ->  >= 1 ; nonneg + MAX(src) -> GEMAX(src)
    if (a.s == {P} and b.s <= {Z, P, PI}) or (b.s == {P} and a.s <= {Z, P, PI}):
        r.tag = ("GE1",)
    for x, y in ((a, b), (b, a)):
        if x.tag and x.tag[0] in ("MAX", "GEMAX") and y.s <= {Z, P, PI}:
            r.tag = ("GEMAX", x.tag[1])
    return r


def sub(a: V, b: V, text) -> V:
    nb = V({_neg(c) for c in b.s}, why=b.why)
    r = _lift(_add1, a, nb, text)
    if b.tag and b.tag[0] == "MAX" and b.tag[1] == a.src:
        r = V((r.s & {Z, N, NI}) | {Z}, ("NONPOS0", b.tag[2]), why=a.why or b.why)
    elif b.tag and b.tag[0] == "GEMAX" and b.tag[1] == a.src:
        r = V((r.s & {Z, N, NI}) | {N}, ("NONPOS",), why=a.why or b.why)
    return r


def mul(a: V, b: V, text) -> V:
    return _lift(_mul1, a, b, text)


def div(a: V, b: V, text) -> V:
    if b.tag and b.tag[0] == "GE1":
        b = V(b.s - {Z, N, NI}, b.tag, b.src, b.why)
    r = _lift(_div1, a, b, text)
    if a.tag and a.tag[0] == "UNIT1" and b.tag and b.tag[0] == "GE1":
        r = V({Z, P}, why=r.why)
    return r


def exp_like(a: V, text, minus_one=False) -> V:
    out = set()
    for c in a.s:
        out |= {Z: {P}, P: {P, PI}, N: {P, Z}, PI: {PI}, NI: {Z}, NAN: {NAN}}[c]
    tag = None
    if a.tag and a.tag[0] == "NONPOS0":
        out, tag = (out - {PI}), ("UNIT1", a.tag[1])
    elif a.tag and a.tag[0] == "NONPOS":
        out = out - {PI}
    if minus_one:
        out = {{Z: N, P: P}.get(c, c) for c in out} | ({Z} if P in out else set()) | ({N} if P in out else set())
        tag = None
    return V(out, tag, why=a.why)


def log_like(a: V, text) -> V:
    if a.tag and a.tag[0] == "GE1":
        return V({Z, P} | ({PI} if PI in a.s else set()), why=a.why)
    out = set()
    why = a.why
    for c in a.s:
        out |= {Z: {NI}, P: {Z, P, N}, N: {NAN}, PI: {PI}, NI: {NAN}, NAN: {NAN}}[c]
    if NAN in out and NAN not in a.s:
        why = text
    return V(out, why=why)


def reduce_sum(a: V, key, text) -> V:
    if a.tag and a.tag[0] == "UNIT1" and (key is None or a.tag[1] is None or key == a.tag[1]):
        return V({P}, ("GE1",), why=a.why)
    out = set(a.s)
    if P in out and N in out:
        out |= {Z}
    why = a.why
    if PI in out and NI in out:
        out |= {NAN}
        why = why or text
    return V(out, why=why)


_UNARY_SAME = {"asarray", "array", "copy", "ascontiguousarray", "asanyarray", "squeeze", "expand_dims", "reshape", "transpose", "ravel",
               "atleast_1d", "atleast_2d", "broadcast_to", "flip", "nan_to_num_", "float64", "float32"}
_REDUCE_MAX = {"amax", "max", "nanmax"}
_REDUCE_SAME = {"amin", "min", "mean", "cumsum_"}
_RED_KW = ("axis",)


def _key(call: ast.Call, c: "Ctx", skip=0) -> Optional[str]:
    """normalised description of the reduced axes of a reduction call (None = not determinable / whole array)"""
    parts = []
    for k in call.keywords:
        if k.arg is None:
            v = c.env.get(norm(k.value)) if isinstance(k.value, ast.Name) else c.attrs.get(k.value.attr) if isinstance(k.value, ast.Attribute) and norm(k.value.value) == "self" else None
            parts.append("**" + (v.text if isinstance(v, Opaque) else norm(k.value)))
        elif k.arg in _RED_KW:
            v = c.env.get(k.value.id) if isinstance(k.value, ast.Name) else None
            parts.append(f"{k.arg}=" + (v.text if isinstance(v, Opaque) else norm(k.value)))
    for a in call.args[skip:skip + 1]:
        v = c.env.get(a.id) if isinstance(a, ast.Name) else None
        parts.append("axis=" + (v.text if isinstance(v, Opaque) else norm(a)))
    return ";".join(sorted(parts)) or None


class Ctx:
    def __init__(self, fx, fi: FunctionInfo, assume: Dict[str, object], depth=0):
        self.fx, self.fi, self.assume, self.depth = fx, fi, assume, depth
        self.env: Dict[str, object] = {}
        self.attrs: Dict[str, object] = {}
        self.ret = None
        self.returned_all = False


def _as_v(x, text) -> V:
    if isinstance(x, V):
        return x
    if isinstance(x, T):
        return x.data
    if isinstance(x, (int, float)) and not isinstance(x, bool):
        return const(x)
    raise NotCovered(f"not an array value: {text}")


def ev(e: ast.AST, c: Ctx):
    t = norm(e)
    if isinstance(e, ast.Constant):
        if isinstance(e.value, bool) or e.value is None or isinstance(e.value, str):
            return Opaque(t)
        if isinstance(e.value, (int, float)):
            return e.value
        raise NotCovered(t)
    if isinstance(e, ast.Name):
        if e.id in c.env:
            return c.env[e.id]
        r = c.fx.p.module_symbol(c.fi.module, e.id)
        if isinstance(r, tuple) and r[0] == "value" and isinstance(r[2], ast.Constant) and isinstance(r[2].value, (int, float)):
            return r[2].value
        return Opaque(t)
    if isinstance(e, ast.Attribute):
        if norm(e.value) == "self":
            if e.attr == "variables":
                return Opaque("self.variables")
            if e.attr in c.attrs:
                return c.attrs[e.attr]
            raise NotCovered(f"self.{e.attr} not defined by the forward pass")
        b = ev(e.value, c)
        if e.attr == "data" and isinstance(b, T):
            return b.data
        if e.attr == "data" and isinstance(b, V):
            return b
        if e.attr in ("shape", "ndim", "size", "dtype", "T") and isinstance(b, (V, T)):
            return b.data if (e.attr == "T" and isinstance(b, T)) else (b if e.attr == "T" else Opaque(t))
        if isinstance(b, Opaque):
            return Opaque(t)
        raise NotCovered(t)
    if isinstance(e, ast.Subscript):
        if norm(e.value) == "self.variables":
            return T(V(FIN))
        b = ev(e.value, c)
        if isinstance(b, Opaque):
            # x.shape[0]: a positive count
            return V({P}) if ".shape" in b.text or b.text.startswith("len(") else Opaque(t)
        if isinstance(b, (V, T)):
            v = _as_v(b, t)
            return V(v.s, None, None, v.why)  # a selection of entries: classes kept, relational tags dropped
        if isinstance(b, Seq):
            raise NotCovered(t)
    if isinstance(e, ast.UnaryOp):
        v = ev(e.operand, c)
        if isinstance(e.op, (ast.Not, ast.Invert)):
            return Opaque(t)
        v = _as_v(v, t)
        if isinstance(e.op, ast.USub):
            return V({_neg(x) for x in v.s}, why=v.why)
        return v
    if isinstance(e, ast.BinOp):
        a, b = ev(e.left, c), ev(e.right, c)
        if isinstance(a, Opaque) or isinstance(b, Opaque):
            if isinstance(a, Opaque) and isinstance(b, Opaque):
                return Opaque(t)
            raise NotCovered(t)
        if isinstance(e.op, ast.Pow):
            if isinstance(a, (int, float)) and a > 1:
                return exp_like(_as_v(b, t), t)
            if isinstance(b, (int, float)) and b == 2:
                va = _as_v(a, t)
                return V({{N: P, NI: PI}.get(x, x) for x in va.s}, why=va.why)
            raise NotCovered(t)
        a, b = _as_v(a, t), _as_v(b, t)
        if isinstance(e.op, ast.Add):
            return add(a, b, t)
        if isinstance(e.op, ast.Sub):
            return sub(a, b, t)
        if isinstance(e.op, ast.Mult):
            return mul(a, b, t)
        if isinstance(e.op, ast.Div):
            return div(a, b, t)
        raise NotCovered(t)
    if isinstance(e, ast.Compare) or isinstance(e, ast.BoolOp):
        return Opaque(t)
    if isinstance(e, ast.IfExp):
        r = eval3(e.test, c.assume)
        if r is True:
            return ev(e.body, c)
        if r is False:
            return ev(e.orelse, c)
        return join(_wrap(ev(e.body, c)), _wrap(ev(e.orelse, c)))
    if isinstance(e, (ast.Tuple, ast.List)):
        return Seq(ev(x, c) for x in e.elts)
    if isinstance(e, ast.GeneratorExp) or isinstance(e, ast.ListComp):
        g = e.generators[0]
        if len(e.generators) == 1 and not g.ifs and isinstance(g.target, ast.Name) and norm(g.iter) == "self.variables":
            old = c.env.get(g.target.id)
            c.env[g.target.id] = T(V(FIN))
            item = ev(e.elt, c)
            if old is None:
                c.env.pop(g.target.id, None)
            else:
                c.env[g.target.id] = old
            return Seq([item] * 8)
        raise NotCovered(t)
    if isinstance(e, ast.Dict):
        return Opaque(";".join(f"{norm(k)}={norm(v)}" for k, v in zip(e.keys, e.values) if k is not None and norm(k).strip("'\"") in _RED_KW).replace("'", "").replace('"', ""))
    if isinstance(e, ast.Call):
        return call(e, c)
    raise NotCovered(t)


def _wrap(x):
    if isinstance(x, (int, float)) and not isinstance(x, bool):
        return const(x)
    return x


def call(e: ast.Call, c: Ctx):
    t = norm(e)
    d = dotted(e.func) or ""
    leaf = d.split(".")[-1] if d else (e.func.attr if isinstance(e.func, ast.Attribute) else "")
    is_np = d.split(".")[0] in ("np", "numpy") if d else False
    # dict(axis=axis, keepdims=True)
    if d == "dict":
        return Opaque(";".join(sorted(f"{k.arg}={(c.env[k.value.id].text if isinstance(k.value, ast.Name) and isinstance(c.env.get(k.value.id), Opaque) else norm(k.value))}"
                                      for k in e.keywords if k.arg in _RED_KW)))
    if d in ("len", "range", "tuple", "list", "isinstance", "issubclass", "type", "int", "bool"):
        return Opaque(t)
    if d == "float" and e.args:
        return ev(e.args[0], c)
    # method calls on arrays
    if isinstance(e.func, ast.Attribute) and not is_np:
        recv = ev(e.func.value, c)
        if isinstance(recv, (V, T)):
            v = _as_v(recv, t)
            m = e.func.attr
            if m in ("astype", "copy", "reshape", "squeeze", "transpose", "ravel", "flatten", "view"):
                return V(v.s, v.tag, v.src if m in ("astype", "copy") else None, v.why) if m in ("astype", "copy") else V(v.s, None, None, v.why)
            if m in ("max",):
                return V(v.s, ("MAX", v.src, _key(e, c)), why=v.why)
            if m in ("min", "mean"):
                return V(v.s, why=v.why)
            if m == "sum":
                return reduce_sum(v, _key(e, c), t)
            raise NotCovered(t)
        if isinstance(recv, Opaque):
            return Opaque(t)
        raise NotCovered(t)
    out_kw = next((k.value for k in e.keywords if k.arg == "out"), None)

    def done(v):
        if out_kw is not None:
            if isinstance(out_kw, ast.Name):
                c.env[out_kw.id] = v
            elif isinstance(out_kw, ast.Attribute) and norm(out_kw.value) == "self":
                c.attrs[out_kw.attr] = v
            else:
                raise NotCovered(t)
        return v

    if is_np or (d and d in ("exp", "log", "where", "zeros", "ones_like", "zeros_like")):
        args = [ev(a, c) for a in e.args]
        if leaf in ("exp", "exp2"):
            return done(exp_like(_as_v(args[0], t), t))
        if leaf == "expm1":
            return done(exp_like(_as_v(args[0], t), t, minus_one=True))
        if leaf in ("log", "log2", "log10"):
            return done(log_like(_as_v(args[0], t), t))
        if leaf == "log1p":
            return done(log_like(add(const(1), _as_v(args[0], t), t), t))
        if leaf in _UNARY_SAME:
            v = _as_v(args[0], t)
            return V(v.s, v.tag, v.src, v.why) if leaf in ("asarray", "array", "copy", "ascontiguousarray", "asanyarray", "squeeze", "expand_dims") else V(v.s, None, None, v.why)
        if leaf in _REDUCE_MAX:
            v = _as_v(args[0], t)
            return V(v.s, ("MAX", v.src, _key(e, c, skip=1)), why=v.why)
        if leaf in _REDUCE_SAME:
            v = _as_v(args[0], t)
            return V(v.s, why=v.why)
        if leaf == "sum":
            return reduce_sum(_as_v(args[0], t), _key(e, c, skip=1), t)
        if leaf == "reciprocal":
            return done(div(const(1), _as_v(args[0], t), t))
        if leaf in ("negative",):
            v = _as_v(args[0], t)
            return done(V({_neg(x) for x in v.s}, why=v.why))
        if leaf in ("abs", "absolute", "fabs"):
            v = _as_v(args[0], t)
            return done(V({{N: P, NI: PI}.get(x, x) for x in v.s}, why=v.why))
        if leaf == "sign":
            v = _as_v(args[0], t)
            return done(V({{PI: P, NI: N}.get(x, x) for x in v.s}, why=v.why))
        if leaf in ("add", "subtract", "multiply", "divide", "true_divide") and len(args) >= 2:
            f = {"add": add, "subtract": sub, "multiply": mul, "divide": div, "true_divide": div}[leaf]
            return done(f(_as_v(args[0], t), _as_v(args[1], t), t))
        if leaf in ("maximum", "minimum") and len(args) >= 2:
            a, b = _as_v(args[0], t), _as_v(args[1], t)
            return done(V(a.s | b.s, why=a.why or b.why))
        if leaf == "where" and len(args) == 3:
            a, b = _as_v(args[1], t), _as_v(args[2], t)
            return V(a.s | b.s, why=a.why or b.why)
        if leaf in ("ones_like", "ones"):
            return V({P})
        if leaf in ("zeros_like", "zeros"):
            return V({Z})
        if leaf in ("isfinite", "isnan", "isinf", "issubdtype", "logical_not", "shape", "ndim"):
            return Opaque(t)
        raise NotCovered(t)
    # repo helper: inline
    r = c.fx.resolve_call(c.fi, e)
    if isinstance(r, FunctionInfo) and c.depth < 3:
        return inline(r, e, c)
    raise NotCovered(t)


def inline(h: FunctionInfo, e: ast.Call, c: Ctx):
    a = h.node.args
    if a.vararg or a.posonlyargs:
        raise NotCovered(f"helper {h.short}: signature")
    names = [x.arg for x in a.args]
    sub_c = Ctx(c.fx, h, {}, c.depth + 1)
    defaults = dict(zip(names[len(names) - len(a.defaults):], a.defaults))
    for n_, dv in defaults.items():
        sub_c.env[n_] = ev(dv, Ctx(c.fx, h, {}, c.depth + 1))
    for n_, av in zip(names, e.args):
        sub_c.env[n_] = _wrap(ev(av, c))
    for k in e.keywords:
        if k.arg is None:
            v = ev(k.value, c)
            if isinstance(v, Opaque):
                for part in v.text.split(";"):
                    if "=" in part:
                        kk, vv = part.split("=", 1)
                        if kk in names or a.kwarg:
                            sub_c.env[kk] = Opaque(vv)
                continue
            raise NotCovered(f"helper {h.short}: **{norm(k.value)}")
        sub_c.env[k.arg] = _wrap(ev(k.value, c))
    for n_ in names:
        sub_c.env.setdefault(n_, Opaque(n_))
    # axis-like parameters are described by the *caller's* text so that keys agree across the call boundary
    for n_ in names:
        v = sub_c.env[n_]
        if isinstance(v, (int, float)) and n_ in _RED_KW:
            sub_c.env[n_] = Opaque(repr(v))
    block(h.node.body, sub_c)
    if sub_c.ret is None:
        raise NotCovered(f"helper {h.short}: no return value")
    return sub_c.ret


def assign(target: ast.AST, val, c: Ctx):
    if isinstance(target, ast.Name):
        c.env[target.id] = _wrap(val)
    elif isinstance(target, ast.Attribute) and norm(target.value) == "self":
        c.attrs[target.attr] = _wrap(val)
    elif isinstance(target, (ast.Tuple, ast.List)):
        if isinstance(val, Seq):
            for t_, v in zip(target.elts, val.items):
                assign(t_, v, c)
        elif isinstance(val, Opaque) and val.text == "self.variables":
            for t_ in target.elts:
                assign(t_, T(V(FIN)), c)
        elif isinstance(val, Opaque):
            for t_ in target.elts:
                assign(t_, Opaque(val.text), c)
        else:
            raise NotCovered(norm(target))
    elif isinstance(target, ast.Subscript):
        base = ev(target.value, c)
        if isinstance(base, (V, T)) and not isinstance(val, (Opaque, Seq)):
            bv = _as_v(base, norm(target))
            nv = _as_v(_wrap(val), norm(target))
            merged = V(bv.s | nv.s, bv.tag if nv.s <= bv.s else None, bv.src, bv.why or nv.why)
            _rebind(target.value, merged, c)
        elif isinstance(base, Opaque):
            return
        else:
            raise NotCovered(norm(target))
    else:
        raise NotCovered(norm(target))


def _rebind(expr: ast.AST, v, c: Ctx):
    if isinstance(expr, ast.Name):
        c.env[expr.id] = v
    elif isinstance(expr, ast.Attribute) and norm(expr.value) == "self":
        c.attrs[expr.attr] = v
    else:
        raise NotCovered(norm(expr))


def cond(test: ast.AST, c: Ctx):
    """three-valued evaluation of a branch condition: the assumptions first, then what the domain knows (isfinite of a finite value)"""
    r = eval3(test, c.assume)
    if r is True or r is False:
        return r
    if isinstance(test, ast.UnaryOp) and isinstance(test.op, ast.Not):
        r = cond(test.operand, c)
        return (not r) if r in (True, False) else r
    if isinstance(test, ast.Call) and (dotted(test.func) or "").split(".")[-1] == "isfinite" and test.args:
        try:
            v = ev(test.args[0], c)
        except NotCovered:
            return U3
        if isinstance(v, (V, T)) and _as_v(v, "").s <= FIN:
            return True
    return U3


def _snapshot(c: Ctx):
    return dict(c.env), dict(c.attrs), c.ret


def block(body: List[ast.stmt], c: Ctx) -> bool:
    """returns True when every path through `body` returned/raised"""
    for st in body:
        if isinstance(st, ast.Expr):
            if isinstance(st.value, ast.Constant):
                continue
            try:
                ev(st.value, c)
            except NotCovered:
                # a call made for its checks only (validation helpers): its value is unused; purity of helpers is C12's business
                if not (isinstance(st.value, ast.Call) and isinstance(c.fx.resolve_call(c.fi, st.value), FunctionInfo)
                        and not any(k.arg == "out" for k in st.value.keywords)):
                    raise
        elif isinstance(st, ast.Assign):
            v = ev(st.value, c)
            for t_ in st.targets:
                assign(t_, v, c)
        elif isinstance(st, ast.AnnAssign):
            if st.value is not None:
                assign(st.target, ev(st.value, c), c)
        elif isinstance(st, ast.AugAssign):
            cur = ev(st.target if not isinstance(st.target, ast.Subscript) else st.target.value, c)
            rhs = _wrap(ev(st.value, c))
            txt = norm(st)
            cv, rv = _as_v(cur, txt), _as_v(rhs, txt)
            f = {ast.Add: add, ast.Sub: sub, ast.Mult: mul, ast.Div: div}.get(type(st.op))
            if f is None:
                raise NotCovered(txt)
            if isinstance(st.target, ast.Subscript):
                # only some entries updated: join old and new, no tags
                nv = f(V(cv.s, None, None, cv.why), rv, txt)
                _rebind(st.target.value, V(cv.s | nv.s, None, cv.src, nv.why or cv.why), c)
            else:
                _rebind(st.target, f(cv, rv, txt), c)
        elif isinstance(st, ast.Return):
            v = _wrap(ev(st.value, c)) if st.value is not None else None
            c.ret = v if c.ret is None else join(c.ret, v)
            return True
        elif isinstance(st, ast.Raise):
            return True
        elif isinstance(st, ast.If):
            r = cond(st.test, c)
            if r is True:
                if block(st.body, c):
                    return True
                continue
            if r is False:
                if block(st.orelse, c):
                    return True
                continue
            e0, a0, r0 = _snapshot(c)
            done1 = block(st.body, c)
            e1, a1, r1 = _snapshot(c)
            c.env, c.attrs, c.ret = dict(e0), dict(a0), r0
            done2 = block(st.orelse, c)
            e2, a2, r2 = _snapshot(c)
            c.ret = r1 if r2 is None else r2 if r1 is None else join(r1, r2)
            if done1 and done2:
                return True
            if done1:
                c.env, c.attrs = e2, a2
            elif done2:
                c.env, c.attrs = e1, a1
            else:
                c.env = {k: join(e1.get(k), e2.get(k)) for k in set(e1) | set(e2)}
                c.attrs = {k: join(a1.get(k), a2.get(k)) for k in set(a1) | set(a2)}
        elif isinstance(st, ast.With):
            if block(st.body, c):
                return True
        elif isinstance(st, (ast.Pass, ast.Assert, ast.Import, ast.ImportFrom)):
            continue
        else:
            raise NotCovered(type(st).__name__)
    return False


def analyse_op(fx, cls, arity_hint=None):
    """-> list of (function-info, label, V | NotCovered-text)"""
    out = []
    callf = cls.lookup_method("__call__")
    attrs: Dict[str, object] = {}
    own_call = callf is not None and callf.qualname.startswith(cls.qualname + ".")
    nvars = arity_hint or 1
    if own_call:
        c = Ctx(fx, callf, {"_tracking.TRACK_GRAPH": True, "_track.TRACK_GRAPH": True, "TRACK_GRAPH": True})
        a = callf.node.args
        params = [x.arg for x in a.args[1:]] + [x.arg for x in a.kwonlyargs]
        for p_ in params:
            c.env[p_] = Opaque(p_)
        try:
            # tensor parameters = those stored into self.variables
            tv = []
            for n_ in ast.walk(callf.node):
                if isinstance(n_, ast.Assign) and any(norm(t_) == "self.variables" for t_ in n_.targets) and isinstance(n_.value, ast.Tuple):
                    tv = [x.id for x in n_.value.elts if isinstance(x, ast.Name)]
            for p_ in tv:
                c.env[p_] = T(V(FIN))
            nvars = len(tv) or nvars
            block(callf.node.body, c)
            attrs = c.attrs
            out.append((callf, "forward value", c.ret if c.ret is not None else "no return value"))
        except NotCovered as ex:
            out.append((callf, "forward value", f"not covered: {ex}"))
            attrs = c.attrs
    bv = cls.lookup_method("backward_var")
    if bv is not None and bv.qualname.startswith(cls.qualname + "."):
        for k in range(nvars):
            c = Ctx(fx, bv, {"index": k})
            c.attrs = dict(attrs)
            a = bv.node.args
            c.env[a.args[1].arg] = V(FIN)
            c.env[a.args[2].arg] = Opaque(str(k))
            try:
                block(bv.node.body, c)
                out.append((bv, f"gradient for operand {k}", c.ret if c.ret is not None else "no return value"))
            except NotCovered as ex:
                out.append((bv, f"gradient for operand {k}", f"not covered: {ex}"))
    return out


def analyse_helper(fx, fi: FunctionInfo):
    c = Ctx(fx, fi, {})
    a = fi.node.args
    names = [x.arg for x in a.args]
    for i, n_ in enumerate(names):
        c.env[n_] = V(FIN) if i == 0 else Opaque(n_)
    defaults = dict(zip(names[len(names) - len(a.defaults):], a.defaults))
    try:
        block(fi.node.body, c)
        return c.ret if c.ret is not None else "no return value"
    except NotCovered as ex:
        return f"not covered: {ex}"
