"""C01 -- backward() yields the total derivative: structure of the graph walk and of the accumulation."""
from __future__ import annotations

import ast
from typing import List, Optional, Set

import networkx as nx

from ..cfg import ENTRY, EXIT, RAISE, reaching_defs
from ..common import calls_named, dotted, kw, loc, norm, stmt_of
from ..model import AnalysisError, ClassInfo, FunctionInfo, own_nodes
from .util import anchor_func, assigned_name, buffer_fill, build_cfg, facts, is_zero_expr, projection_aliases, sem, switch_assumptions, value_uses
from . import opcontract

COLLECT = "mygrad._utils.collect_all_tensors_and_clear_grads"
BACKWARD = "mygrad.tensor_base.Tensor.backward"
T_BACKWARD = "mygrad.tensor_base.Tensor._backward"
OP_BACKWARD = "mygrad.operation_base.Operation.backward"


def r01_1(run):
    fi = anchor_func(run, COLLECT)
    cfg = build_cfg(run, fi)
    params = [a.arg for a in fi.node.args.args]
    t = params[0]
    ins = [c for c in list(calls_named(fi.node, "appendleft")) + list(calls_named(fi.node, "append"))
           if isinstance(c.func, ast.Attribute) and isinstance(c.func.value, ast.Name) and c.func.value.id in params
           and c.args and isinstance(c.args[0], ast.Name) and c.args[0].id == t]
    if len(ins) != 1:
        raise AnalysisError(f"{fi.short}: expected one insertion of the tensor into the ordered container, found {len(ins)}")
    ins = ins[0]
    container = ins.func.value.id
    mode = ins.func.attr
    n_ins = cfg.stmt_node_containing(ins)
    rec = [c for c in calls_named(fi.node, fi.name)]
    if not rec:
        raise AnalysisError(f"{fi.short}: no recursive call")
    # (a) recursion iterates the creator's variables and passes the same seen/container
    for c in rec:
        par = stmt_of(c)
        loop = getattr(par, "_parent", None)
        while loop is not None and not isinstance(loop, ast.For):
            loop = getattr(loop, "_parent", None)
        ok = loop is not None and sem(loop.iter, projection_aliases(fi.node)) in (f"{t}.creator.variables", f"{t}._creator.variables") \
            and isinstance(loop.target, ast.Name) and c.args and isinstance(c.args[0], ast.Name) \
            and c.args[0].id == loop.target.id
        passed = {norm(a) for a in c.args[1:]} | {norm(k.value) for k in c.keywords}
        ok2 = container in passed and any(p in passed for p in params if p not in (t, container, "_marked"))
        run.ob("R01.1", loc(fi, c), fi.short, "recursion covers every element of t.creator.variables with shared seen/order", ok and ok2,
               f"for-loop over {norm(loop.iter) if loop else '?'}; call passes {sorted(passed)}" if (ok and ok2) else
               "the recursive descent does not visit every input of the creator with the shared bookkeeping")
    # (b) post-order: the insertion is never followed by the recursion, and follows it on every non-early path
    n_rec = [cfg.stmt_node_containing(c) for c in rec]
    after = cfg.reachable_from(n_ins)
    ok = not any(r in after for r in n_rec)
    run.ob("R01.1", loc(fi, ins), fi.short, f"{container}.{mode}({t}) happens after the descent into the inputs (post-order)", ok,
           "no recursive-call node is reachable from the insertion" if ok else
           "a tensor is ordered before its inputs were visited: it can back-propagate before all consumers contributed")
    heads = [n for n, s in cfg.stmt.items() if isinstance(s, ast.For) and n in cfg.g and any(r in cfg.reachable_from(n) for r in n_rec)]
    for h in heads:
        w = cfg.all_paths_hit(h, {n_ins}, exits=(EXIT,))
        run.ob("R01.1", loc(fi, cfg.stmt[h]), fi.short, "every normal path from the descent loop reaches the insertion", w is None,
               "graph-cut" if w is None else "a visited non-constant tensor may be left out of the ordering",
               path=cfg.path_text(w) if w else None)
    # (c) insertion only on the false edges of the `seen` and `constant` tests
    seen_tests = [n for n, s in cfg.stmt.items() if cfg.label[n] == "If" and isinstance(s, ast.Compare)
                  and isinstance(s.ops[0], ast.In) and isinstance(s.comparators[0], ast.Name)
                  and s.comparators[0].id in params and s.comparators[0].id not in ("_marked",)]
    const_tests = [n for n, s in cfg.stmt.items() if cfg.label[n] == "If" and norm(s) in (f"{t}.constant", f"{t}._constant")]
    ok = any(cfg.edge_dominates(n, "false", n_ins) for n in seen_tests)
    run.ob("R01.1", loc(fi, ins), fi.short, "insertion only if the tensor was not seen before", ok,
           "insertion is edge-dominated by the false edge of `id in seen`" if ok else
           "a tensor can be ordered (and hence back-propagated) twice")
    ok = any(cfg.edge_dominates(n, "false", n_ins) for n in const_tests)
    run.ob("R01.1", loc(fi, ins), fi.short, "insertion only for non-constant tensors", ok,
           "insertion is edge-dominated by the false edge of `t.constant`" if ok else
           "constant tensors can enter the back-propagation order")
    # (d) seen updated on every inserting path
    seen_names = {cfg.stmt[n].comparators[0].id for n in seen_tests}
    adds = {cfg.stmt_node_containing(c) for c in calls_named(fi.node, "add")
            if isinstance(c.func, ast.Attribute) and isinstance(c.func.value, ast.Name) and c.func.value.id in seen_names}
    adds.discard(None)
    ok = bool(adds) and (cfg.set_dominates(adds, n_ins) or cfg.all_paths_hit(n_ins, adds, exits=(EXIT,)) is None)
    run.ob("R01.1", loc(fi, ins), fi.short, "seen-set updated on every inserting path", ok,
           "a `seen.add(id)` node lies on every path through the insertion" if ok else "diamonds are visited repeatedly")
    # (e) producer/consumer pairing with Tensor.backward
    bw = anchor_func(run, BACKWARD)
    cc = [c for c in calls_named(bw.node, fi.name)]
    if not cc:
        raise AnalysisError(f"{bw.short}: call to {fi.name} not found")
    idx = params.index(container)
    c0 = cc[0]
    arg = c0.args[idx] if len(c0.args) > idx else kw(c0, container)
    dq = norm(arg)
    walks = [n for n in own_nodes(bw.node) if isinstance(n, ast.For) and dq in {x.id for x in ast.walk(n.iter) if isinstance(x, ast.Name)}]
    if not walks:
        raise AnalysisError(f"{bw.short}: the walk over {dq} not found")
    for w in walks:
        it = norm(w.iter)
        rev = it.startswith("reversed(")
        ok = (mode == "appendleft" and it == dq) or (mode == "append" and rev)
        calls_bw = [c for c in calls_named(w, "_backward") if isinstance(c.func, ast.Attribute)
                    and isinstance(c.func.value, ast.Name) and c.func.value.id in {x.id for x in ast.walk(w.target) if isinstance(x, ast.Name)}]
        run.ob("R01.1", loc(bw, w), bw.short, f"consumption order pairs with insertion ({mode} + {'reversed' if rev else 'forward'} iteration)",
               ok and bool(calls_bw),
               "post-order + appendleft + forward iteration = reverse topological order; body calls <t>._backward()"
               if ok and calls_bw else "tensors are not processed in reverse topological order")


def r01_2(run):
    bw = anchor_func(run, BACKWARD)
    cfg = build_cfg(run, bw, switch_assumptions(bw, track=True))
    stores = [n for n in own_nodes(bw.node) if isinstance(n, ast.Assign) and any(norm(t) == "self._grad" for t in n.targets)]
    stores = [s for s in stores if cfg.node_for(s) is not None and cfg.reachable(cfg.node_for(s))]
    coll = [c for c in calls_named(bw.node, COLLECT.split(".")[-1])]
    walks = [n for n in own_nodes(bw.node) if isinstance(n, ast.For) and calls_named(n, "_backward")]
    if not stores or not coll or not walks:
        raise AnalysisError(f"{bw.short}: seed store / collect call / walk not found")
    ns = {cfg.node_for(s) for s in stores}
    nc = cfg.stmt_node_containing(coll[0])
    for w in walks:
        nw = cfg.node_for(w)
        ok = cfg.set_dominates(ns, nw)
        run.ob("R01.2", loc(bw, w), bw.short, "seed stored into self._grad before the walk", ok,
               "seed-store nodes cut every path ENTRY->walk" if ok else "the walk can start without a seed gradient")
    for s in stores:
        ok = cfg.dominates(nc, cfg.node_for(s))
        run.ob("R01.2", loc(bw, s), bw.short, "seed stored after collect_all_tensors_and_clear_grads (which nulls grads)", ok,
               "collect call dominates the seed store" if ok else "the seed is wiped by the grad-clearing traversal")
    tb = anchor_func(run, T_BACKWARD)
    calls = [c for c in calls_named(tb.node, "backward") if isinstance(c.func, ast.Attribute)
             and norm(c.func.value) in ("self._creator", "self.creator")]
    ok = bool(calls) and all(c.args and norm(c.args[0]) in ("self._grad",) for c in calls)
    run.ob("R01.2", loc(tb, calls[0] if calls else tb.node), tb.short, "_backward hands the tensor's own accumulated _grad to its creator",
           ok, "self._creator.backward(self._grad)" if ok else "the creator receives something other than the accumulated gradient")
    if calls:
        cfg2 = build_cfg(run, tb, {"self._creator is not None": True, "self.creator is not None": True})
        n = cfg2.stmt_node_containing(calls[0])
        w = cfg2.all_paths_hit(ENTRY, {n}, exits=(EXIT,))
        run.ob("R01.2", loc(tb, calls[0]), tb.short, "creator.backward reached whenever a creator exists", w is None,
               "graph-cut under `self._creator is not None`" if w is None else "a tensor with a creator may not propagate",
               path=cfg2.path_text(w) if w else None)


def _loop_var_stores(fi: FunctionInfo):
    loops = [n for n in own_nodes(fi.node) if isinstance(n, ast.For) and "self.variables" in norm(n.iter)]
    if not loops:
        raise AnalysisError(f"{fi.short}: loop over self.variables not found")
    loop = loops[0]
    names = [x.id for x in ast.walk(loop.target) if isinstance(x, ast.Name)]
    var = names[-1]
    stores = []
    for n in own_nodes(fi.node):
        if isinstance(n, ast.Assign):
            for t in n.targets:
                if norm(t) == f"{var}._grad":
                    stores.append(n)
        elif isinstance(n, ast.AugAssign) and norm(n.target) == f"{var}._grad":
            stores.append(n)
    return loop, var, stores


def r01_3_4(run):
    fi = anchor_func(run, OP_BACKWARD)
    cfg = build_cfg(run, fi, extra_raise=lambda c: isinstance(c.func, ast.Attribute) and c.func.attr == "backward_var")
    loop, var, stores = _loop_var_stores(fi)
    if len(stores) < 2:
        raise AnalysisError(f"{fi.short}: expected a first-contribution store and an accumulating store to {var}._grad")
    none_tests = [n for n, s in cfg.stmt.items() if cfg.label[n] == "If" and norm(s) == f"{var}._grad is None"]
    for s in stores:
        ns = cfg.node_for(s)
        if isinstance(s, ast.AugAssign):
            ok = isinstance(s.op, ast.Add)
            run.ob("R01.3", loc(fi, s), fi.short, f"accumulating store {norm(s)[:50]}", ok,
                   "augmented += reads the previous value" if ok else "gradient contributions are not summed")
        else:
            reads_self = f"{var}._grad" in {norm(x) for x in ast.walk(s.value)}
            if reads_self:
                core = s.value
                while True:
                    if isinstance(core, ast.Call) and isinstance(core.func, ast.Attribute) and core.func.attr in ("astype", "copy") \
                            and not (dotted(core.func) or "").startswith(("np.", "numpy.")):
                        core = core.func.value
                    elif isinstance(core, ast.Call) and (dotted(core.func) or "") in ("np.asarray", "numpy.asarray", "np.array") and core.args:
                        core = core.args[0]
                    else:
                        break
                ok = isinstance(core, ast.BinOp) and isinstance(core.op, ast.Add)
                run.ob("R01.3", loc(fi, s), fi.short, f"accumulating store {norm(s)[:50]}", ok,
                       "X = X + ... form" if ok else "gradient contributions are not summed")
            else:
                ok = any(cfg.edge_dominates(t, "true", ns) for t in none_tests)
                if not ok:
                    # semantic form: with a gradient already present the plain store is unreachable (early `+= ; continue`, inverted test, ...)
                    cfgp = build_cfg(run, fi, {f"{var}._grad is None": False, f"{var}._grad is not None": True})
                    npl = cfgp.node_for(s)
                    ok = (npl is None or not cfgp.reachable(npl)) and any(
                        cfg.label.get(n_) == "If" and norm(st_) in (f"{var}._grad is None", f"{var}._grad is not None") for n_, st_ in cfg.stmt.items())
                run.ob("R01.3", loc(fi, s), fi.short, f"plain store {norm(s)[:50]} only when no gradient is present", ok,
                       f"edge-dominated by the true edge of `{var}._grad is None`" if ok else
                       "a plain store overwrites contributions from other consumers (fan-out loses gradient)")
    # every iteration that computed a contribution stores it
    bv = [c for c in calls_named(fi.node, "backward_var")]
    if not bv:
        raise AnalysisError(f"{fi.short}: call to self.backward_var not found")
    nb = cfg.stmt_node_containing(bv[0])
    head = cfg.node_for(loop)
    store_nodes = {cfg.node_for(s) for s in stores}
    for succ in cfg.g.successors(nb):
        if "exc" in cfg.g[nb][succ]["kinds"] and not (cfg.g[nb][succ]["kinds"] - {"exc"}):
            continue
        w = cfg.all_paths_hit(succ, store_nodes, exits=(head, EXIT))
        run.ob("R01.3", loc(fi, bv[0]), fi.short, "a computed contribution is stored on every normal path of the iteration", w is None,
               "graph-cut between the backward_var call and the loop head / exit" if w is None else
               "a computed contribution can be dropped", path=cfg.path_text(w) if w else None)
    # the call passes the op's incoming grad and the loop index
    c = bv[0]
    gparam = [a.arg for a in fi.node.args.args][1]
    idx = [x.id for x in ast.walk(loop.target) if isinstance(x, ast.Name)][0]
    ok = len(c.args) >= 2 and norm(c.args[0]) == gparam and norm(c.args[1]) == idx and "enumerate(self.variables)" in norm(loop.iter)
    run.ob("R01.3", loc(fi, c), fi.short, "backward_var(grad, index) is called with the incoming gradient and the variable's own index", ok,
           "enumerate(self.variables) index is forwarded" if ok else "a variable receives the VJP of a different operand")
    # R01.4 shared post-processing
    stored_names = set()
    for s in stores:
        v = s.value
        while isinstance(v, ast.Call) and isinstance(v.func, ast.Attribute) and v.func.attr in ("astype", "copy"):
            v = v.func.value
        if isinstance(v, ast.Name):
            stored_names.add(v.id)
        elif isinstance(v, ast.BinOp):
            for x in (v.left, v.right):
                if isinstance(x, ast.Name):
                    stored_names.add(x.id)
    if len(stored_names) != 1:
        raise AnalysisError(f"{fi.short}: cannot identify the single local that carries the contribution ({stored_names})")
    g = stored_names.pop()
    pp = [n for n in own_nodes(fi.node) if isinstance(n, ast.Assign) and assigned_name(n) == g
          and isinstance(n.value, ast.Call) and (dotted(n.value.func) or "").endswith("grad_post_process_fn")]
    okp = False
    if pp:
        c = pp[0].value
        okp = len(c.args) == 2 and norm(c.args[0]) == g and sem(c.args[1], projection_aliases(fi.node)) == f"{var}.shape"
    npp = cfg.node_for(pp[0]) if pp else None
    for s in stores:
        ns = cfg.node_for(s)
        ok = okp and cfg.dominates(npp, ns) and _derives_from(cfg, g, ns, npp, set())
        run.ob("R01.4", loc(fi, s), fi.short, f"stored value passed grad_post_process_fn({g}, {var}.shape)", ok,
               "post-processing node dominates the store; every redefinition in between is a function of the value"
               if ok else "broadcast operands would receive un-reduced gradients")
    cfgw = build_cfg(run, fi, {"self.where is not True": True})
    def _peel(e):
        # array-preserving wrappers around the masked product: np.asarray(<e>), <e>.astype(...)
        while True:
            if isinstance(e, ast.Call) and (dotted(e.func) or "") in ("np.asarray", "numpy.asarray", "np.array", "np.ascontiguousarray") and e.args:
                e = e.args[0]
            elif isinstance(e, ast.Call) and isinstance(e.func, ast.Attribute) and e.func.attr == "astype":
                e = e.func.value
            else:
                return e

    def _is_masking(m):
        if isinstance(m, ast.AugAssign):
            return isinstance(m.op, ast.Mult) and "self.where" in norm(m.value)
        e = _peel(m.value)
        names = {x.id for x in ast.walk(e) if isinstance(x, ast.Name)}
        if isinstance(e, ast.BinOp) and isinstance(e.op, ast.Mult):
            return g in names and "self.where" in {norm(e.left), norm(e.right)}
        if isinstance(e, ast.Call) and (dotted(e.func) or "") in ("np.multiply", "numpy.multiply") and len(e.args) >= 2:
            return {norm(a) for a in e.args[:2]} == {g, "self.where"}
        if isinstance(e, ast.Call) and (dotted(e.func) or "") in ("np.where", "numpy.where") and len(e.args) == 3:
            return norm(e.args[0]) == "self.where" and norm(e.args[1]) == g and is_zero_expr(e.args[2])
        return False

    masks = [n for n in own_nodes(fi.node) if isinstance(n, (ast.Assign, ast.AugAssign)) and "self.where" in norm(n)
             and (assigned_name(n) == g or (isinstance(n, ast.AugAssign) and norm(n.target) == g))]
    mask_ok = [m for m in masks if _is_masking(m)]
    nm = {cfgw.node_for(m) for m in mask_ok}
    nm.discard(None)
    for s in stores:
        ns = cfgw.node_for(s)
        ok = bool(nm) and cfgw.set_dominates(nm, ns)
        run.ob("R01.4", loc(fi, s), fi.short, f"where-mask multiplied into the contribution when self.where is not True", ok,
               "under `self.where is not True` the masking node cuts every path to the store" if ok else
               "masked-out elements of a ufunc leak gradient to its operands")
    cfgn = build_cfg(run, fi, {"self.where is not True": False})
    for m in mask_ok:
        n = cfgn.node_for(m)
        ok = n is None or not cfgn.reachable(n)
        run.ob("R01.4", loc(fi, m), fi.short, "mask applied only when a where-mask was recorded", ok,
               "masking node is dead when `self.where is True`" if ok else "contribution multiplied by `True` (dtype promotion)")


def r01_3b(run):
    """every other function that stores a gradient on a tensor it was *handed* (a parameter) follows the same discipline:
    plain store only when no gradient is present, otherwise accumulate"""
    from .c14 import is_none_value, tensor_grad_stores
    by = {}
    for fi, mod, st, t, val, kind in tensor_grad_stores(run):
        if fi is None or is_none_value(val) or fi.qualname == OP_BACKWARD:
            continue
        recv = t.value
        params = [a.arg for a in fi.node.args.args + fi.node.args.kwonlyargs]
        if not (isinstance(recv, ast.Name) and recv.id in params and recv.id != "self"):
            continue
        by.setdefault(fi.qualname, (fi, []))[1].append((st, recv.id, kind))
    for q, (fi, lst) in sorted(by.items()):
        cfg = build_cfg(run, fi)
        has_acc = False
        for st, recv, kind in lst:
            ns = cfg.node_for(st)
            if kind == "aug":
                ok = isinstance(st.op, ast.Add)
                has_acc = has_acc or ok
                run.ob("R01.3", loc(fi, st), fi.short, f"accumulating store {norm(st)[:50]}", ok, "+= reads the previous value" if ok else "not a sum")
                continue
            if f"{recv}._grad" in {norm(x) for x in ast.walk(st.value)}:
                has_acc = True
                run.ob("R01.3", loc(fi, st), fi.short, f"accumulating store {norm(st)[:50]}", True, "X = X + ... form")
                continue
            tests = [n for n, s in cfg.stmt.items() if cfg.label[n] == "If" and norm(s) == f"{recv}._grad is None"]
            ok = any(cfg.edge_dominates(t_, "true", ns) for t_ in tests)
            run.ob("R01.3", loc(fi, st), fi.short, f"plain store {norm(st)[:50]} only when no gradient is present", ok,
                   f"edge-dominated by the true edge of `{recv}._grad is None`" if ok else
                   f"{fi.short} overwrites the gradient already accumulated on the tensor it is handed: a parameter used more than once (or shared between "
                   f"layers) keeps only the last contribution")
        run.ob("R01.3", loc(fi, fi.node), fi.short, "helper accumulates when a gradient is already present", has_acc,
               "a `+=` / `X = X + g` store exists" if has_acc else "no accumulating store at all")


def _derives_from(cfg, name, at, origin, seen) -> bool:
    """Every definition of `name` reaching node `at` is `origin` or a function of a value that derives from it."""
    for d in reaching_defs(cfg, name, at):
        if d == origin or d in seen:
            continue
        if d == ENTRY:
            return False
        seen.add(d)
        st = cfg.stmt[d]
        rhs = getattr(st, "value", None)
        if isinstance(rhs, ast.Name) and rhs.id != name:
            # name = buf, where buf was allocated and then filled from `name` (np.copyto(buf, name) / buf[...] = name): a re-laid-out copy
            bf = buffer_fill(cfg, rhs.id, d)
            if bf is not None and isinstance(bf[3], ast.Name) and bf[3].id == name:
                if not _derives_from(cfg, name, bf[2], origin, seen):
                    return False
                continue
        if rhs is None or not value_uses(rhs, name):
            return False  # e.g. `g = np.empty_like(var.data, dtype=g.dtype)`: reads metadata only -- the contribution itself is lost
        if not _derives_from(cfg, name, d, origin, seen):
            return False
    return True


def _defs_between(cfg, name, a, b) -> List[int]:
    from ..cfg import stmt_defines
    out = []
    fw = cfg.reachable_from(a)
    for n, s in cfg.stmt.items():
        if n in (a,) or n not in fw:
            continue
        if stmt_defines(s, name) and (b in cfg.reachable_from(n) or n == b):
            if n != b:
                out.append(n)
    return out


def r01_6(run):
    """custom backward overrides propagate to every variable"""
    opb = run.project.cls("mygrad.operation_base.Operation")
    n = 0
    for c in run.project.operation_classes():
        m = c.methods.get("backward")
        if m is None:
            continue
        n += 1
        sup = [k for k in calls_named(m.node, "backward") if isinstance(k.func, ast.Attribute)
               and isinstance(k.func.value, ast.Call) and dotted(k.func.value.func) == "super"]
        cfg = build_cfg(run, m)
        bvm = c.lookup_method("backward_var")
        bv_returns = bvm is not None and any(isinstance(x, ast.Return) and x.value is not None for x in own_nodes(bvm.node))
        if sup:
            ns = {cfg.stmt_node_containing(k) for k in sup}
            w = cfg.all_paths_hit(ENTRY, ns, exits=(EXIT,))
            gparam = [a.arg for a in m.node.args.args][1]
            okargs = all(k.args and norm(k.args[0]) == gparam for k in sup)
            run.ob("R01.6", loc(m, sup[0]), m.short, "override reaches super().backward(grad) on every normal path", w is None and okargs,
                   "graph-cut; the incoming gradient is forwarded unchanged" if (w is None and okargs) else
                   "the generic accumulate/post-process loop can be skipped or is fed a different gradient",
                   path=cfg.path_text(w) if w else None)
            if bv_returns:
                continue
            # backward_var never yields a gradient (it raises SkipGradient): the override itself must serve every variable
        # hand-written propagation: every element of self.variables must be served
        call = c.lookup_method("__call__")
        vars_ = opcontract.variables_of(run, c)
        if vars_ is None or vars_.star:
            run.ob("R01.6", loc(m, m.node), m.short, "hand-written backward serves every variable", False,
                   "cannot enumerate self.variables of an op that bypasses Operation.backward")
            continue
        for v in vars_.exprs:
            # attribute alias: self.X = X ; variables = (self.X, ...)
            attr = v
            bp = [k for k in own_nodes(m.node) if isinstance(k, ast.Call) and k.args and norm(k.args[0]) == attr]
            assume = {f"{attr}.constant": False}
            cf = build_cfg(run, m, assume)
            ns = {cf.stmt_node_containing(k) for k in bp}
            ns.discard(None)
            w = cf.all_paths_hit(ENTRY, ns, exits=(EXIT,)) if ns else [ENTRY, EXIT]
            run.ob("R01.6", loc(m, bp[0] if bp else m.node), m.short, f"gradient sent to variable {attr} whenever it is non-constant",
                   w is None, f"under `{attr}.constant == False` a propagation call on {attr} cuts every normal path" if w is None else
                   f"variable {attr} can be skipped by the hand-written backward", path=cf.path_text(w) if w else None)
    run.count("backward_overrides", n)


def r01_7(run):
    from . import linearity as ln
    for q in ("mygrad._utils.reduce_broadcast", "mygrad.operation_base.Operation.grad_post_process_fn"):
        fi = anchor_func(run, q)
        v = ln.cont_flat(ln.analyse_function(run, fi, [ln.L, ln.C], {}, 0))
        ok = v in (ln.L, ln.Z)
        run.ob("R01.7", loc(fi, fi.node), fi.short, "shared post-processing is linear in the gradient it receives", ok,
               "abstract value L: sums over broadcast axes / asarray / identity" if ok else f"abstract value {v}: the broadcast reduction is not a linear map of the gradient")
    rb = anchor_func(run, "mygrad._utils.reduce_broadcast")
    sums = [c for c in own_nodes(rb.node) if isinstance(c, ast.Call) and isinstance(c.func, ast.Attribute) and c.func.attr == "sum"]
    ok = len(sums) >= 2 and any(kw(c, "keepdims") is not None and norm(kw(c, "keepdims")) == "True" for c in sums)
    run.ob("R01.7", loc(rb, rb.node), rb.short, "broadcast reduction sums (never averages / takes max) over leading and stretched axes", ok,
           f"{len(sums)} `.sum(axis=...)` reductions, the stretched-axes one with keepdims=True" if ok else "reduction is not a pair of sums")


def check(run):
    run.rule("R01.1", "collect_all_tensors_and_clear_grads builds a reverse topological order: post-order insertion, guarded by the "
             "seen/constant tests, descent over creator.variables, paired with the iteration direction in Tensor.backward", floor=7)
    run.rule("R01.2", "Tensor.backward: collect -> seed store -> walk; _backward hands self._grad to the creator", floor=4)
    run.rule("R01.3", "Operation.backward accumulates (plain store only under `_grad is None`, otherwise +=), stores every computed "
             "contribution, forwards (grad, index)", floor=4)
    run.rule("R01.4", "every stored contribution passed grad_post_process_fn(., var.shape) and, if a where-mask was recorded, the mask", floor=4)
    run.rule("R01.5", "operation contract: __call__ definitely assigns self.variables = its leading tensor parameters; every "
             "_op/_in_place_op call site binds against that signature", floor=150)
    run.rule("R01.7", "reduce_broadcast / grad_post_process_fn are linear (sum) maps of the gradient", floor=3)
    run.rule("R01.6", "ops overriding backward() either reach super().backward(grad) on all paths or serve every variable", floor=2)
    run.do(r01_1)
    run.do(r01_2)
    run.do(r01_3_4)
    run.do(r01_3b)
    run.do(opcontract.r01_5)
    run.do(r01_6)
    run.do(r01_7)
