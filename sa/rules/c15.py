"""C15 -- no_autodiff / mem-guard switches: bracket structure, who-may-write, untracked paths record nothing."""
from __future__ import annotations

import ast
from typing import Dict, List, Optional

from ..cfg import ENTRY, EXIT, RAISE, reaching_defs
from ..common import calls_named, dotted, kw, loc, norm, stmt_of
from ..model import AnalysisError, ClassInfo, own_nodes
from .util import anchor_func, assigned_name, build_cfg, facts, switch_assumptions
from .c13 import effect_nodes, input_derived_names

CT = "mygrad._utils.ContextTracker"
TENSOR = "mygrad.tensor_base.Tensor"
SWITCHES = {"TRACK_GRAPH": "mygrad._utils.graph_tracking", "MEM_GUARD": "mygrad._utils.lock_management"}


def _depth_walk(fn: ast.FunctionDef, start: int):
    """Linear symbolic walk of a straight-line method body over the term `_depth = D0 + k`.
    Returns dict(final=k, save_key=k|None, pop_key=k|None, order=[...]) or None if not straight-line."""
    k = start
    out = {"save_key": None, "pop_key": None, "order": [], "saved_value": None}
    temps = {}
    for st in fn.body:
        if isinstance(st, ast.Expr) and isinstance(st.value, ast.Constant):
            continue  # docstring
        if isinstance(st, ast.AugAssign) and norm(st.target) == "self._depth" and isinstance(st.value, ast.Constant) \
                and isinstance(st.value.value, int):
            if isinstance(st.op, ast.Add):
                k += st.value.value
            elif isinstance(st.op, ast.Sub):
                k -= st.value.value
            else:
                return None
            out["order"].append("depth")
        elif isinstance(st, ast.Assign) and len(st.targets) == 1 and norm(st.targets[0]) == "self._depth" \
                and isinstance(st.value, ast.BinOp) and norm(st.value.left) == "self._depth" and isinstance(st.value.right, ast.Constant):
            k += st.value.right.value if isinstance(st.value.op, ast.Add) else -st.value.right.value
            out["order"].append("depth")
        elif isinstance(st, ast.Assign) and len(st.targets) == 1 and isinstance(st.targets[0], ast.Subscript) \
                and norm(st.targets[0].value) == "self._depth_tracker":
            off = _key_offset(st.targets[0].slice)
            if off is None:
                return None
            out["save_key"] = k + off
            out["saved_value"] = temps.get(norm(st.value), norm(st.value))
            out["order"].append("save")
        elif isinstance(st, ast.Assign) and len(st.targets) == 1 and norm(st.targets[0]) == "self.state":
            v = st.value
            if isinstance(v, ast.Call) and isinstance(v.func, ast.Attribute) and v.func.attr == "pop" \
                    and norm(v.func.value) == "self._depth_tracker" and v.args:
                off = _key_offset(v.args[0])
                if off is None:
                    return None
                out["pop_key"] = k + off
                out["order"].append("restore")
            elif isinstance(v, ast.Subscript) and norm(v.value) == "self._depth_tracker":
                off = _key_offset(v.slice)
                if off is None:
                    return None
                out["pop_key"] = k + off
                out["order"].append("restore-nopop")
            else:
                out["set_value"] = temps.get(norm(v), norm(v))
                out["order"].append("set")
        elif isinstance(st, ast.Assign) and len(st.targets) == 1 and isinstance(st.targets[0], ast.Name) \
                and isinstance(st.value, (ast.Attribute, ast.Name)):
            # a temporary holding a plain read (current = self.state): remember what it denotes *at this point*
            temps[st.targets[0].id] = temps.get(norm(st.value), norm(st.value))
            if norm(st.value) == "self.state":
                out["order"].append("read-state")
        elif isinstance(st, ast.Return):
            out["returns"] = st.value
            out["order"].append("return")
        elif isinstance(st, ast.Pass):
            continue
        else:
            return None
    out["final"] = k
    return out


def _key_offset(e: ast.AST) -> Optional[int]:
    if norm(e) == "self._depth":
        return 0
    if isinstance(e, ast.BinOp) and norm(e.left) == "self._depth" and isinstance(e.right, ast.Constant) and isinstance(e.right.value, int):
        return e.right.value if isinstance(e.op, ast.Add) else (-e.right.value if isinstance(e.op, ast.Sub) else None)
    return None


def r15_1(run):
    ct = run.project.cls(CT)
    classes = [ct] + run.project.subclasses(ct)
    run.count("context-manager classes", len(classes))
    for c in classes:
        en, ex = c.methods.get("__enter__"), c.methods.get("__exit__")
        if c is not ct and en is None and ex is None:
            run.ob("R15.1", loc(c.module, c.node), c.qualname[7:], "inherits the bracket of ContextTracker", True,
                   "no __enter__/__exit__ override", nontrivial=False)
            continue
        en = en or c.lookup_method("__enter__")
        ex = ex or c.lookup_method("__exit__")
        if en is None or ex is None:
            raise AnalysisError(f"{c.qualname}: __enter__/__exit__ not found")
        we = _depth_walk(en.node, 0)
        ok = we is not None and we["save_key"] is not None and "set" in we["order"]
        if not ok:
            run.ob("R15.1", loc(en, en.node), en.short, "__enter__ is a straight-line save / depth+1 / set sequence", False,
                   "cannot interpret __enter__ as `tracker[depth] = state; depth += 1; state = enter_value`")
            continue
        run.ob("R15.1", loc(en, en.node), en.short, "save of the current setting precedes the set", we["order"].index("save") < we["order"].index("set"),
               f"order {we['order']}" if we["order"].index("save") < we["order"].index("set") else
               "the setting is overwritten before it is saved: exit restores the scope's own value, not the outer one")
        if "read-state" in we["order"] and "set" in we["order"] and we["order"].index("read-state") > we["order"].index("set"):
            we["saved_value"] = "self.state read after the set"
        run.ob("R15.1", loc(en, en.node), en.short, "the saved value is the live setting (self.state)", we["saved_value"] == "self.state",
               "tracker[...] = self.state" if we["saved_value"] == "self.state" else f"saves {we['saved_value']}")
        run.ob("R15.1", loc(en, en.node), en.short, "the value set on entry is the class's _enter_set_value", we.get("set_value") == "self._enter_set_value",
               "self.state = self._enter_set_value" if we.get("set_value") == "self._enter_set_value" else f"sets {we.get('set_value')}")
        wx = _depth_walk(ex.node, we["final"])
        ok = wx is not None and wx["pop_key"] is not None
        if not ok:
            run.ob("R15.1", loc(ex, ex.node), ex.short, "__exit__ is a straight-line depth-1 / restore sequence", False,
                   "cannot interpret __exit__ as `depth -= 1; state = tracker.pop(depth)`")
            continue
        run.ob("R15.1", loc(ex, ex.node), ex.short, "key restored by __exit__ equals the key saved by __enter__ (term over _depth)",
               wx["pop_key"] == we["save_key"], f"save key D0{we['save_key']:+d}, restore key D0{wx['pop_key']:+d}" if wx["pop_key"] == we["save_key"] else
               f"__enter__ saves under D0{we['save_key']:+d} but __exit__ restores from D0{wx['pop_key']:+d}: nested scopes restore the wrong setting")
        run.ob("R15.1", loc(ex, ex.node), ex.short, "depth returns to its entry value", wx["final"] == 0,
               f"net depth change {wx['final']:+d}" if wx["final"] == 0 else f"depth drifts by {wx['final']:+d} per scope")
        run.ob("R15.1", loc(ex, ex.node), ex.short, "saved entry is removed when restored (pop)", "restore" in wx["order"],
               "tracker.pop(depth)" if "restore" in wx["order"] else "entries accumulate in the tracker")
        rets = [n for n in own_nodes(ex.node) if isinstance(n, ast.Return) and n.value is not None
                and not (isinstance(n.value, ast.Constant) and not n.value.value)]
        run.ob("R15.1", loc(ex, ex.node), ex.short, "__exit__ never returns a truthy value", not rets,
               "no `return <truthy>`: exceptions raised in the body propagate" if not rets else
               "__exit__ can swallow the exception raised inside the scope")
        # __exit__ takes the three exception args and does not branch on them before restoring
        cfg = build_cfg(run, ex)
        restores = {n for n, s in cfg.stmt.items() if isinstance(s, ast.Assign) and any(norm(t) == "self.state" for t in s.targets)}
        w = cfg.all_paths_hit(ENTRY, restores, exits=(EXIT,)) if restores else [ENTRY, EXIT]
        run.ob("R15.1", loc(ex, ex.node), ex.short, "the restore is executed on every path of __exit__ (also when the body raised)", w is None,
               "graph-cut ENTRY->EXIT" if w is None else "some exit path skips the restore")
    # state setters write the module switch
    for cname, sw in (("mygrad._utils.graph_tracking._NoAutoDiff", "TRACK_GRAPH"), ("mygrad._utils.lock_management.MemStateContext", "MEM_GUARD")):
        c = run.project.cls(cname)
        getter, setter = c.methods.get("state"), c.methods.get("state.setter")
        if getter is None or setter is None:
            raise AnalysisError(f"{cname}: state property/setter not found")
        rets = [n for n in own_nodes(getter.node) if isinstance(n, ast.Return)]
        ok = bool(rets) and all(norm(r.value) == sw for r in rets)
        run.ob("R15.1", loc(getter, getter.node), getter.short, f"state getter reads the live module switch {sw}", ok,
               f"return {sw}" if ok else "getter does not return the module switch")
        glob = any(isinstance(n, ast.Global) and sw in n.names for n in own_nodes(setter.node))
        vparam = setter.node.args.args[1].arg
        st = [n for n in own_nodes(setter.node) if isinstance(n, ast.Assign) and assigned_name(n) == sw]
        cfg = build_cfg(run, setter)
        ns = {cfg.node_for(s) for s in st}
        w = cfg.all_paths_hit(ENTRY, ns, exits=(EXIT,)) if ns else [ENTRY, EXIT]
        ok = glob and bool(st) and all(norm(s.value) == vparam for s in st) and w is None
        run.ob("R15.1", loc(setter, setter.node), setter.short, f"state setter assigns the module switch {sw} (global) on every normal path", ok,
               f"global {sw}; {sw} = {vparam}" if ok else "setter does not (always) write the module-level switch: scopes have no effect / do not restore")


def r15_2(run):
    fx = facts(run)
    n_with = 0
    for fi in run.project.all_functions():
        for n in own_nodes(fi.node):
            if isinstance(n, ast.Call) and isinstance(n.func, ast.Attribute) and n.func.attr in ("__enter__", "__exit__"):
                run.ob("R15.2", loc(fi, n), fi.short, f"manual call {norm(n.func)}(...)", False,
                       "a scope entered/left by hand is not exception safe: a raising body skips the restore")
            if isinstance(n, ast.With):
                for it in n.items:
                    t = norm(it.context_expr)
                    if t.split(".")[-1] in ("no_autodiff", "mem_guard_off", "mem_guard_on") or (t == "self" and fi.parent is not None):
                        n_with += 1
                        run.ob("R15.2", loc(fi, n), fi.short, f"with {t}:", True, "scope managed by a with-statement", nontrivial=False)
    # the decorator wrappers use `with self:` around the call
    for q in (f"{CT}.__call__", "mygrad._utils.graph_tracking._NoAutoDiff.__call__"):
        m = run.project.func(q)
        wr = [f for f in run.project.functions.values() if f.parent is m]
        ok = False
        for w in wr:
            for n in own_nodes(w.node):
                if isinstance(n, ast.With) and any(norm(i.context_expr) == "self" for i in n.items):
                    inner = [c for c in ast.walk(n) if isinstance(c, ast.Call) and isinstance(c.func, ast.Name) and c.func.id == m.node.args.args[1].arg]
                    if inner:
                        ok = True
        run.ob("R15.2", loc(m, m.node), m.short, "decorator form runs the wrapped function inside `with self:`", ok,
               "wrapper body: with self: func(*args, **kwargs)" if ok else "decorated functions are not bracketed by a with-statement")
        fname = m.node.args.args[1].arg
        for w in wr:
            outside = []
            for c in ast.walk(w.node):
                if isinstance(c, ast.Call) and isinstance(c.func, ast.Name) and c.func.id == fname:
                    p = getattr(c, "_parent", None)
                    inside = False
                    while p is not None and p is not w.node:
                        if isinstance(p, ast.With) and any(norm(i.context_expr) == "self" for i in p.items):
                            inside = True
                        p = getattr(p, "_parent", None)
                    if not inside:
                        outside.append(c)
            run.ob("R15.2", loc(w, outside[0] if outside else w.node), m.short, "every call of the wrapped function lies inside the `with self:` block", not outside,
                   "no un-bracketed call path" if not outside else
                   "the decorator can call the function without entering the scope (e.g. a re-entrancy shortcut): the setting in force is the caller's, not the decorator's")
    run.count("with-sites of the three scopes", n_with)
    if n_with < 4:
        raise AnalysisError(f"expected >= 4 `with <scope>` sites, found {n_with}")


def r15_3(run):
    fx = facts(run)
    n = 0
    for sw, modname in SWITCHES.items():
        mod = run.project.module(modname)
        allowed = {
            "TRACK_GRAPH": {"_utils.graph_tracking._NoAutoDiff.state.setter"},
            "MEM_GUARD": {"_utils.lock_management.MemStateContext.state.setter", "_utils.lock_management.turn_memory_guarding_off",
                          "_utils.lock_management.turn_memory_guarding_on"},
        }[sw]
        for node in ast.walk(mod.tree):
            if isinstance(node, (ast.Assign, ast.AugAssign, ast.AnnAssign)):
                tg = node.targets if isinstance(node, ast.Assign) else [node.target]
                if any(isinstance(t, ast.Name) and t.id == sw for t in tg):
                    fi = fx.owner_function(mod, node)
                    n += 1
                    if fi is None:
                        run.ob("R15.3", loc(mod, node), mod.name, f"module initialisation of {sw}", True, "import-time default", nontrivial=False)
                        continue
                    is_global = any(isinstance(g, ast.Global) and sw in g.names for g in own_nodes(fi.node))
                    if not is_global:
                        continue  # a local of the same name
                    ok = fi.short in allowed
                    if not ok:
                        from .util import owner_closure
                        ok = fi.qualname in owner_closure(run, {"mygrad." + k for k in allowed})
                    run.ob("R15.3", loc(mod, node), fi.short, f"write of switch {sw}", ok,
                           "state setter / turn_memory_guarding_*" if ok else f"{sw} written outside its setters: scopes cannot restore it")
    # writes through a module attribute from anywhere
    for (fi, mod, st, t, val, kind) in fx.attribute_stores():
        if t.attr in SWITCHES:
            n += 1
            run.ob("R15.3", loc(mod, st), fi.short if fi else mod.name, f"attribute write {norm(t)}", False,
                   "the global switch is written through a module attribute, bypassing the scoped setters")
    for fi in run.project.all_functions():
        for c in calls_named(fi.node, "setattr"):
            if len(c.args) >= 2 and isinstance(c.args[1], ast.Constant) and c.args[1].value in SWITCHES:
                run.ob("R15.3", loc(fi, c), fi.short, f"setattr(..., {c.args[1].value!r})", False, "dynamic write of a global switch")
    run.count("writes of the switches", n)


def r15_4(run):
    fx = facts(run)
    # _op
    fi = anchor_func(run, f"{TENSOR}._op")
    for mg in (True, False):
        cfg = build_cfg(run, fi, switch_assumptions(fi, track=False, memguard=mg))
        derived = input_derived_names(fi.node, {"input_vars", "tensor_vars"})
        eff = effect_nodes(cfg, fi, derived)
        lab = f"TRACK_GRAPH=F,MEM_GUARD={'T' if mg else 'F'}"
        run.ob("R15.4", loc(fi, fi.node), fi.short, f"[{lab}] no write of input-tensor state is reachable", not eff,
               "no store to _grad/_view_grad/_base/_ops/_view_children of an input is reachable" if not eff else
               f"untracked op still writes {sorted(set(eff.values()))}: inputs lose gradients / record consumers inside no_autodiff")
        locks = [c for c in list(calls_named(fi.node, "lock_arr_writeability")) + list(calls_named(fi.node, "finalize"))
                 if cfg.stmt_node_containing(c) is not None and cfg.reachable(cfg.stmt_node_containing(c))]
        run.ob("R15.4", loc(fi, fi.node), fi.short, f"[{lab}] no array is locked", not locks,
               "no lock_arr_writeability / finalize reachable" if not locks else "arrays are locked although nothing is recorded that could release them")
        rets = [s for n, s in cfg.stmt.items() if isinstance(s, ast.Return) and cfg.reachable(n) and s.value is not None and norm(s.value) != "out"]
        ok = bool(rets)
        for r in rets:
            v = r.value
            if not (isinstance(v, ast.Call) and kw(v, "_creator") is not None and norm(kw(v, "_creator")) == "None"
                    and kw(v, "_base") is not None and norm(kw(v, "_base")) == "None"):
                ok = False
        run.ob("R15.4", loc(fi, rets[0] if rets else fi.node), fi.short, f"[{lab}] result built with _creator=None, _base=None", ok,
               "every reachable return constructs cls(op_out, ..., _creator=None, _base=None)" if ok else
               "an untracked result carries a creator or a base")
    # _in_place_op
    ip = anchor_func(run, f"{TENSOR}._in_place_op")
    cfg = build_cfg(run, ip, switch_assumptions(ip, track=False))
    reach = [s for n, s in cfg.stmt.items() if cfg.reachable(n) and not isinstance(s, ast.Compare)]
    stmts = [s for s in reach if isinstance(s, ast.stmt)]
    ok = len(stmts) == 1 and isinstance(stmts[0], ast.Return) and isinstance(stmts[0].value, ast.Call) \
        and norm(stmts[0].value.func) == "self._op" and kw(stmts[0].value, "out") is not None and norm(kw(stmts[0].value, "out")) == "self.data"
    run.ob("R15.4", loc(ip, stmts[0] if stmts else ip.node), ip.short, "[TRACK_GRAPH=F] in-place update writes straight into self.data and does nothing else", ok,
           "only reachable statement: return self._op(..., out=self.data)" if ok else
           "untracked in-place update builds placeholder graphs or targets another array")
    if stmts and isinstance(stmts[0], ast.Return) and isinstance(stmts[0].value, ast.Call):
        c = stmts[0].value
        a_ = ip.node.args
        opp = a_.args[1].arg
        fw = {k.arg: norm(k.value) for k in c.keywords if k.arg}
        okf = c.args and norm(c.args[0]) == opp and any(isinstance(x, ast.Starred) and norm(x.value) == (a_.vararg.arg if a_.vararg else "") for x in c.args) \
            and all(fw.get(k) == k for k in ("op_args", "op_kwargs", "constant"))
        run.ob("R15.4", loc(ip, c), ip.short, "[TRACK_GRAPH=F] the untracked in-place path forwards op, operands, op_args, op_kwargs and constant", bool(okf),
               f"self._op({opp}, *operands, op_args=op_args, op_kwargs=op_kwargs, constant=constant, out=self.data)" if okf else
               f"forwarded keywords {fw}: options such as where=/axis=/dtype= are silently ignored for out=<Tensor> inside no_autodiff")
    # backward
    bw = anchor_func(run, f"{TENSOR}.backward")
    cfg = build_cfg(run, bw, switch_assumptions(bw, track=False))
    stmts = [s for n, s in cfg.stmt.items() if cfg.reachable(n) and isinstance(s, ast.stmt)
             and not (isinstance(s, ast.Expr) and isinstance(s.value, ast.Constant))]
    ok = len(stmts) == 1 and isinstance(stmts[0], ast.Return) and stmts[0].value is None
    run.ob("R15.4", loc(bw, bw.node), bw.short, "[TRACK_GRAPH=F] backward() returns immediately", ok,
           "only reachable statement: bare return" if ok else f"backward does work with tracking off: {[norm(s)[:40] for s in stmts[:3]]}")
    # shape setter
    ss = anchor_func(run, f"{TENSOR}.shape.setter")
    cfg = build_cfg(run, ss, switch_assumptions(ss, track=False))
    stmts = [s for n, s in cfg.stmt.items() if cfg.reachable(n) and isinstance(s, ast.stmt)]
    store = [s for s in stmts if isinstance(s, ast.Assign) and norm(s.targets[0]) == "self.data.shape"]
    graphy = []
    for s in stmts:
        for c in ast.walk(s):
            if isinstance(c, ast.Call) and (dotted(c.func) or "").split(".")[-1] in (
                    "DuplicatingGraph", "mirror_tensor", "reroute_ops_through", "_replay_op", "reshape", "_op", "_in_place_op", "make_placeholder_tensor"):
                graphy.append(c)
        if isinstance(s, (ast.Assign, ast.AugAssign)):
            for t in (s.targets if isinstance(s, ast.Assign) else [s.target]):
                if isinstance(t, ast.Attribute) and t.attr in ("_creator", "_view_children", "_ops"):
                    graphy.append(s)
    ok = bool(store) and not graphy
    run.ob("R15.4", loc(ss, graphy[0] if graphy else ss.node), ss.short, "[TRACK_GRAPH=F] shape assignment re-shapes the array and engages no graph machinery", ok,
           f"{len(stmts)} reachable statement(s): the store to self.data.shape (+ dropping the stale gradient), no placeholder graph / replay / mirror" if ok else
           (f"untracked shape assignment touches the graph: {norm(graphy[0])[:60]}" if graphy else "the array is not re-shaped"))
    # the grad property replays view ops untracked
    # Tensor.__init__: dtype gate is skipped only by reading the live switch
    init = anchor_func(run, f"{TENSOR}.__init__")
    cfg = build_cfg(run, init, switch_assumptions(init, track=False, extra={"NP_IS_V2": True}))
    raises = [s for n, s in cfg.stmt.items() if cfg.reachable(n) and isinstance(s, ast.Raise) and "floating type" in norm(s)]
    run.ob("R15.4", loc(init, init.node), init.short, "[TRACK_GRAPH=F] dtype restriction is lifted (complex arithmetic allowed untracked)", not raises,
           "dtype gate dead under TRACK_GRAPH=False" if not raises else "dtype gate active without tracking")


def r15_5(run):
    """conditions must read the switch live (through the module attribute)"""
    n = 0
    for mod in run.project.modules.values():
        for st in ast.walk(mod.tree):
            if isinstance(st, ast.ImportFrom):
                for a in st.names:
                    if a.name in SWITCHES and (st.module or "").endswith(SWITCHES[a.name].split(".")[-1]):
                        n += 1
                        local = a.asname or a.name
                        uses = [x for x in ast.walk(mod.tree) if isinstance(x, ast.Name) and x.id == local and isinstance(x.ctx, ast.Load)]
                        bad = []
                        for u in uses:
                            # benign iff: the use is (part of) the test of an `if` inside an op's __call__, and the guarded block
                            # neither returns/raises nor assigns any name that the function's return value depends on
                            ifn = getattr(u, "_parent", None)
                            while ifn is not None and not isinstance(ifn, (ast.If, ast.stmt)):
                                ifn = getattr(ifn, "_parent", None)
                            fnn = ifn
                            while fnn is not None and not isinstance(fnn, ast.FunctionDef):
                                fnn = getattr(fnn, "_parent", None)
                            if not isinstance(ifn, ast.If) or fnn is None or fnn.name != "__call__":
                                bad.append((u, "used outside an `if` test of an op's __call__"))
                                continue
                            blk = ifn.body + ifn.orelse
                            if any(isinstance(x, (ast.Return, ast.Raise)) for b in blk for x in ast.walk(b)):
                                bad.append((u, "guarded block returns/raises"))
                                continue
                            ret_names = set()
                            for r in ast.walk(fnn):
                                if isinstance(r, ast.Return) and r.value is not None:
                                    ret_names |= {x.id for x in ast.walk(r.value) if isinstance(x, ast.Name)}
                            assigned = set()
                            for b in blk:
                                for x in ast.walk(b):
                                    if isinstance(x, ast.Name) and isinstance(x.ctx, ast.Store):
                                        assigned.add(x.id)
                                    if isinstance(x, (ast.AugAssign,)) and isinstance(x.target, (ast.Name, ast.Subscript)):
                                        t = x.target
                                        while isinstance(t, ast.Subscript):
                                            t = t.value
                                        if isinstance(t, ast.Name):
                                            assigned.add(t.id)
                            if assigned & ret_names:
                                bad.append((u, f"guarded block assigns {sorted(assigned & ret_names)} which the forward result depends on"))
                        ok = not bad
                        run.ob("R15.5", loc(mod, st), mod.name, f"stale `from ... import {a.name}` in {mod.name}", ok,
                               f"{len(uses)} use(s), each only gates caching of backward state in an op's __call__ (value frozen at import = True; "
                               f"forward value unaffected)" if ok else
                               f"a switch value frozen at import time decides behaviour: {bad[0][1]} (line {bad[0][0].lineno}); no_autodiff is not honoured")
    run.count("stale switch imports", n)
    # live reads in the four anchors
    for q in (f"{TENSOR}._op", f"{TENSOR}._in_place_op", f"{TENSOR}.backward", f"{TENSOR}.shape.setter", f"{TENSOR}.__init__"):
        fi = run.project.func(q)
        reads = [x for x in own_nodes(fi.node) if isinstance(x, ast.Attribute) and x.attr in SWITCHES]
        ok = bool(reads) and all(isinstance(x.value, ast.Name) for x in reads)
        mods_ok = True
        for x in reads:
            r = run.project.resolve(fi.module, x.value)
            if getattr(r, "name", None) != SWITCHES[x.attr]:
                mods_ok = False
        run.ob("R15.5", loc(fi, fi.node), fi.short, "switches are read through their module attribute at call time", ok and mods_ok,
               f"{len(reads)} live read(s)" if ok and mods_ok else "no live read of the switch in a function whose behaviour must depend on it")


def r15_6(run):
    """the constants: what each scope sets on entry, what the process-wide switches assign"""
    want = {"mygrad._utils.graph_tracking._NoAutoDiff": False, "mygrad._utils.lock_management._NoMemGuard": False,
            "mygrad._utils.lock_management._WithMemGuard": True}
    for q, v in want.items():
        c = run.project.cls(q)
        a = c.lookup_attr("_enter_set_value")
        ok = a is not None and isinstance(a[1], ast.Constant) and a[1].value is v
        run.ob("R15.6", loc(c.module, c.node), q[7:], f"_enter_set_value is {v}", ok, "class constant" if ok else "the scope sets the opposite / no value on entry")
    for fn, v in (("turn_memory_guarding_off", False), ("turn_memory_guarding_on", True)):
        f = run.project.func(f"mygrad._utils.lock_management.{fn}")
        st = [s for s in own_nodes(f.node) if isinstance(s, ast.Assign) and assigned_name(s) == "MEM_GUARD"]
        glob = any(isinstance(g, ast.Global) and "MEM_GUARD" in g.names for g in own_nodes(f.node))
        ok = glob and len(st) == 1 and isinstance(st[0].value, ast.Constant) and st[0].value.value is v
        run.ob("R15.6", loc(f, f.node), f.short, f"{fn} assigns the process-wide default {v}", ok, f"global MEM_GUARD; MEM_GUARD = {v}" if ok else "wrong / local assignment")
    # the process-wide defaults are booleans on every path of module initialisation (the state setters reject anything else on restore)
    from ..cfg import CFG, reaching_defs as _rd
    for modn, sw in (("mygrad._utils.lock_management", "MEM_GUARD"), ("mygrad._utils.graph_tracking", "TRACK_GRAPH")):
        mod = run.project.module(modn)
        mcfg = CFG(mod.tree)
        defs = _rd(mcfg, sw, EXIT)
        vals = [getattr(mcfg.stmt[d], "value", None) if d != ENTRY else None for d in defs]
        def _boolish(v):
            if isinstance(v, ast.Constant):
                return isinstance(v.value, bool)
            if isinstance(v, ast.Compare):
                return True
            if isinstance(v, ast.UnaryOp) and isinstance(v.op, ast.Not):
                return True
            if isinstance(v, ast.BoolOp):
                return all(_boolish(x) for x in v.values)
            if isinstance(v, ast.IfExp):
                return _boolish(v.body) and _boolish(v.orelse)
            if isinstance(v, ast.Subscript) and isinstance(v.value, ast.Name):
                # a lookup in a module-level table all of whose values are booleans: `_SETTINGS[MEM_GUARD]`
                b_ = mod.symbols.get(v.value.id)
                tv = getattr(b_, "value", None) if b_ is not None and getattr(b_, "kind", "") == "assign" and len(getattr(b_, "all_values", []) or []) == 1 else None
                if isinstance(tv, ast.Dict) and tv.values and all(isinstance(x, ast.Constant) and isinstance(x.value, bool) for x in tv.values):
                    return True
            if isinstance(v, ast.Call) and isinstance(v.func, ast.Attribute) and v.func.attr == "get" and isinstance(v.func.value, ast.Name) and len(v.args) == 1:
                # `<table>.get(key)` is a bool or None; fine when a later `if <switch> is None:` re-binds the switch to a bool on its true edge
                b_ = mod.symbols.get(v.func.value.id)
                tv = getattr(b_, "value", None) if b_ is not None and getattr(b_, "kind", "") == "assign" and len(getattr(b_, "all_values", []) or []) == 1 else None
                if isinstance(tv, ast.Dict) and tv.values and all(isinstance(x, ast.Constant) and isinstance(x.value, bool) for x in tv.values):
                    for st_ in mod.tree.body:
                        if isinstance(st_, ast.If) and norm(st_.test) == f"{sw} is None" and any(
                                isinstance(y, ast.Assign) and assigned_name(y) == sw and _boolish(y.value) for y in st_.body):
                            return True
            if isinstance(v, ast.Call) and isinstance(v.func, ast.Attribute) and v.func.attr == "get" and isinstance(v.func.value, ast.Name) and len(v.args) == 2:
                b_ = mod.symbols.get(v.func.value.id)
                tv = getattr(b_, "value", None) if b_ is not None and getattr(b_, "kind", "") == "assign" and len(getattr(b_, "all_values", []) or []) == 1 else None
                if isinstance(tv, ast.Dict) and tv.values and all(isinstance(x, ast.Constant) and isinstance(x.value, bool) for x in tv.values):
                    return _boolish(v.args[1])
            return isinstance(v, ast.Call) and dotted(v.func) == "bool"

        ok = bool(vals) and all(v is not None and _boolish(v) for v in vals)
        run.ob("R15.6", loc(mod, mod.symbols[sw].node) if sw in mod.symbols and mod.symbols[sw].node is not None else modn, modn[7:],
               f"module initialisation leaves {sw} a bool on every path", ok,
               f"{len(vals)} reaching definition(s) at the end of the module, all boolean-valued (True/False, comparison, not, bool(...))" if ok else
               f"{sw} can be left as {[norm(v) if v is not None else 'undefined' for v in vals]}: a scope saves that non-bool value and its exit fails to restore it "
               f"(the setter raises TypeError), leaving the scope's setting in force process-wide")
    # the module-level singletons are instances of the right classes
    for modn, name, cls in (("mygrad._utils.graph_tracking", "no_autodiff", "_NoAutoDiff"), ("mygrad._utils.lock_management", "mem_guard_off", "_NoMemGuard"),
                            ("mygrad._utils.lock_management", "mem_guard_on", "_WithMemGuard")):
        b = run.project.module(modn).symbols.get(name)
        ok = b is not None and b.value is not None and norm(b.value) == f"{cls}()"
        run.ob("R15.6", loc(run.project.module(modn), b.node) if b is not None and b.node is not None else modn, modn[7:], f"{name} = {cls}()", ok,
               "singleton of the matching class" if ok else "public scope object bound to the wrong class")


def check(run):
    run.rule("R15.1", "ContextTracker bracket: save-before-set, restore key == save key (term over _depth), depth returns, __exit__ never truthy, "
             "setters write the module switch", floor=10)
    run.rule("R15.2", "scopes are entered only by with-statements (decorators included); no manual __enter__/__exit__", floor=6)
    run.rule("R15.3", "TRACK_GRAPH / MEM_GUARD are written only by their state setters, turn_memory_guarding_* and module initialisation", floor=6)
    run.rule("R15.4", "with TRACK_GRAPH=False: _op writes no input state, locks nothing, result has no creator/base; _in_place_op writes into self.data; "
             "backward returns at once; shape setter is a plain store", floor=10)
    run.rule("R15.6", "entry values of the three scopes, the process-wide setters and the public singletons", floor=8)
    run.rule("R15.5", "behaviour-deciding conditions read the switch live; stale `from ... import` sites only gate caching", floor=6)
    run.do(r15_1)
    run.do(r15_2)
    run.do(r15_3)
    run.do(r15_4)
    run.do(r15_5)
    run.do(r15_6)
