"""Helpers shared by the rule modules."""
from __future__ import annotations

import ast
from typing import Dict, List, Optional, Set

from ..cfg import CFG, ENTRY, EXIT, RAISE
from ..common import Facts, calls_named, dotted, loc, norm, stmt_of
from ..model import AnalysisError, ClassInfo, External, FunctionInfo, own_nodes

TRACK = "_track.TRACK_GRAPH"
MEMG = "_mem.MEM_GUARD"

_FACTS: Dict[int, Facts] = {}


def facts(run) -> Facts:
    f = _FACTS.get(id(run.project))
    if f is None:
        f = Facts(run.project)
        _FACTS.clear()
        _FACTS[id(run.project)] = f
    return f


def switch_assumptions(fi: FunctionInfo, track=None, memguard=None, extra=None) -> Dict[str, object]:
    """Assumption map for the two global switches, spelled the way `fi`'s module reads them.

    The module may read the switch through any alias of the graph_tracking / lock_management modules
    (``_track.TRACK_GRAPH``, ``_tracking.TRACK_GRAPH``) or, inside those modules, by bare name."""
    out: Dict[str, object] = {}
    mod = fi.module
    for name, b in mod.symbols.items():
        if b.kind == "module" or b.kind == "from":
            tgt = b.target.replace(":", ".") if b.target else ""
            if tgt.endswith("_utils.graph_tracking") and track is not None:
                out[f"{name}.TRACK_GRAPH"] = track
                out[f"{name}.TRACK_GRAPH is False"] = (track is False)
            if tgt.endswith("_utils.lock_management") and memguard is not None:
                out[f"{name}.MEM_GUARD"] = memguard
            if tgt.endswith("graph_tracking.TRACK_GRAPH") and track is not None:
                out[name] = track
            if tgt.endswith("lock_management.MEM_GUARD") and memguard is not None:
                out[name] = memguard
    if mod.name.endswith("_utils.graph_tracking") and track is not None:
        out["TRACK_GRAPH"] = track
    if mod.name.endswith("_utils.lock_management") and memguard is not None:
        out["MEM_GUARD"] = memguard
    if extra:
        out.update(extra)
    return out


def build_cfg(run, fi: FunctionInfo, assume=None, extra_raise=None) -> CFG:
    fx = facts(run)

    def may_raise(call: ast.Call) -> bool:
        if extra_raise is not None and extra_raise(call):
            return True
        return fx.call_may_raise(fi, call)

    return CFG(fi.node, assume=assume or {}, may_raise=may_raise)


def anchor_func(run, qualname: str) -> FunctionInfo:
    return run.project.func(qualname)


def node_of_call(cfg: CFG, call: ast.AST) -> Optional[int]:
    return cfg.stmt_node_containing(call)


def name_aliases(fn_node: ast.AST, name: str) -> Set[str]:
    """Names that are plain copies of `name` (x = name), transitively; flow-insensitive."""
    al = {name}
    changed = True
    while changed:
        changed = False
        for n in own_nodes(fn_node):
            if isinstance(n, ast.Assign) and isinstance(n.value, ast.Name) and n.value.id in al:
                for t in n.targets:
                    if isinstance(t, ast.Name) and t.id not in al:
                        al.add(t.id)
                        changed = True
    return al


def assigned_name(stmt: ast.AST) -> Optional[str]:
    if isinstance(stmt, ast.Assign) and len(stmt.targets) == 1 and isinstance(stmt.targets[0], ast.Name):
        return stmt.targets[0].id
    if isinstance(stmt, ast.AnnAssign) and isinstance(stmt.target, ast.Name):
        return stmt.target.id
    return None


def callee_desc(run, fi: FunctionInfo, call: ast.Call) -> str:
    r = facts(run).resolve_call(fi, call)
    if isinstance(r, FunctionInfo):
        return r.short
    if isinstance(r, ClassInfo):
        return r.qualname[len("mygrad."):] + ".__init__"
    if isinstance(r, External):
        return r.name
    return norm(call.func)


def raising_calls(run, fi: FunctionInfo, stmt: ast.AST) -> List[ast.Call]:
    from ..cfg import calls_in
    fx = facts(run)
    return [c for c in calls_in(stmt) if fx.call_may_raise(fi, c)]


_NP_CONVERTERS = {"asarray", "array", "asanyarray", "ascontiguousarray", "asfortranarray", "broadcast_to", "broadcast_arrays", "reshape",
                  "astype", "require", "fromiter", "concatenate", "stack"}


def validating_numpy_call(call: ast.Call, params=None) -> bool:
    """NumPy routines that validate caller-supplied data and raise on it (ragged sequences, impossible dtypes, incompatible shapes):
    may-raise wherever they are applied, inside the engine's critical regions (Tensor._op between locking and the releasing handlers), to a
    value the caller supplied raw -- a parameter, or an item / .get() of a parameter (op_kwargs["where"], input_vars[i]).  Conversions of
    arrays the engine already holds (<tensor>.data, <tensor>.grad) are not treated as fallible."""
    d = dotted(call.func) or ""
    leaf = d.split(".")[-1] if d else (call.func.attr if isinstance(call.func, ast.Attribute) else "")
    if leaf not in _NP_CONVERTERS:
        return False
    is_np = d.split(".")[0] in ("np", "numpy")
    if not (is_np or (isinstance(call.func, ast.Attribute) and leaf in ("astype", "reshape"))):
        return False
    subject = call.args[0] if (is_np and call.args) else (call.func.value if isinstance(call.func, ast.Attribute) else None)
    if subject is None:
        return False
    if params is None:
        fn = call
        while fn is not None and not isinstance(fn, (ast.FunctionDef, ast.AsyncFunctionDef)):
            fn = getattr(fn, "_parent", None)
        params = {a.arg for a in fn.args.posonlyargs + fn.args.args + fn.args.kwonlyargs} | ({fn.args.vararg.arg} if fn is not None and fn.args.vararg else set()) \
            if fn is not None else set()
    e = subject
    while True:
        if isinstance(e, ast.Subscript):
            e = e.value
        elif isinstance(e, ast.Call) and isinstance(e.func, ast.Attribute) and e.func.attr in ("get", "pop"):
            e = e.func.value
        else:
            break
    return isinstance(e, ast.Name) and e.id in params


def op_instance_call(run, fi: FunctionInfo, call: ast.Call) -> bool:
    """`f(...)` where local f was bound to `Op()` and Op is a parameter / a class: the dynamic dispatch to an
    Operation's __call__ (the forward kernel). Always may-raise."""
    if not isinstance(call.func, ast.Name):
        return False
    fx = facts(run)
    v = fx._single_local_value(fi, call.func.id)
    if isinstance(v, ast.Call) and isinstance(v.func, ast.Name) and not v.args and not v.keywords:
        params = {a.arg for a in fi.node.args.posonlyargs + fi.node.args.args + fi.node.args.kwonlyargs}
        if v.func.id in params:
            return True
        r = fx.resolve_in(fi, v.func)
        if isinstance(r, ClassInfo) and r.is_subclass_of(run.project.cls("mygrad.operation_base.Operation")):
            return True
    return False


def is_zero_expr(e: Optional[ast.AST]) -> bool:
    """`e` denotes the value zero whatever its operands hold: a literal 0 / 0.0 / False, a signed literal, np.zeros(...) /
    zeros_like(...), a scalar-type constructor applied to a zero (`np.float32(0)`, `x.dtype.type(0)`)."""
    if e is None:
        return False
    if isinstance(e, ast.Constant):
        return e.value is not None and not isinstance(e.value, (str, bytes)) and e.value == 0
    if isinstance(e, ast.UnaryOp) and isinstance(e.op, (ast.USub, ast.UAdd)):
        return is_zero_expr(e.operand)
    if isinstance(e, ast.Call):
        leaf = (dotted(e.func) or norm(e.func)).split(".")[-1]
        if leaf in ("zeros", "zeros_like"):
            return True
        if len(e.args) == 1 and is_zero_expr(e.args[0]) and leaf in ("type", "float16", "float32", "float64", "float_", "float", "int", "int_", "asarray", "array", "dtype"):
            return True
        if leaf in ("full", "full_like") and len(e.args) >= 2 and is_zero_expr(e.args[1]):
            return True
    return False


def type_narrowed_dead_params(run, rule: str, functions) -> int:
    """A parameter that the function inspects with isinstance(p, T) must still be *used* when it is of none of the tested types (and is
    not None): otherwise a legal argument of another type (an ndarray where a Tensor is also accepted, a list where a tuple is tested, ...)
    is silently ignored.  Decided on the CFG specialised with every isinstance(p, .) false and `p is None` false: every path from the entry
    to a normal exit must pass a statement that reads p (outside the tests themselves) -- raising is fine."""
    import networkx as nx
    n = 0
    for fi in functions:
        fn = fi.node
        params = [a.arg for a in fn.args.posonlyargs + fn.args.args + fn.args.kwonlyargs if a.arg not in ("self", "cls")]
        tests: Dict[str, List[ast.Call]] = {}
        for c in own_nodes(fn):
            if isinstance(c, ast.Call) and isinstance(c.func, ast.Name) and c.func.id == "isinstance" and len(c.args) == 2 \
                    and isinstance(c.args[0], ast.Name) and c.args[0].id in params:
                tests.setdefault(c.args[0].id, []).append(c)
        for p, ts in sorted(tests.items()):
            if any(isinstance(x, ast.Name) and x.id == p and isinstance(x.ctx, ast.Store) for x in own_nodes(fn)):
                # the parameter is rebound somewhere: uses after the rebinding are uses of the new value; still fine for this rule
                pass
            assume = {norm(t): False for t in ts}
            assume[f"{p} is None"] = False
            assume[f"{p} is not None"] = True
            cfg = CFG(fn, assume=assume)
            in_tests = set()
            for t in ts:
                in_tests |= {id(x) for x in ast.walk(t)}
            uses = set()
            for nid, st in cfg.stmt.items():
                if st is None or isinstance(st, (ast.FunctionDef, ast.AsyncFunctionDef, ast.ClassDef)):
                    continue
                for x in ast.walk(st):
                    if isinstance(x, ast.Name) and x.id == p and isinstance(x.ctx, ast.Load) and id(x) not in in_tests:
                        uses.add(nid)
                        break
            g = cfg.g.copy()
            g.remove_nodes_from(uses)
            dead = ENTRY in g and EXIT in g and nx.has_path(g, ENTRY, EXIT)
            n += 1
            path = None
            if dead:
                path = cfg.path_text(nx.shortest_path(g, ENTRY, EXIT))
            run.ob(rule, loc(fi, ts[0]), fi.short, f"parameter `{p}` is used whatever its type ({', '.join(sorted({norm(t.args[1])[:30] for t in ts}))} tested)", not dead,
                   f"with every isinstance({p}, .) false and {p} not None, each path to a normal exit reads {p}" if not dead else
                   f"`{p}` is read only when it is an instance of the tested type(s): an argument of any other accepted type (e.g. an ndarray where a "
                   f"Tensor is tested) is silently ignored", path=path)
    return n


_ALLOC_LIKE = ("empty_like", "zeros_like", "ones_like", "full_like")


def buffer_fill(cfg: CFG, buf: str, at: int):
    """The allocate-then-fill idiom:  `buf = np.empty_like(E, ...)` (every reaching definition of `buf` at node `at` is such an allocation)
    followed by `np.copyto(buf, S)` / `buf[...] = S` that dominates `at` and is dominated by the allocation.
    Returns (allocation call, E, fill node, S expression) or None.  `buf` then holds the values of S in the shape and layout of E."""
    from ..cfg import reaching_defs
    defs = reaching_defs(cfg, buf, at)
    if not defs or ENTRY in defs:
        return None
    allocs = []
    for d in defs:
        v = getattr(cfg.stmt[d], "value", None)
        if not (isinstance(v, ast.Call) and (dotted(v.func) or norm(v.func)).split(".")[-1] in _ALLOC_LIKE and v.args):
            return None
        allocs.append((d, v))
    like = {norm(v.args[0]) for _, v in allocs}
    if len(like) != 1:
        return None
    for n, st in cfg.stmt.items():
        src = None
        if isinstance(st, ast.Expr) and isinstance(st.value, ast.Call) and (dotted(st.value.func) or norm(st.value.func)).split(".")[-1] == "copyto" \
                and len(st.value.args) >= 2 and norm(st.value.args[0]) == buf and not any(k.arg == "where" for k in st.value.keywords):
            src = st.value.args[1]
        elif isinstance(st, ast.Assign) and len(st.targets) == 1 and isinstance(st.targets[0], ast.Subscript) and norm(st.targets[0].value) == buf \
                and norm(st.targets[0].slice) in ("...", "Ellipsis", ":", "()"):
            src = st.value
        if src is None:
            continue
        if (n == at or cfg.dominates(n, at)) and all(cfg.dominates(d, n) for d, _ in allocs):
            return allocs[0][1], allocs[0][1].args[0], n, src
    return None


# functions in which a path legitimately ignores `constant` / `out` (one named symbol + reason each)
PATH_DEAD_EXEMPT = {
    ("mygrad.indexing_routines.funcs.where", "constant"): "the one-argument form returns np.where(condition): a tuple of plain index arrays, no tensor is produced",
}


def path_dead_option(run, rule: str, param: str, breaks: str) -> int:
    """Every normal path through a function that accepts `param` (`constant` / `out`) and uses it somewhere reads it: a branch that computes
    and returns a result without consulting the option silently ignores what the caller asked for.  Functions that never read the parameter
    at all are decorator-filled stubs (their bodies are replaced by the ufunc machinery) and are judged by R03.2/R11.3 instead."""
    import networkx as nx
    n = 0
    for fi in run.project.all_functions():
        fn = fi.node
        params = [a.arg for a in fn.args.posonlyargs + fn.args.args + fn.args.kwonlyargs]
        if param not in params:
            continue
        if fi.name.startswith("_") and not (fi.name.startswith("__") and fi.name.endswith("__")):
            continue  # private helpers (validators, recursion workers) do not define what the option means; their public callers are judged
        cfg = CFG(fn)
        uses = {nid for nid, st in cfg.stmt.items() if st is not None and not isinstance(st, (ast.FunctionDef, ast.AsyncFunctionDef, ast.ClassDef))
                and any(isinstance(x, ast.Name) and x.id == param and isinstance(x.ctx, ast.Load) for x in ast.walk(st))}
        if not uses:
            continue
        n += 1
        g = cfg.g.copy()
        g.remove_nodes_from(uses)
        dead = ENTRY in g and EXIT in g and nx.has_path(g, ENTRY, EXIT)
        ex = PATH_DEAD_EXEMPT.get((fi.qualname, param))
        path = cfg.path_text(nx.shortest_path(g, ENTRY, EXIT)) if dead else None
        run.ob(rule, loc(fi, fn), fi.short, f"`{param}` is consulted on every path that returns", (not dead) or ex is not None,
               (f"every ENTRY->EXIT path reads `{param}`" if not dead else f"exempt: {ex}") if (not dead or ex) else
               f"a path returns a result without reading `{param}`: {breaks}", path=path if dead and not ex else None)
    return n


def default_assume(fn_node: ast.AST, keep=()) -> Dict[str, object]:
    """Assumptions that pin every parameter *not* in `keep` to its declared default (None / True / False / a number): rules that state what a
    function does for the parameters they name are evaluated on the paths a caller who does not use the other, optional parameters takes --
    an added keyword whose default reproduces today's behaviour is then invisible to the rule."""
    out: Dict[str, object] = {}
    a = fn_node.args
    pos = a.posonlyargs + a.args
    pairs = list(zip(pos[len(pos) - len(a.defaults):], a.defaults)) + [(p, d) for p, d in zip(a.kwonlyargs, a.kw_defaults) if d is not None]
    for p, d in pairs:
        if p.arg in keep or not isinstance(d, ast.Constant):
            continue
        v = d.value
        nm = p.arg
        if v is None:
            out[f"{nm} is None"] = True
            out[f"{nm} is not None"] = False
            out[nm] = False
        elif isinstance(v, bool):
            out[nm] = v
            out[f"{nm} is True"] = v is True
            out[f"{nm} is False"] = v is False
            out[f"{nm} is not True"] = v is not True
            out[f"{nm} is not False"] = v is not False
            out[f"{nm} is None"] = False
            out[f"{nm} is not None"] = True
        elif isinstance(v, (int, float)):
            out[nm] = v
    return out


def projection_aliases(fn_node: ast.AST) -> Dict[str, str]:
    """locals bound exactly once to a plain attribute chain / name (`creator = t.creator`): name -> text of what it stands for"""
    counts: Dict[str, int] = {}
    vals: Dict[str, ast.expr] = {}
    for n in own_nodes(fn_node):
        if isinstance(n, ast.Name) and isinstance(n.ctx, (ast.Store, ast.Del)):
            counts[n.id] = counts.get(n.id, 0) + 1
        if isinstance(n, ast.Assign) and len(n.targets) == 1 and isinstance(n.targets[0], ast.Name) and dotted(n.value) is not None:
            vals[n.targets[0].id] = n.value
    params = {a.arg for a in fn_node.args.posonlyargs + fn_node.args.args + fn_node.args.kwonlyargs} if hasattr(fn_node, "args") else set()
    return {k: norm(v) for k, v in vals.items() if counts.get(k) == 1 and k not in params}


def sem(e: ast.AST, aliases: Dict[str, str]) -> str:
    """text of `e` with single-definition projection locals replaced by what they stand for"""
    import re
    t = norm(e)
    for _ in range(3):
        for k, v in aliases.items():
            t = re.sub(rf"(?<![\w.]){re.escape(k)}\b", v, t)
    return t


def owner_closure(run, owners) -> Set[str]:
    """Qualified names of the owner functions plus the private helpers that serve only them: a private function (`_x`) all of whose call
    sites in the repository lie in functions already in the closure.  Who-may-write rules accept a write inside this closure -- moving part
    of an owner into a helper of its own does not widen who can reach the state."""
    closure = set(owners)
    funcs = sorted(run.project.functions.values(), key=lambda f: f.qualname)  # including helpers the normal form has absorbed
    by_name: Dict[str, List[FunctionInfo]] = {}
    for f in funcs:
        by_name.setdefault(f.name, []).append(f)
    # call sites by callee *name* (conservative: any call spelled with that name counts)
    sites: Dict[str, Set[str]] = {}
    for f in funcs:
        for c in own_nodes(f.node):
            if isinstance(c, ast.Call):
                nm = c.func.id if isinstance(c.func, ast.Name) else (c.func.attr if isinstance(c.func, ast.Attribute) else None)
                if nm:
                    sites.setdefault(nm, set()).add(f.qualname)
            elif isinstance(c, (ast.Name, ast.Attribute)) and isinstance(getattr(c, "ctx", None), ast.Load):
                # a bare reference (passed as a callback) counts as a use from that function
                nm = c.id if isinstance(c, ast.Name) else c.attr
                if nm in by_name and nm.startswith("_"):
                    sites.setdefault(nm, set()).add(f.qualname)
    for caller_q, callee_q in getattr(run.project, "inlined_edges", set()):
        sites.setdefault(callee_q.rsplit(".", 1)[-1], set()).add(caller_q)  # calls the normal form has replaced by the helper's body
    changed = True
    while changed:
        changed = False
        for f in funcs:
            if f.qualname in closure or not f.name.startswith("_") or f.name.startswith("__"):
                continue
            users = sites.get(f.name, set()) - {f.qualname}
            if users and users <= closure and len(by_name.get(f.name, [])) == 1:
                closure.add(f.qualname)
                changed = True
    return closure


def cond_assigns(root: ast.AST):
    """Two-armed selections of one target's value, in the normal form of sa/normal.py (statement-level conditional expressions are lowered to
    `if c: t = A / else: t = B`, tests oriented positively):  yields (if_stmt, target_text, test, value_if_true, value_if_false) for every `if`
    under `root` whose two arms are single assignments to the same target.  Conditional *expressions* that remain (nested in a larger
    expression) are yielded with if_stmt = the IfExp node and target_text None."""
    for n in ast.walk(root):
        if isinstance(n, ast.If) and len(n.body) == 1 and len(n.orelse) == 1 and isinstance(n.body[0], ast.Assign) and isinstance(n.orelse[0], ast.Assign) \
                and len(n.body[0].targets) == 1 and len(n.orelse[0].targets) == 1 and norm(n.body[0].targets[0]) == norm(n.orelse[0].targets[0]):
            yield n, norm(n.body[0].targets[0]), n.test, n.body[0].value, n.orelse[0].value
        elif isinstance(n, ast.IfExp):
            yield n, None, n.test, n.body, n.orelse


def cond_returns(root: ast.AST):
    """`if c: return A / else: return B` (the normal form of `return A if c else B`): yields (if_stmt, test, value_if_true, value_if_false)"""
    for n in ast.walk(root):
        if isinstance(n, ast.If) and len(n.body) == 1 and len(n.orelse) == 1 and isinstance(n.body[0], ast.Return) and isinstance(n.orelse[0], ast.Return):
            yield n, n.test, n.body[0].value, n.orelse[0].value


def is_none_transfer_arm(st: ast.AST) -> bool:
    """`st` is the None arm of a *transfer*  `if <src> is None: t = None / else: t = f(<src>)`  (the normal form of
    `t = f(src) if src is not None else None`): the store passes on that the source holds nothing; it does not discard anything."""
    par = getattr(st, "_parent", None)
    if not (isinstance(par, ast.If) and len(par.body) == 1 and len(par.orelse) == 1 and isinstance(st, ast.Assign) and len(st.targets) == 1):
        return False
    other = par.orelse[0] if par.body[0] is st else par.body[0]
    if not (isinstance(other, ast.Assign) and len(other.targets) == 1 and norm(other.targets[0]) == norm(st.targets[0])):
        return False
    t = par.test
    if not (isinstance(t, ast.Compare) and len(t.ops) == 1 and isinstance(t.ops[0], (ast.Is, ast.IsNot)) and isinstance(t.comparators[0], ast.Constant)
            and t.comparators[0].value is None):
        return False
    none_arm = par.body[0] if isinstance(t.ops[0], ast.Is) else par.orelse[0]
    if none_arm is not st or not (isinstance(st.value, ast.Constant) and st.value.value is None):
        return False
    src = norm(t.left)
    return any(norm(x) == src for x in ast.walk(other.value))


_META_ATTRS = {"dtype", "shape", "strides", "ndim", "size", "flags", "itemsize", "nbytes"}


def value_uses(e: ast.AST, name: str) -> int:
    """number of reads of local `name` in `e` that can carry its *contents* (reads of array metadata -- x.dtype, x.shape, x.strides ... -- do not)"""
    n = 0
    meta = set()
    for x in ast.walk(e):
        if isinstance(x, ast.Attribute) and x.attr in _META_ATTRS and isinstance(x.value, ast.Name):
            meta.add(id(x.value))
    for x in ast.walk(e):
        if isinstance(x, ast.Name) and x.id == name and isinstance(x.ctx, ast.Load) and id(x) not in meta:
            n += 1
    return n


def specialise_defaults(fi: FunctionInfo, keep=()) -> FunctionInfo:
    """A twin of `fi` in which every parameter *not* in `keep` that has a constant default and is never re-bound in the body is replaced by that
    default, and the normal form is re-established (so `np.copy(self.data, order=order)` with `order="K"` becomes `np.copy(self.data)`).  A rule that
    states what a function does for the parameters it names is judged on this twin: a new keyword whose default reproduces today's behaviour is
    invisible to it.  The project is untouched."""
    import copy as _copy
    from ..inline import clone
    from ..normal import renormalise_function
    fn = fi.node
    a = fn.args
    pos = a.posonlyargs + a.args
    pairs = list(zip(pos[len(pos) - len(a.defaults):], a.defaults)) + [(p, d) for p, d in zip(a.kwonlyargs, a.kw_defaults) if d is not None]
    stored = {n.id for n in ast.walk(fn) if isinstance(n, ast.Name) and isinstance(n.ctx, (ast.Store, ast.Del))}
    sub = {p.arg: d for p, d in pairs if p.arg not in keep and isinstance(d, ast.Constant) and p.arg not in stored}
    if not sub:
        return fi
    twin = _copy.copy(fi)
    twin.node = clone(fn)

    class S(ast.NodeTransformer):
        def visit_Name(self, node):
            if isinstance(node.ctx, ast.Load) and node.id in sub:
                return ast.copy_location(ast.Constant(value=sub[node.id].value), node)
            return node
    twin.node.body = [S().visit(b) for b in twin.node.body]
    renormalise_function(twin.node)
    for n in ast.walk(twin.node):
        for ch in ast.iter_child_nodes(n):
            ch._parent = n  # type: ignore[attr-defined]
    return twin


def specialise_param(fi: FunctionInfo, name: str, value) -> FunctionInfo:
    """A twin of `fi` with every read of parameter `name` replaced by the literal `value` and the normal form re-established (`if index == 0:`
    folds away): the per-operand view of a `backward_var`.  The project is untouched."""
    import copy as _copy
    from ..inline import clone
    from ..normal import renormalise_function
    if name not in fi.params() or any(isinstance(n, ast.Name) and n.id == name and isinstance(n.ctx, (ast.Store, ast.Del)) for n in ast.walk(fi.node)):
        return fi
    twin = _copy.copy(fi)
    twin.node = clone(fi.node)

    class S(ast.NodeTransformer):
        def visit_Name(self, node):
            if isinstance(node.ctx, ast.Load) and node.id == name:
                return ast.copy_location(ast.Constant(value=value), node)
            return node
    twin.node.body = [S().visit(b) for b in twin.node.body]
    renormalise_function(twin.node)
    for n in ast.walk(twin.node):
        for ch in ast.iter_child_nodes(n):
            ch._parent = n  # type: ignore[attr-defined]
    return twin
