"""C14 -- seeding backward and the shape/dtype of every stored gradient (who-may-write + dominance)."""
from __future__ import annotations

import ast
from typing import List, Optional, Set, Tuple

import networkx as nx

from ..cfg import eval3, CFG, ENTRY, EXIT, RAISE, reaching_defs
from ..common import calls_named, dotted, kw, loc, norm, stmt_of
from ..model import AnalysisError, ClassInfo, FunctionInfo, own_nodes
from .util import specialise_defaults, anchor_func, assigned_name, build_cfg, facts, switch_assumptions

TENSOR = "mygrad.tensor_base.Tensor"
BACKWARD = f"{TENSOR}.backward"
OP_BACKWARD = "mygrad.operation_base.Operation.backward"

# R14.1: the closed set of functions that may assign Tensor._grad (None-stores and value stores)
GRAD_WRITERS = {
    "tensor_base.Tensor.__init__": "initialises to None",
    "_utils.collect_all_tensors_and_clear_grads": "nulls before a backward pass",
    "tensor_base.Tensor._op": "nulls the gradients of the inputs of a non-view op",
    "tensor_base.Tensor.null_grad": "nulls",
    "tensor_base.Tensor.backward": "stores the seed",
    "operation_base.Operation.backward": "first contribution / accumulation",
    "tensor_base.Tensor.copy": "copies the gradient together with the data",
    "nnet.layers.gru._backprop": "GRU's hand-written accumulation helper",
    "nnet.layers.gru.GRUnit.backward": "gradient of the hidden sequence",
}


def tensor_grad_stores(run) -> List[Tuple[Optional[FunctionInfo], object, ast.AST, ast.Attribute, Optional[ast.expr], str]]:
    """Stores to `<x>._grad` where x is a tensor (stores on `self` inside Operation subclasses are op state)."""
    fx = facts(run)
    opbase = run.project.cls("mygrad.operation_base.Operation")
    out = []
    for rec in fx.attribute_stores():
        fi, mod, st, t, val, kind = rec
        if t.attr != "_grad":
            continue
        if fi is not None and fi.cls is not None and fi.cls.is_subclass_of(opbase) and norm(t.value) == fx.first_param(fi):
            continue  # an Operation's own attribute that happens to be called _grad
        out.append(rec)
    return out


def is_none_value(v) -> bool:
    return isinstance(v, ast.Constant) and v.value is None


def r14_1(run):
    fx = facts(run)
    stores = tensor_grad_stores(run)
    run.count("stores to Tensor._grad", len(stores))
    for fi, mod, st, t, val, kind in stores:
        fn = fi.short if fi else mod.name
        ok = fn in GRAD_WRITERS
        if not ok and fi is not None:
            # a private helper that serves only members of the writer set (an extracted block of one of them) inherits its owner's obligations
            from .util import owner_closure
            ok = fi.qualname in owner_closure(run, {"mygrad." + k for k in GRAD_WRITERS})
        run.ob("R14.1", loc(mod, st), fn, f"writer of Tensor._grad: {fn} ({'None' if is_none_value(val) else kind})", ok,
               GRAD_WRITERS.get(fn, "") if ok else
               "a function outside the closed writer set assigns a tensor's gradient: its shape/dtype/ownership obligations are unchecked")
    # __dict__ wholesale copies
    for fi, mod, st, t, val, kind in fx.attribute_stores():
        if t.attr == "__dict__":
            fn = fi.short if fi else mod.name
            ok = fn == "_utils.duplicating_graph.mirror_tensor"
            run.ob("R14.1", loc(mod, st), fn, f"wholesale state copy {norm(t)}", ok,
                   "mirror_tensor is the only function replacing a tensor's attribute dictionary" if ok else
                   "tensor state (incl. _grad) replaced wholesale outside mirror_tensor")
    # setattr(<x>, "_grad", ...)
    for fi in run.project.all_functions():
        for c in calls_named(fi.node, "setattr"):
            if len(c.args) >= 2 and isinstance(c.args[1], ast.Constant) and c.args[1].value in ("_grad", "_view_grad"):
                run.ob("R14.1", loc(fi, c), fi.short, f"setattr(..., {c.args[1].value!r})", False, "dynamic write of a tensor gradient")


def _seed_store(run):
    fi = anchor_func(run, BACKWARD)
    stores = [n for n in own_nodes(fi.node) if isinstance(n, ast.Assign) and any(norm(t) == "self._grad" for t in n.targets)
              and not is_none_value(n.value)]
    if len(stores) == 1 and isinstance(stores[0].value, ast.Call):
        return fi, stores[0]
    if len(stores) != 1 or not isinstance(stores[0].value, ast.Name):
        # the seed is written in several steps: judge the ordering directly
        cfg = build_cfg(run, fi, switch_assumptions(fi, track=True, extra={"self.constant": False, "grad is not None": True}))
        raises = [n for n, s in cfg.stmt.items() if isinstance(s, ast.Raise) and cfg.reachable(n)]
        early = [s for s in stores if cfg.node_for(s) is not None and any(cfg.node_for(s) in nx.ancestors(cfg.g, r) for r in raises)]
        if early:
            run.ob("R14.2", loc(fi, early[0]), fi.short, "rejection happens before the seed is stored", False,
                   f"`{norm(early[0])[:50]}` (line {early[0].lineno}) precedes the broadcast validation: a rejected seed is left in .grad")
            return fi, None
        raise AnalysisError(f"{fi.short}: expected exactly one store `self._grad = <name>` of the seed")
    return fi, stores[0]


def _like_self_data(v: ast.AST) -> bool:
    return isinstance(v, ast.Call) and (dotted(v.func) or "").split(".")[-1] in ("full_like", "ones_like", "zeros_like", "empty_like") \
        and v.args and norm(v.args[0]) == "self.data"


def _renamed_receiver(helper: FunctionInfo, recv: str) -> FunctionInfo:
    """a module-level helper `f(tensor, grad)`: analyse a copy in which the receiver parameter is spelled `self`"""
    import copy

    class Ren(ast.NodeTransformer):
        def visit_Name(self, n):
            return ast.copy_location(ast.Name(id="self", ctx=n.ctx), n) if n.id == recv else n

        def visit_arg(self, n):
            if n.arg == recv:
                n.arg = "self"
            return n

    node = Ren().visit(copy.deepcopy(helper.node))
    ast.fix_missing_locations(node)
    for p_ in ast.walk(node):
        for ch in ast.iter_child_nodes(p_):
            ch._parent = p_
    node._parent = getattr(helper.node, "_parent", None)
    h2 = copy.copy(helper)
    h2.node = node
    return h2


def r14_2(run):
    fi, st = _seed_store(run)
    if st is None:
        return
    g = st.value.id if isinstance(st.value, ast.Name) else None
    gradp = "grad"
    cfg = build_cfg(run, fi, switch_assumptions(fi, track=True, extra={"self.constant": False}))
    ns = cfg.node_for(st)
    # the seed construction may live in a helper: follow  <g> = self.<helper>(grad) / <helper>(self, grad)  (also stored directly) and judge its returns
    if g is None:
        vals_ = [st.value]
    else:
        defs_ = reaching_defs(cfg, g, ns)
        vals_ = [getattr(cfg.stmt[d], "value", None) for d in defs_ if d != ENTRY]
    followed = False
    if len(vals_) == 1 and isinstance(vals_[0], ast.Call):
        call = vals_[0]
        helper = facts(run).resolve_call(fi, call)
        if isinstance(helper, FunctionInfo):
            hargs = [a.arg for a in helper.node.args.args]
            if isinstance(call.func, ast.Attribute) and norm(call.func.value) == "self" and helper.cls is not None:
                recv, hp, passed = hargs[0], hargs[1:], [norm(a) for a in call.args]
            elif isinstance(call.func, ast.Name) and call.args and norm(call.args[0]) == "self":
                recv, hp, passed = hargs[0], hargs[1:], [norm(a) for a in call.args[1:]]
            else:
                recv = None
            rets = [r for r in own_nodes(helper.node) if isinstance(r, ast.Return) and isinstance(r.value, ast.Name)]
            if recv is not None and len(rets) == 1 and "grad" in passed and passed.index("grad") < len(hp):
                run.ob("R14.2", loc(fi, st), fi.short, f"seed built by helper {helper.short}, stored after it returns", True,
                       "the helper call is the only reaching definition of the stored seed")
                if recv != "self":
                    helper = _renamed_receiver(helper, recv)
                    rets = [r for r in own_nodes(helper.node) if isinstance(r, ast.Return) and isinstance(r.value, ast.Name)]
                fi, st, g, gradp = helper, rets[0], rets[0].value.id, hp[passed.index("grad")]
                cfg = build_cfg(run, fi, {})
                ns = cfg.node_for(st)
                followed = True
    if g is None and not followed:
        raise AnalysisError(f"{fi.short}: the stored seed is a call that could not be followed")
    # (1) dtype: every reaching definition is *_like(self.data) or carries dtype=self.dtype
    defs = reaching_defs(cfg, g, ns)
    for d in defs:
        if d == ENTRY:
            run.ob("R14.2", loc(fi, st), fi.short, f"seed {g} defined on every path", False, "the seed may be undefined")
            continue
        v = getattr(cfg.stmt[d], "value", None)
        dt = kw(v, "dtype") if isinstance(v, ast.Call) else None
        ok = _like_self_data(v) or (dt is not None and norm(dt) == "self.dtype") or (
            isinstance(v, ast.Call) and isinstance(v.func, ast.Attribute) and v.func.attr == "astype" and v.args and norm(v.args[0]) == "self.dtype")
        run.ob("R14.2", loc(fi, cfg.stmt[d]), fi.short, f"seed definition {norm(v)[:60] if v is not None else '?'} has the tensor's dtype", ok,
               "*_like(self.data) or dtype=self.dtype" if ok else "the stored seed can have a dtype different from the tensor's")
    # (1b) type: the caller's object (possibly a Tensor) enters the seed only through asarray(...), which yields a plain ndarray
    uses = [x for x in own_nodes(fi.node) if isinstance(x, ast.Name) and x.id == gradp and isinstance(x.ctx, ast.Load)]
    raw = []
    for u in uses:
        par = getattr(u, "_parent", None)
        if isinstance(par, ast.Compare) and all(isinstance(o, (ast.Is, ast.IsNot)) for o in par.ops):
            continue
        if isinstance(par, ast.Call) and par.args and par.args[0] is u and (dotted(par.func) or "").split(".")[-1] in ("asarray", "asanyarray", "array"):
            tgt = facts(run).resolve_call(fi, par)
            nm = tgt.qualname if isinstance(tgt, FunctionInfo) else (facts(run).ext_name_of(fi, par.func) or "")
            if nm in ("mygrad.tensor_base.asarray", "numpy.asarray", "numpy.array"):
                continue
        p2 = u
        in_raise = False
        while p2 is not None and not isinstance(p2, ast.stmt):
            p2 = getattr(p2, "_parent", None)
        if isinstance(p2, ast.Raise):
            continue  # error text
        if fi.qualname == BACKWARD and isinstance(par, ast.Call) and isinstance(par.func, ast.Attribute) and norm(par.func.value) == "self":
            continue  # handed to the seed helper (judged there)
        raw.append(u)
    run.ob("R14.2", loc(fi, raw[0] if raw else st), fi.short, f"the caller's `{gradp}` reaches the seed only through asarray(...)", not raw,
           f"{len(uses)} use(s): None-tests, asarray(...), error text" if not raw else
           f"`{gradp}` is used raw in `{norm(getattr(raw[0], '_parent', raw[0]))[:60]}`: a Tensor seed turns the NumPy call into a mygrad op and a Tensor is stored as .grad")
    # (2) shape: under `grad is not None` every path to the store leaves a shape test on its false edge
    cfg1 = build_cfg(run, fi, switch_assumptions(fi, track=True, extra={"self.constant": False, f"{gradp} is not None": True}))
    ns1 = cfg1.node_for(st)
    tests = [n for n, s in cfg1.stmt.items() if cfg1.label[n] == "If" and isinstance(s, ast.Compare) and len(s.ops) == 1
             and isinstance(s.ops[0], ast.NotEq) and norm(s.left) == f"{g}.shape" and norm(s.comparators[0]) == "self.shape"]
    h = cfg1.g.copy()
    cut_ok = bool(tests)
    for t in tests:
        for b in list(cfg1.g.successors(t)):
            ks = cfg1.g[t][b]["kinds"]
            if "false" in ks:
                if ks - {"false"}:
                    cut_ok = False
                h.remove_edge(t, b)
    ok = cut_ok and ns1 is not None and not nx.has_path(h, ENTRY, ns1)
    run.ob("R14.2", loc(fi, st), fi.short, f"a user seed is stored only after `{g}.shape != self.shape` evaluated false", ok,
           f"removing the false edges of the {len(tests)} shape test(s) disconnects the store" if ok else
           "a seed of the wrong shape can be stored")
    # (3) the failing edge raises; broadcasting goes through *_like(self.data)
    raises = [n for n, s in cfg1.stmt.items() if isinstance(s, ast.Raise)]
    ok = False
    for t in tests:
        for r in raises:
            if cfg1.edge_dominates(t, "true", r):
                ok = True
    run.ob("R14.2", loc(fi, st), fi.short, "a seed that still mismatches after broadcasting is rejected with an error", ok,
           "a raise is edge-dominated by the true edge of a shape test" if ok else "no rejection path for unbroadcastable seeds")
    # (4) no gradient is written on rejection: no Tensor._grad value-store can precede a raise
    def _propagates_later_failure(r):
        """`raise` / `raise e` in a handler whose try-block starts after the store: it passes on a failure of back-propagation itself"""
        s = cfg1.stmt[r]
        h = getattr(s, "_parent", None)
        while h is not None and not isinstance(h, (ast.ExceptHandler, ast.FunctionDef)):
            h = getattr(h, "_parent", None)
        if not isinstance(h, ast.ExceptHandler) or not (s.exc is None or (isinstance(s.exc, ast.Name) and s.exc.id == h.name)):
            return False
        t = getattr(h, "_parent", None)
        first = cfg1.stmt_node_containing(t.body[0]) if isinstance(t, ast.Try) else None
        return first is not None and ns1 is not None and cfg1.dominates(ns1, first)

    raises = [r for r in raises if not _propagates_later_failure(r)]
    for r in raises:
        before = nx.ancestors(cfg1.g, r)
        ok = ns1 not in before
        run.ob("R14.2", loc(fi, cfg1.stmt[r]), fi.short, "rejection happens before the seed is stored", ok,
               "the store is not an ancestor of the raise" if ok else "seed stored, then rejected")
    # (4b) ... and the rejection does not dismantle the graph
    clears = {cfg1.stmt_node_containing(c) for c in calls_named(fi.node, "clear_graph")}
    clears.discard(None)
    for r in raises:
        before = nx.ancestors(cfg1.g, r)
        hit = sorted(clears & before)
        run.ob("R14.2", loc(fi, cfg1.stmt[r]), fi.short, "a rejected seed does not clear the graph", not hit,
               "no clear_graph() on any path to the raise" if not hit else
               "backward(grad) with an incompatible grad destroys the graph before raising: a later, valid backward() finds nothing to propagate through")
    # (4c) ... nor the gradients the upstream tensors hold: the traversal that nulls them (collect_all_tensors_and_clear_grads / any null_grad)
    #      comes after the last rejection
    wipes = {cfg1.stmt_node_containing(c) for c in calls_named(fi.node, "collect_all_tensors_and_clear_grads")}
    wipes |= {cfg1.stmt_node_containing(c) for c in calls_named(fi.node, "null_grad")}
    wipes.discard(None)
    for r in raises:
        before = nx.ancestors(cfg1.g, r)
        hit = sorted(wipes & before)
        run.ob("R14.2", loc(fi, cfg1.stmt[r]), fi.short, "a rejected seed does not discard the gradients of upstream tensors", not hit,
               "the graph traversal (which nulls every upstream gradient) is not an ancestor of the raise" if not hit else
               "backward(grad) with an incompatible grad has already traversed the graph and nulled the gradient of every upstream tensor when it "
               "raises: a failed call leaves a trace (x.grad of a leaf reached through views is gone)")
    # (5) default seed
    cfg0 = build_cfg(run, fi, switch_assumptions(fi, track=True, extra={"self.constant": False, f"{gradp} is not None": False}))
    ns0 = cfg0.node_for(st)
    defs0 = reaching_defs(cfg0, g, ns0) if ns0 is not None else []
    ok = bool(defs0) and all(d != ENTRY and _like_self_data(getattr(cfg0.stmt[d], "value", None))
                             and "1" in norm(cfg0.stmt[d].value) for d in defs0)
    run.ob("R14.2", loc(fi, st), fi.short, "default seed is ones shaped and typed like the tensor's data", ok,
           "np.full_like(self.data, 1.0) / ones_like(self.data)" if ok else "backward() without argument does not seed with ones_like(self)")


_ARR_MAKERS = ("asarray", "array", "copy", "ascontiguousarray", "full_like", "ones_like", "zeros_like", "empty_like", "full", "zeros", "ones", "empty")
_ARR_ALWAYS = ("select", "concatenate", "stack", "broadcast_to")
_ARR_METHODS = ("astype", "reshape", "copy", "view", "transpose", "squeeze")


def _scalar_leak(cfg, e: ast.AST, at: int, seen) -> Optional[ast.AST]:
    """None if expression `e` (evaluated at CFG node `at`) is an ndarray whenever its array inputs are; otherwise the sub-expression
    that can produce a NumPy scalar for 0-d operands (array arithmetic, ufunc calls without out=, reductions, unknown calls)."""
    if isinstance(e, ast.IfExp):
        return _scalar_leak(cfg, e.body, at, seen) or _scalar_leak(cfg, e.orelse, at, seen)
    if isinstance(e, ast.Name):
        for d in reaching_defs(cfg, e.id, at):
            if d == ENTRY or (d, e.id) in seen:
                continue
            seen.add((d, e.id))
            st = cfg.stmt[d]
            v = getattr(st, "value", None)
            if isinstance(st, ast.AugAssign) or v is None:
                return st
            if isinstance(st, ast.Assign) and len(st.targets) == 1 and isinstance(st.targets[0], ast.Name):
                r = _scalar_leak(cfg, v, d, seen)
                if r is not None:
                    return r
            else:
                return st
        return None
    if isinstance(e, ast.Call):
        d = dotted(e.func) or ""
        if d.split(".")[0] in ("np", "numpy") and d.split(".")[-1] in _ARR_MAKERS:
            return None
        if d.split(".")[0] in ("np", "numpy") and ((d.split(".")[-1] == "where" and len(e.args) == 3) or d.split(".")[-1] in _ARR_ALWAYS):
            return None  # three-argument where / select / joins allocate an ndarray even for 0-d operands
        if isinstance(e.func, ast.Attribute) and e.func.attr in _ARR_METHODS and not d.startswith(("np.", "numpy.")):
            return _scalar_leak(cfg, e.func.value, at, seen)
        if d.endswith("grad_post_process_fn") and e.args:
            return _scalar_leak(cfg, e.args[0], at, seen)  # returns its argument or a 0-d-normalised reduction (checked below)
        h = _HELPER_RESOLVER["f"](e) if isinstance(e.func, ast.Name) and _HELPER_RESOLVER.get("f") is not None else None
        if h is not None and not h.node.args.vararg and not e.keywords and len(e.args) == len(h.node.args.args):
            # a small repo helper: every return expression must be array-valued given array-valued parameters, and the actual arguments must be
            rets = [r for r in own_nodes(h.node) if isinstance(r, ast.Return)]
            if rets and all(r.value is not None for r in rets):
                hc = CFG(h.node)
                for r in rets:
                    if _scalar_leak(hc, r.value, hc.node_for(r), set()) is not None:
                        return e
                for a in e.args:
                    if isinstance(a, ast.Name) and _scalar_leak(cfg, a, at, seen) is not None:
                        return e
                return None
        return e
    return e


def r14_3(run):
    fx = facts(run)
    # ---- Operation.backward
    fi = anchor_func(run, OP_BACKWARD)
    _HELPER_RESOLVER["f"] = lambda call: (lambda r: r if hasattr(r, "node") and hasattr(r, "qualname") else None)(fx.resolve_call(fi, call))
    cfg = build_cfg(run, fi, {"NP_IS_V2": True})
    loops = [n for n in own_nodes(fi.node) if isinstance(n, ast.For) and "self.variables" in norm(n.iter)]
    var = [x.id for x in ast.walk(loops[0].target) if isinstance(x, ast.Name)][-1]
    stores = [n for n in own_nodes(fi.node) if (isinstance(n, ast.Assign) and any(norm(t) == f"{var}._grad" for t in n.targets))
              or (isinstance(n, ast.AugAssign) and norm(n.target) == f"{var}._grad")]
    plain = [s for s in stores if isinstance(s, ast.Assign)]
    if not plain:
        raise AnalysisError(f"{fi.short}: first-contribution store not found")
    for s in stores:
        ns = cfg.node_for(s)
        g = s.value.id if isinstance(s.value, ast.Name) else None
        acc_cast = False
        if g is None and isinstance(s, ast.Assign):
            # X._grad = (X._grad + g).astype(X.dtype ...)   -- accumulation spelled out, with the dtype cast
            v = s.value
            inner = v.func.value if isinstance(v, ast.Call) and isinstance(v.func, ast.Attribute) else None
            if isinstance(inner, ast.Call) and (dotted(inner.func) or "") in ("np.asarray", "numpy.asarray") and len(inner.args) == 1:
                inner = inner.args[0]
            if isinstance(v, ast.Call) and isinstance(v.func, ast.Attribute) and v.func.attr == "astype" and v.args \
                    and norm(v.args[0]) == f"{var}.dtype" and isinstance(inner, ast.BinOp) and isinstance(inner.op, ast.Add):
                parts = [inner.left, inner.right]
                if any(norm(x) == f"{var}._grad" for x in parts):
                    other = [x for x in parts if norm(x) != f"{var}._grad"]
                    if len(other) == 1 and isinstance(other[0], ast.Name):
                        g = other[0].id
                        acc_cast = True
        if g is None:
            run.ob("R14.3", loc(fi, s), fi.short, f"store {norm(s)[:50]}", False, "stored value is not a tracked local")
            continue
        from .util import projection_aliases, sem
        _al = projection_aliases(fi.node)
        asserts = [n for n, st in cfg.stmt.items() if isinstance(st, ast.Assert) and isinstance(st.test, ast.Compare)
                   and {sem(st.test.left, _al), sem(st.test.comparators[0], _al)} == {f"{g}.shape", f"{var}.shape"}
                   and isinstance(st.test.ops[0], ast.Eq)]
        ok = any(cfg.dominates(a, ns) and not _redefined_between(cfg, g, a, ns, like=f"{var}.data") for a in asserts)
        run.ob("R14.3", loc(fi, s), fi.short, f"shape of `{norm(s)[:40]}`", ok,
               f"dominated by `assert {g}.shape == {var}.shape` with no shape-changing redefinition in between" if ok else
               "a gradient whose shape differs from the tensor's can be stored")
        if acc_cast:
            run.ob("R14.3", loc(fi, s), fi.short, f"dtype of `{norm(s)[:40]}`", True, f"explicit .astype({var}.dtype) on the accumulated sum")
        elif isinstance(s, ast.Assign):
            def _dt(e):  # a tensor's dtype is its array's dtype
                return norm(e).replace(".data.dtype", ".dtype")
            tests = [n for n, st in cfg.stmt.items() if cfg.label[n] == "If" and isinstance(st, ast.Compare)
                     and isinstance(st.ops[0], ast.NotEq) and {_dt(st.left), _dt(st.comparators[0])} == {f"{g}.dtype", f"{var}.dtype"}]
            casts = [n for n, st in cfg.stmt.items() if isinstance(st, ast.Assign) and assigned_name(st) == g
                     and isinstance(st.value, ast.Call) and isinstance(st.value.func, ast.Attribute) and st.value.func.attr == "astype"
                     and st.value.args and _dt(st.value.args[0]) == f"{var}.dtype"]
            h = cfg.g.copy()
            h.remove_nodes_from(casts)
            for t in tests:
                for b in list(cfg.g.successors(t)):
                    if b in h and "false" in cfg.g[t][b]["kinds"] and h.has_edge(t, b):
                        h.remove_edge(t, b)
            ok = bool(tests or casts) and not nx.has_path(h, ENTRY, ns)
            run.ob("R14.3", loc(fi, s), fi.short, f"dtype of `{norm(s)[:40]}`", ok,
                   f"every path passes `.astype({var}.dtype)` or the false edge of the dtype comparison" if ok else
                   "the first contribution can be stored with the producer's dtype (float64 grad on a float32 tensor)")
        else:
            run.ob("R14.3", loc(fi, s), fi.short, f"dtype of `{norm(s)[:40]}`", True,
                   "in-place `+=` keeps the dtype of the already stored gradient", nontrivial=False)
    # ndarray-ness (R14.4)
    conv = [n for n, st in cfg.stmt.items() if isinstance(st, ast.Assign) and isinstance(st.value, ast.Call)
            and (dotted(st.value.func) or "") in ("np.asarray", "numpy.asarray", "np.array")
            and assigned_name(st) and st.value.args and norm(st.value.args[0]) == assigned_name(st)]
    for s in stores:
        ns = cfg.node_for(s)
        ok = any(cfg.dominates(c, ns) for c in conv)
        run.ob("R14.4", loc(fi, s), fi.short, f"`{norm(s)[:40]}` stores an ndarray (not a NumPy scalar)", ok,
               "np.asarray(backed_grad) dominates the store" if ok else "a Python/NumPy scalar can be stored as a gradient")
        # ... and nothing between the conversion and the store turns a 0-d array back into a NumPy scalar
        if isinstance(s, ast.AugAssign):
            run.ob("R14.4", loc(fi, s), fi.short, f"`{norm(s)[:40]}` keeps the stored array", True,
                   "in-place accumulation into the array already stored", nontrivial=False)
            continue
        bad = _scalar_leak(cfg, s.value, ns, set())
        run.ob("R14.4", loc(fi, bad if bad is not None else s), fi.short, f"array-ness of `{norm(s)[:40]}` survives every step after np.asarray", bad is None,
               "every reaching definition is np.asarray/np.copy/astype/… of an array, or the 0-d-normalising grad_post_process_fn" if bad is None else
               f"`{norm(bad)[:60]}` yields a NumPy scalar, not a 0-d ndarray, when the operands are 0-d: a 0-d tensor's .grad becomes np.float64")
    pp = anchor_func(run, "mygrad.operation_base.Operation.grad_post_process_fn")
    cfgp = build_cfg(run, pp, {"NP_IS_V2": True})
    nd0 = [n for n, st in cfgp.stmt.items() if cfgp.label[n] == "If" and "ndim == 0" in norm(st)]
    red = [n for n, st in cfgp.stmt.items() if isinstance(st, ast.Assign) and isinstance(st.value, ast.Call)
           and (dotted(st.value.func) or "").endswith("reduce_broadcast")]
    if not nd0:
        # the normalisation may live in the reduction helper (behind an option the caller switches on): judge the two functions as one body
        from ..inline import force_inline
        pp2 = force_inline(run.project, pp, {"reduce_broadcast"})
        cfgp = build_cfg(run, pp2, {"NP_IS_V2": True})
        nd0 = [n for n, st in cfgp.stmt.items() if cfgp.label[n] == "If" and "ndim == 0" in norm(st) and eval3(st, {"NP_IS_V2": True}) is not False]
        red = [n for n, st in cfgp.stmt.items() if isinstance(st, ast.Assign) and isinstance(st.value, ast.Call)
               and isinstance(st.value.func, ast.Attribute) and st.value.func.attr == "sum"]
    ok = False
    for t in nd0:
        for c in [n for n, st in cfgp.stmt.items() if isinstance(st, ast.Assign) and isinstance(st.value, ast.Call)
                  and (dotted(st.value.func) or "") in ("np.asarray", "np.array")]:
            if cfgp.edge_dominates(t, "true", c) and red and all(cfgp.all_paths_hit(r, {t}, exits=(EXIT,)) is None for r in red):
                ok = True
    run.ob("R14.4", loc(pp, pp.node), pp.short, "0-d results of the broadcast reduction are normalised to arrays", ok,
           "`if out.ndim == 0: out = np.asarray(out)` after reduce_broadcast" if ok else "sum-reduction to a scalar leaks a NumPy scalar")
    # ---- gru._backprop: dtype obligation discharged at its call sites
    bp = run.project.functions.get("mygrad.nnet.layers.gru._backprop")
    if bp is None:
        raise AnalysisError("gru._backprop not found")
    sites = 0
    for f2 in run.project.all_functions():
        for c in calls_named(f2.node, "_backprop"):
            if fx.resolve_call(f2, c) is not bp or len(c.args) < 2:
                continue
            sites += 1
            tgt = norm(c.args[0])
            val = c.args[1]
            txt = norm(val)
            ok = f".astype({tgt}.dtype" in txt or f"dtype={tgt}.dtype" in txt
            run.ob("R14.3", loc(f2, c), f2.short, f"_backprop({tgt}, ...) value cast to {tgt}.dtype", ok,
                   "argument passes .astype(T.dtype) / dtype=T.dtype" if ok else
                   f"{tgt}.grad can be stored with the layer's computation dtype instead of the tensor's")
            o = run.ob("R14.3", loc(f2, c), f2.short, f"_backprop({tgt}, ...) shape", True,
                       "shape provenance UNKNOWN (tensordot/sum result): not verified statically", nontrivial=False,
                       note="shape unverified")
    run.count("_backprop call sites", sites)
    # ---- GRUnit.backward: own output's gradient
    gb = run.project.functions.get("mygrad.nnet.layers.gru.GRUnit.backward")
    if gb is None:
        raise AnalysisError("GRUnit.backward not found")
    gparam = [a.arg for a in gb.node.args.args][1]
    cfgg = build_cfg(run, gb)
    for s in own_nodes(gb.node):
        if isinstance(s, ast.Assign) and any(isinstance(t, ast.Attribute) and t.attr == "_grad" for t in s.targets) \
                and not is_none_value(s.value):
            tname = norm(s.targets[0].value)
            prov = _shape_provenance(cfgg, s.value, cfgg.node_for(s), gparam)
            ok = prov != "SLICE_OF"
            run.ob("R14.3", loc(gb, s), gb.short, f"store {tname}._grad <- {prov}(param {gparam})", ok,
                   "shape provenance is the op's incoming gradient itself (same shape as the op's output)" if prov == "SAME_AS" else
                   ("shape provenance unknown: not verified" if ok else
                    "the op's own output tensor receives a *slice* of the incoming gradient: its .grad has fewer rows than the tensor"),
                   note=None if prov in ("SAME_AS", "SLICE_OF") else "shape unverified")
            dt = norm(s.value)
    # ---- Tensor.copy
    cp = specialise_defaults(anchor_func(run, f"{TENSOR}.copy"), keep=("constant",))
    for s in own_nodes(cp.node):
        if isinstance(s, ast.Assign) and any(isinstance(t, ast.Attribute) and t.attr == "_grad" for t in s.targets):
            if is_none_value(s.value):
                continue  # the None arm of `copy._grad = <copy of self._grad> if self._grad is not None else None` (or a plain reset): no value stored
            recv = norm(s.targets[0].value)
            src_ok = "np.copy(self._grad)" in norm(s.value) or "self._grad.copy()" in norm(s.value)
            d = fx._single_local_value(cp, recv)
            built_ok = isinstance(d, ast.Call) and d.args and norm(d.args[0]) in ("np.copy(self.data)", "self.data.copy()") \
                and kw(d, "dtype") is None
            ok = src_ok and built_ok
            run.ob("R14.3", loc(cp, s), cp.short, f"{recv}._grad copies self._grad alongside a same-dtype copy of self.data", ok,
                   "gradient and data are both plain copies of the same tensor's arrays (shape/dtype preserved)" if ok else
                   "the copy's gradient can disagree with the copy's data in shape or dtype")


def _redefined_between(cfg, name, a, b, like=None) -> bool:
    """Is there a definition of `name`, on a path a->b, that may change its shape? (astype / np.copy keep it)"""
    from ..cfg import stmt_defines
    fw = cfg.reachable_from(a)
    for n, s in cfg.stmt.items():
        if n == a or n not in fw or n == b:
            continue
        if stmt_defines(s, name) and b in cfg.reachable_from(n):
            # the loop back-edge makes earlier defs reachable again; only defs that are dominated by `a` count
            if not cfg.dominates(a, n):
                continue
            v = getattr(s, "value", None)
            if isinstance(v, ast.Name) and v.id != name and like is not None:
                # name = buf with buf = *_like(<var>.data) filled from `name`: the buffer has the tensor's shape by construction
                from .util import buffer_fill
                bf = buffer_fill(cfg, v.id, n)
                if bf is not None and norm(bf[1]) == like and isinstance(bf[3], ast.Name) and bf[3].id == name:
                    continue
            if not _shape_preserving(v, name, cfg=cfg):
                return True
    return False


_HELPER_RESOLVER = {}


def _shape_preserving(v, name, cfg=None, depth=0) -> bool:
    if v is None:
        return False
    if isinstance(v, ast.IfExp):
        return _shape_preserving(v.body, name, cfg, depth) and _shape_preserving(v.orelse, name, cfg, depth)
    # a repo helper whose every return is a shape-preserving function of the parameter that receives `name`
    if isinstance(v, ast.Call) and isinstance(v.func, ast.Name) and depth < 2 and _HELPER_RESOLVER.get("f") is not None:
        r = _HELPER_RESOLVER["f"](v)
        if r is not None and hasattr(r, "node"):
            params = [a.arg for a in r.node.args.args]
            for i, a in enumerate(v.args):
                if norm(a) == name and i < len(params):
                    rets = [x for x in own_nodes(r.node) if isinstance(x, ast.Return)]
                    return bool(rets) and all(_shape_preserving(x.value, params[i], cfg, depth + 1) for x in rets)
    if isinstance(v, ast.Name):
        return v.id == name
    if isinstance(v, ast.Call):
        d = dotted(v.func) or ""
        if d in ("np.copy", "np.asarray", "np.ascontiguousarray") and v.args and norm(v.args[0]) == name:
            return True
        if isinstance(v.func, ast.Attribute) and v.func.attr in ("astype", "copy") and norm(v.func.value) == name:
            return True
    return False


def _shape_provenance(cfg, value, at, gparam, depth=0) -> str:
    """SAME_AS / SLICE_OF / UNKNOWN relative to the incoming gradient parameter."""
    if depth > 6:
        return "UNKNOWN"
    if isinstance(value, ast.Name):
        if value.id == gparam:
            defs = reaching_defs(cfg, gparam, at)
            if defs == [ENTRY]:
                return "SAME_AS"
        defs = reaching_defs(cfg, value.id, at)
        res = set()
        for d in defs:
            if d == ENTRY:
                res.add("UNKNOWN")
            else:
                res.add(_shape_provenance(cfg, getattr(cfg.stmt[d], "value", None), d, gparam, depth + 1))
        if res == {"SAME_AS"}:
            return "SAME_AS"
        if "SLICE_OF" in res:
            return "SLICE_OF"
        return "UNKNOWN"
    if isinstance(value, ast.Call) and isinstance(value.func, ast.Attribute) and value.func.attr in ("astype", "copy"):
        return _shape_provenance(cfg, value.func.value, at, gparam, depth + 1)
    if isinstance(value, ast.Call) and (dotted(value.func) or "") in ("np.copy", "np.asarray", "np.array", "np.ascontiguousarray") and value.args:
        return _shape_provenance(cfg, value.args[0], at, gparam, depth + 1)
    if isinstance(value, ast.Subscript):
        inner = _shape_provenance(cfg, value.value, at, gparam, depth + 1)
        if inner in ("SAME_AS", "SLICE_OF"):
            sl = value.slice
            if isinstance(sl, ast.Slice) and (sl.lower is not None or sl.upper is not None or sl.step is not None):
                return "SLICE_OF"
            if isinstance(sl, (ast.Constant, ast.Tuple)) and norm(sl) not in ("...", "()"):
                return "SLICE_OF"
            return inner
    return "UNKNOWN"


def r14_5(run):
    """a tensor whose array is re-shaped in place may not keep a gradient of the old shape: every store to `<t>.data.shape` is followed,
    on every path to the function's exit, by a store that restores the old shape or by dropping the gradient"""
    fx = facts(run)
    n = 0
    for fi in run.project.all_functions():
        stores = [s for s in own_nodes(fi.node) if isinstance(s, ast.Assign) and len(s.targets) == 1 and isinstance(s.targets[0], ast.Attribute)
                  and s.targets[0].attr == "shape" and norm(s.targets[0].value).endswith(".data")]
        if not stores:
            continue
        recv = norm(stores[0].targets[0].value)[:-len(".data")]
        for assume_track in (True, False):
            cfg = build_cfg(run, fi, switch_assumptions(fi, track=assume_track))
            olds = {assigned_name(s) for s in own_nodes(fi.node) if isinstance(s, ast.Assign) and assigned_name(s) and norm(s.value) in (f"{recv}.shape", f"{recv}.data.shape")}
            safe = {cfg.node_for(s) for s in stores if isinstance(s.value, ast.Name) and s.value.id in olds}
            safe |= {cfg.stmt_node_containing(c) for c in calls_named(fi.node, "null_grad") if norm(c.func.value) == recv}
            safe |= {cfg.node_for(s) for s in own_nodes(fi.node) if isinstance(s, ast.Assign) and any(norm(t) == f"{recv}._grad" for t in s.targets) and is_none_value(s.value)}
            safe.discard(None)
            for s in stores:
                ns = cfg.node_for(s)
                if ns is None or not cfg.reachable(ns) or ns in safe:
                    continue
                n += 1
                bad = None
                for succ in cfg.g.successors(ns):
                    if succ in (RAISE,) or "exc" in cfg.g[ns][succ]["kinds"] and len(cfg.g[ns][succ]["kinds"]) == 1:
                        continue
                    if succ in safe:
                        continue
                    w = cfg.all_paths_hit(succ, safe, exits=(EXIT,)) if succ != EXIT else [ns, EXIT]
                    if w is not None:
                        bad = w
                run.ob("R14.5", loc(fi, s), fi.short, f"[TRACK_GRAPH={'T' if assume_track else 'F'}] `{norm(s)}` is followed by a restore of the old shape or by dropping {recv}'s gradient",
                       bad is None, "every path from the store to the exit passes `.data.shape = <old shape>` / null_grad()" if bad is None else
                       f"{recv} is re-shaped in place while it may hold a gradient of the old shape: afterwards {recv}.grad.shape != {recv}.shape",
                       path=cfg.path_text(bad) if bad else None)
    run.count("in-place re-shapes of a tensor's array", n)



_CONVERT = {"array", "asarray", "copy", "ascontiguousarray", "asanyarray", "astype"}


def r14_6(run):
    """a gradient that may be None is never converted unguarded.  `<t>.grad` / `<t>._grad` read None whenever the tensor holds no gradient;
    np.array(None) / np.copy(None) / np.asarray(None) is a 0-d *object* array, i.e. a non-None `.grad` that is neither of the tensor's dtype nor of
    its shape (and indexing it raises).  Every conversion of such a read that flows into a `_grad` store must sit on the not-None edge of a
    test of that same read."""
    from ..cfg import CFG, ENTRY as _E, reaching_defs as _rd
    n = 0
    for fi, mod, st, t, val, kind in tensor_grad_stores(run):
        if fi is None or val is None or is_none_value(val):
            continue
        cfg = build_cfg(run, fi)
        at = cfg.node_for(st)
        if at is None:
            continue

        def grad_reads(e):
            return [x for x in ast.walk(e) if isinstance(x, ast.Attribute) and x.attr in ("grad", "_grad") and isinstance(x.ctx, ast.Load)]

        def guarded(read_text, node_expr):
            # inside an IfExp testing the same read for None
            p_ = getattr(node_expr, "_parent", None)
            while p_ is not None and p_ is not st:
                if isinstance(p_, ast.IfExp) and read_text in norm(p_.test) and "None" in norm(p_.test):
                    return True
                p_ = getattr(p_, "_parent", None)
            # or the statement is control-dependent on such a test
            for tnode, tst in cfg.stmt.items():
                if cfg.label.get(tnode) == "If" and read_text in norm(tst) and "None" in norm(tst):
                    if cfg.edge_dominates(tnode, "true", at) or cfg.edge_dominates(tnode, "false", at):
                        return True
            return False

        for call in [x for x in ast.walk(val) if isinstance(x, ast.Call)]:
            d = dotted(call.func) or ""
            leaf = d.split(".")[-1] if d else (call.func.attr if isinstance(call.func, ast.Attribute) else "")
            if leaf not in _CONVERT:
                continue
            subject = call.args[0] if (d.split(".")[0] in ("np", "numpy") and call.args) else (call.func.value if isinstance(call.func, ast.Attribute) else None)
            if subject is None:
                continue
            reads = grad_reads(subject) if not isinstance(subject, ast.Name) else []
            if isinstance(subject, ast.Name):
                for dnode in _rd(cfg, subject.id, at):
                    if dnode != _E:
                        v2 = getattr(cfg.stmt[dnode], "value", None)
                        if isinstance(v2, ast.Attribute) and v2.attr in ("grad", "_grad"):
                            reads.append(ast.Name(id=subject.id, ctx=ast.Load()))
            for r in reads:
                if isinstance(r, ast.Attribute) and norm(r) == norm(t):
                    continue  # re-casting the slot's own current value in an accumulation: a value is present
                n += 1
                rt = norm(r)
                ok = guarded(rt, call)
                run.ob("R14.6", loc(fi, call), fi.short, f"`{norm(call)[:50]}` converts `{rt}` only when it is not None", ok,
                       f"on the not-None edge of a test of `{rt}`" if ok else
                       f"`{rt}` is None whenever the tensor holds no gradient; {leaf}(None) is a 0-d object array: the tensor then reports a non-None .grad "
                       f"that has neither its dtype nor its shape")
    run.count("conversions of possibly-None gradients", n)

def check(run):
    run.rule("R14.1", "closed set of writers of Tensor._grad (and of wholesale __dict__ copies)", floor=10)
    run.rule("R14.2", "seed: dtype=self.dtype / *_like(self.data); stored only after the shape test is false; mismatch raises before any store", floor=6)
    run.rule("R14.3", "every non-None store of a gradient discharges a dtype obligation (cast / comparison / dtype=) and a shape obligation "
             "(assert / provenance); a provable shape mismatch (SLICE_OF the incoming grad stored for the op's own output) is a violation", floor=14)
    run.rule("R14.4", "values that may be NumPy scalars pass np.asarray before being stored", floor=3)
    run.do(r14_1)
    run.do(r14_2)
    run.do(r14_3)
    run.rule("R14.5", "an in-place change of a tensor's array shape restores it or drops the tensor's gradient", floor=2)
    run.do(r14_5)
    run.rule("R14.6", "a possibly-None gradient read is converted (np.array / np.copy / astype ...) only under a not-None test of that read", floor=1)
    run.do(r14_6)
